#!/usr/bin/env python3
"""Shared machinery for all checks: building /repo's working tree, building harnesses,
building and auditing the Lean development, evidence, replays, known findings."""
import fcntl
import hashlib
import json
import os
import re
import subprocess
import sys
import time

VERIF = os.path.dirname(os.path.dirname(os.path.abspath(__file__)))
REPO = os.environ.get("VERIF_REPO", "/repo")
BUILD = os.path.join(VERIF, ".build")
LEAN = os.path.join(VERIF, "lean")
HARNESS = os.path.join(VERIF, "harness")
EVIDENCE = os.path.join(VERIF, "evidence")
REPLAYS = os.path.join(VERIF, "replays")
GUARD = "LIBFIVE_VERIF"
NPROC = os.cpu_count() or 4

ALLOWED_AXIOMS = {"propext", "Classical.choice", "Quot.sound"}

FLAVOURS = {
    # name: (extra CXX flags, optimisation flags)
    "plain": ("", "-O2 -DNDEBUG"),
    "asan": ("-fsanitize=address,undefined -fno-sanitize-recover=undefined -fno-omit-frame-pointer", "-O1 -DNDEBUG"),
    "tsan": ("-fsanitize=thread -fno-omit-frame-pointer", "-O1 -DNDEBUG"),
}


def log(*a):
    print("[verif]", *a, file=sys.stderr, flush=True)


def run(cmd, **kw):
    kw.setdefault("stdout", subprocess.PIPE)
    kw.setdefault("stderr", subprocess.STDOUT)
    kw.setdefault("text", True)
    return subprocess.run(cmd, **kw)


class Lock:
    def __init__(self, name):
        os.makedirs(BUILD, exist_ok=True)
        self.path = os.path.join(BUILD, name + ".lock")

    def __enter__(self):
        self.f = open(self.path, "w")
        fcntl.flock(self.f, fcntl.LOCK_EX)
        return self

    def __exit__(self, *a):
        fcntl.flock(self.f, fcntl.LOCK_UN)
        self.f.close()


# --------------------------------------------------------------------------- libfive

def lib_dir(flavour="plain"):
    return os.path.join(BUILD, flavour)


def build_lib(flavour="plain"):
    """(Re)build libfive + stdlib from /repo's *current working tree* with hooks on.
    Incremental: ninja recompiles exactly the translation units whose sources changed."""
    d = lib_dir(flavour)
    extra, opt = FLAVOURS[flavour]
    with Lock("lib-" + flavour):
        if not os.path.exists(os.path.join(d, "build.ninja")):
            os.makedirs(d, exist_ok=True)
            cfg = [
                "cmake", "-G", "Ninja", "-S", REPO, "-B", d,
                "-DBUILD_STUDIO_APP=OFF", "-DBUILD_GUILE_BINDINGS=OFF",
                "-DBUILD_PYTHON_BINDINGS=OFF", "-DBUILD_TESTS=OFF", "-DENABLE_DEBUG=OFF",
                "-DCMAKE_BUILD_TYPE=RelWithDebInfo",
                "-DCMAKE_CXX_FLAGS_RELWITHDEBINFO=" + opt,
                "-DCMAKE_CXX_FLAGS=-D%s %s" % (GUARD, extra),
                "-DCMAKE_SHARED_LINKER_FLAGS=" + extra,
            ]
            r = run(cfg)
            if r.returncode != 0:
                raise RuntimeError("cmake configure failed:\n" + r.stdout[-4000:])
        t0 = time.time()
        r = run(["ninja", "-C", d, "libfive", "libfive-stdlib"])
        if r.returncode != 0:
            raise RuntimeError("libfive build failed (flavour %s):\n%s" % (flavour, r.stdout[-6000:]))
        log("libfive[%s] up to date (%.1fs)" % (flavour, time.time() - t0))
    return d


def harness_flags(flavour="plain"):
    extra, opt = FLAVOURS[flavour]
    d = lib_dir(flavour)
    cxx = ("-std=gnu++17 -march=native -fPIC %s -D%s %s -I%s/libfive/include -I%s/libfive/stdlib "
           "-isystem /usr/include/eigen3 -I%s" % (opt, GUARD, extra, REPO, REPO, HARNESS)).split()
    ld = ("%s -L%s/libfive/src -L%s/libfive/stdlib -Wl,-rpath,%s/libfive/src -Wl,-rpath,%s/libfive/stdlib "
          "-lfive -lfive-stdlib -lpthread" % (extra, d, d, d, d)).split()
    return cxx, ld


def build_harness(name, flavour="plain", extra_src=()):
    """Compile harness/<name>.cpp against the fresh library. Rebuilt when the source, a
    header in harness/, or the library changed."""
    d = build_lib(flavour)
    out_dir = os.path.join(d, "harness")
    os.makedirs(out_dir, exist_ok=True)
    exe = os.path.join(out_dir, name)
    srcs = [os.path.join(HARNESS, name + ".cpp")] + [os.path.join(HARNESS, s) for s in extra_src]
    deps = srcs + [os.path.join(HARNESS, f) for f in os.listdir(HARNESS) if f.endswith(".hpp")]
    deps += [os.path.join(d, "libfive/src/libfive.so"), os.path.join(d, "libfive/stdlib/libfive-stdlib.so")]
    with Lock("harness-%s-%s" % (flavour, name)):
        if os.path.exists(exe):
            mt = os.path.getmtime(exe)
            if all(os.path.getmtime(p) <= mt for p in deps):
                return exe
        cxx, ld = harness_flags(flavour)
        # the library's soname is "libfive.so" without lib prefix -> link by path
        ld = [x for x in ld if x not in ("-lfive", "-lfive-stdlib")]
        cmd = ["g++"] + cxx + srcs + ["-o", exe] + ld + [
            os.path.join(d, "libfive/src/libfive.so"), os.path.join(d, "libfive/stdlib/libfive-stdlib.so")]
        t0 = time.time()
        r = run(cmd)
        if r.returncode != 0:
            raise RuntimeError("harness %s failed to compile:\n%s" % (name, r.stdout[-6000:]))
        log("harness %s[%s] built (%.1fs)" % (name, flavour, time.time() - t0))
    return exe


def run_harness(exe, args=(), stdin_text=None, timeout=900, env=None):
    e = dict(os.environ)
    e.setdefault("ASAN_OPTIONS", "detect_leaks=1:abort_on_error=0:exitcode=99")
    e.setdefault("UBSAN_OPTIONS", "print_stacktrace=1:halt_on_error=1:exitcode=98")
    e.setdefault("TSAN_OPTIONS", "exitcode=97:halt_on_error=0")
    if env:
        e.update(env)
    return subprocess.run([exe] + list(args), input=stdin_text, stdout=subprocess.PIPE,
                          stderr=subprocess.PIPE, text=True, timeout=timeout, env=e)


# --------------------------------------------------------------------------- Lean

def lake_build(targets=()):
    with Lock("lake"):
        t0 = time.time()
        r = run(["lake", "build"] + list(targets), cwd=LEAN)
        log("lake build %s: rc=%d (%.1fs)" % (" ".join(targets), r.returncode, time.time() - t0))
        return r.returncode, r.stdout


def driver_exe(engine):
    return os.path.join(LEAN, ".lake", "build", "bin", "vd-" + engine.lower())


def run_driver(engine, stdin_text, args=(), timeout=300):
    """Run the Lean line-protocol driver of one property (engine = 'c05', ...) on stdin_text."""
    exe = driver_exe(engine)
    r = subprocess.run([exe] + list(args), input=stdin_text, stdout=subprocess.PIPE,
                       stderr=subprocess.PIPE, text=True, timeout=timeout)
    if r.returncode != 0:
        raise RuntimeError("driver %s failed rc=%d: %s" % (engine, r.returncode, r.stderr[-2000:]))
    return r.stdout


FORBIDDEN = re.compile(r"\b(sorry|admit|native_decide|bv_decide|implemented_by|unsafe)\b|^\s*axiom\s|maxHeartbeats\s+0\b", re.M)


def strip_lean_comments(src):
    # remove nested block comments and line comments (strings containing "--" are rare here)
    out, i, depth = [], 0, 0
    n = len(src)
    while i < n:
        if src.startswith("/-", i):
            depth += 1
            i += 2
        elif depth and src.startswith("-/", i):
            depth -= 1
            i += 2
        elif depth:
            i += 1
        elif src.startswith("--", i):
            while i < n and src[i] != "\n":
                i += 1
        else:
            out.append(src[i])
            i += 1
    return "".join(out)


def import_closure(roots):
    """Local Lean modules (files under LEAN) reachable from the given module names via `import`."""
    seen, todo = {}, list(roots)
    while todo:
        m = todo.pop()
        if m in seen:
            continue
        p = os.path.join(LEAN, *m.split(".")) + ".lean"
        if not os.path.exists(p):
            continue
        seen[m] = p
        for im in re.findall(r"^import\s+([A-Za-z0-9_.]+)", open(p).read(), re.M):
            todo.append(im)
    return seen


def grep_forbidden(prop=None):
    """(file, line, token) of forbidden tokens outside comments in the Lean files the property's
    theorem module, audit file and driver depend on (all Lean files if prop is None)."""
    if prop is None:
        files = []
        for root, dirs, fs in os.walk(LEAN):
            dirs[:] = [x for x in dirs if x != ".lake"]
            files += [os.path.join(root, f) for f in fs if f.endswith(".lean")]
    else:
        roots = ["Mains." + prop]
        for m in theorem_modules(prop):
            roots += ["LibfiveTheorems." + m, "Audit." + m]
        files = list(import_closure(roots).values())
    hits = []
    for p in sorted(files):
        src = strip_lean_comments(open(p).read())
        for m in FORBIDDEN.finditer(src):
            ln = src.count("\n", 0, m.start()) + 1
            hits.append((os.path.relpath(p, LEAN), ln, m.group(0).strip()))
    return hits


def theorem_modules(prop):
    """LibfiveTheorems.<prop> plus its extension modules LibfiveTheorems.<prop><Suffix> (e.g. C10Grid, C09Ext)."""
    d = os.path.join(LEAN, "LibfiveTheorems")
    mods = sorted(f[:-5] for f in os.listdir(d)
                  if f.endswith(".lean") and f.startswith(prop) and (f == prop + ".lean" or not f[len(prop)].isdigit()))
    return [m for m in mods if os.path.exists(os.path.join(LEAN, "Audit", m + ".lean"))] or [prop]


def audit(prop):
    """Build the property's theorem modules (LibfiveTheorems.<prop> and its extensions), run `#print axioms` on each
    listed theorem (Audit/<module>.lean).  Returns dict {ok, theorems:[{name, axioms}], problems:[...]}"""
    res = {"ok": True, "theorems": [], "problems": []}
    mods = theorem_modules(prop)
    rc, out = lake_build(["LibfiveTheorems.%s" % m for m in mods] + ["vd-%s" % prop.lower()])
    if rc != 0:
        res["ok"] = False
        res["problems"].append({"kind": "lake-build-failed", "output": out[-6000:]})
        return res
    hits = grep_forbidden(prop)
    if hits:
        res["ok"] = False
        res["problems"].append({"kind": "forbidden-token", "hits": hits})
    for m in mods:
        audit_file = os.path.join(LEAN, "Audit", m + ".lean")
        r = run(["lake", "env", "lean", audit_file], cwd=LEAN)
        if r.returncode != 0:
            res["ok"] = False
            res["problems"].append({"kind": "audit-failed", "module": m, "output": r.stdout[-4000:]})
            continue
        # parse "'name' depends on axioms: [a, b]" / "'name' does not depend on any axioms"
        text = re.sub(r"\s+", " ", r.stdout)
        got = set()
        for mm in re.finditer(r"'(\S+)' (does not depend on any axioms|depends on axioms: \[([^\]]*)\])", text):
            axs = [a.strip() for a in (mm.group(3) or "").split(",") if a.strip()]
            res["theorems"].append({"name": mm.group(1), "axioms": axs})
            got.add(mm.group(1))
            bad = [a for a in axs if a not in ALLOWED_AXIOMS]
            if bad:
                res["ok"] = False
                res["problems"].append({"kind": "axiom", "theorem": mm.group(1), "axioms": bad})
        want = re.findall(r"#print axioms\s+(\S+)", strip_lean_comments(open(audit_file).read()))
        missing = [w for w in want if w not in got]
        if missing or not want:
            res["ok"] = False
            res["problems"].append({"kind": "audit-missing", "module": m, "theorems": missing})
    return res


def leanchecker(module):
    r = run(["lake", "env", "leanchecker", module], cwd=LEAN)
    return r.returncode == 0, r.stdout[-2000:]


# --------------------------------------------------------------------------- findings / evidence

def load_known():
    """known_findings.json plus per-property files known_findings.d/Cxx.json (committed; never
    written at run time)."""
    out = {"findings": [], "fixed": []}
    p = os.path.join(VERIF, "known_findings.json")
    if os.path.exists(p):
        d = json.load(open(p))
        out["findings"] += d.get("findings", [])
        out["fixed"] += d.get("fixed", [])
    dd = os.path.join(VERIF, "known_findings.d")
    if os.path.isdir(dd):
        for f in sorted(os.listdir(dd)):
            if f.endswith(".json"):
                d = json.load(open(os.path.join(dd, f)))
                out["findings"] += d.get("findings", [])
                out["fixed"] += d.get("fixed", [])
    return out


class Report:
    """Collects violations for one check run; knows about known findings."""

    def __init__(self, prop, tier, seed):
        self.prop, self.tier, self.seed = prop, tier, seed
        self.t0 = time.time()
        self.violations = []      # unlisted -> exit 1
        self.known_hits = []      # listed -> KNOWN-FINDING line
        self.known = [k for k in load_known().get("findings", []) if k["property"] == prop]
        os.makedirs(REPLAYS, exist_ok=True)
        os.makedirs(EVIDENCE, exist_ok=True)

    def violation(self, what, replay, key=None, no_input=False):
        """what: short text; replay: dict written to a replay file; key: finding key to
        match against known_findings.json (exact match on 'key')."""
        for k in self.known:
            if key is not None and k.get("key") == key:
                if key not in [h[0] for h in self.known_hits]:
                    self.known_hits.append((key, k.get("what", what)))
                    print("KNOWN-FINDING: property=%s %s" % (self.prop, k.get("what", what)), flush=True)
                return
        h = hashlib.sha1(json.dumps(replay, sort_keys=True, default=str).encode()).hexdigest()[:10]
        path = os.path.join(REPLAYS, "%s-%s.json" % (self.prop, h))
        replay = dict(replay)
        replay.update({"property": self.prop, "what": what, "seed": self.seed, "tier": self.tier,
                       "rerun": "VERIF_SEED=%d python3 tools/vcheck.py %s --tier %s" % (self.seed, self.prop, self.tier)})
        with open(path, "w") as f:
            json.dump(replay, f, indent=1, default=str)
        self.violations.append(path)
        tail = " no-failing-input-found" if no_input else ""
        print("VIOLATION property=%s replay=%s%s" % (self.prop, path, tail), flush=True)
        log("  " + what)

    def finish(self, level, coverage, assumptions):
        ev = {
            "property_id": self.prop, "tier": self.tier, "seed": self.seed, "level": level,
            "coverage": coverage, "assumptions": assumptions,
            "wall_s": round(time.time() - self.t0, 2), "violations": len(self.violations),
        }
        if self.known_hits:
            ev["coverage"]["known_findings_observed"] = [k for k, _ in self.known_hits]
        with open(os.path.join(EVIDENCE, self.prop + ".json"), "w") as f:
            json.dump(ev, f, indent=1, default=str)
        log("%s %s: %d violation(s), %d known finding(s), %.1fs" % (
            self.prop, self.tier, len(self.violations), len(self.known_hits), ev["wall_s"]))
        return 1 if self.violations else 0


def proof_coverage(aud, extra):
    """Standard proof-level coverage keys from an audit result."""
    cov = {
        "obligations": len(aud["theorems"]),
        "discharged": len(aud["theorems"]) if aud["ok"] else max(0, len(aud["theorems"]) - len(aud["problems"])),
        "checker_cmd": "cd lean && lake build LibfiveTheorems.<id> && lake env lean Audit/<id>.lean  (#print axioms)",
        "trusted_base": ["Lean 4.33 kernel", "axioms: propext, Classical.choice, Quot.sound only (audited per run)",
                         "correspondence harness (C++) and line-protocol driver"],
        "theorems": aud["theorems"],
    }
    cov.update(extra)
    return cov


def audit_or_report(rep):
    """Run the Lean audit for rep.prop. A failed audit is a broken proof obligation: the
    caller then runs its search; if nothing else is found, this reports the violation."""
    aud = audit(rep.prop)
    return aud


def report_broken_proof(rep, aud):
    rep.violation("proof obligation no longer checks: %s" % json.dumps(aud["problems"])[:600],
                  {"kind": "broken-proof", "problems": aud["problems"]}, no_input=True)
