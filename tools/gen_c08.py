"""C08 generators: archives (tree programs + shapes with names/docs/variable names) and malformed streams."""
import gen

NASTY = [
    b"", b"a", b"shape", b'"', b"\\", b'\\"', b'"\\', b'a"b', b"a\\b", b"tail\\", b'""', b"\\\\", b'\\"\\"',
    b"\xff", b"\xff\xff", b"a\xffb", b"\x00", b"a\x00b", b"\n", b"line1\nline2", b"\r\n\t",
    "ü".encode(), "形状".encode(), "😀".encode(), b"T", b"t", b'T""""', b"\x54\x22\x22", b" ", b"  spaces  ",
    b"(define (f x) \"doc\")", b"C:\\path\\to\\file", b"\xfe\xff\x00\x22\x5c",
]


def nasty_string(rng, long_ok=True):
    u = rng.random()
    if u < 0.25:
        return b""
    if u < 0.65:
        return rng.choice(NASTY)
    if u < 0.9:
        n = rng.randint(1, 12)
        return bytes(rng.choice([0x22, 0x5c, 0xff, 0x00, 0x41, 0x62, 0x20, 0x0a, 0x74, 0x54, rng.randrange(256)])
                     for _ in range(n))
    if long_ok:
        n = rng.randint(100, 400)
        return bytes(rng.randrange(256) for _ in range(n))
    return b"x"


def hx(b):
    return b.hex() if b else "-"


def gen_archive(rng, k, flavour):
    """flavour: 'plain' | 'vars' | 'remap' | 'both'.  Returns (lines, meta)."""
    want_vars = flavour in ("vars", "both")
    want_remap = flavour in ("remap", "both")
    style = rng.choice(["exact", "exact", "mixed", "trans"])
    opts = dict(size=rng.randint(1, 22), p_minmax=rng.choice([0.15, 0.3, 0.45]), p_share=rng.choice([0.2, 0.5]),
                nvars=rng.choice([0, 0, 1, 2, 3]) if not want_vars else rng.randint(1, 4))
    if style == "mixed":
        opts.update(binary=gen.BINARY_EXACT + ["mod", "compare", "nanfill", "atan2"], unary=gen.UNARY_EXACT + ["sin", "exp"])
    elif style == "trans":
        opts.update(unary=gen.UNARY_EXACT + gen.UNARY_TRANS, binary=gen.BINARY_EXACT + gen.BINARY_OTHER)
    if want_remap:
        # flatten() unshares under nested remaps (exponential in the nesting depth): keep these trees small
        opts["size"] = rng.randint(1, 9)
        opts["remap"] = rng.choice([0.1, 0.25, 0.4])
        if opts["nvars"] and rng.random() < 0.5:
            opts["apply"] = 0.2
    g = gen.TreeGen(rng, **opts)
    root = g.build()
    if want_remap and not any(d[0] in ("remap", "apply") for d in g.kind.values()):
        root = g._emit(("remap", root, g.pick_nonconst(), g.pick_nonconst(), g.pick_nonconst()))
    if rng.random() < 0.15:
        root = g._emit(("un", "const-var", root)) if g.kind[root][0] != "const" else root
    lines = ["case %d" % k] + list(g.lines)
    # shapes
    interior = [n for n, d in g.kind.items() if d[0] in ("un", "bin")]
    leaves = [n for n, d in g.kind.items() if d[0] in ("x", "y", "z", "var", "const")]
    nshapes = rng.choice([1, 1, 1, 2, 2, 3, 4])
    roots = [root]
    while len(roots) < nshapes:
        u = rng.random()
        if u < 0.3:
            roots.append(rng.choice(roots))             # same root again -> 't'
        elif u < 0.75 and interior:
            roots.append(rng.choice(interior))          # a sub-expression (maybe stored already -> 't')
        elif u < 0.9:
            roots.append(rng.choice(leaves))
        else:
            roots.append(g.root)
    if rng.random() < 0.3:
        rng.shuffle(roots)                              # sub-expression first, then the tree that contains it
    shapes = []
    for r in roots:
        name, doc = nasty_string(rng), nasty_string(rng)
        vs = []
        if want_vars and g.vars:
            pick = [v for v in g.vars if rng.random() < 0.7] or [g.vars[0]]
            used = set()
            for v in pick:
                nm = nasty_string(rng, long_ok=False)
                while nm in used:
                    nm = nm + b"%d" % v
                used.add(nm)
                vs.append((v, nm))
        shapes.append((r, name, doc, vs))
        lines.append("shape %d %s %s %d%s" % (r, hx(name), hx(doc), len(vs),
                                              "".join(" %d %s" % (v, hx(nm)) for v, nm in vs)))
    npts = 4
    pts = [gen.rand_point(rng) for _ in range(npts)]
    lines.append("pts %d %s" % (npts, " ".join(gen.pt_hex(p) for p in pts)))
    if g.vars:
        lines.append("vals " + " ".join(gen.f2hex(gen.f32(rng.choice([0.5, 1.5, -2.0, 3.25]) + 0.125 * i))
                                        for i, _ in enumerate(g.vars)))
    lines += ["go", "end"]
    meta = {"flavour": flavour, "style": style, "nodes": g.next, "hist": g.hist, "shapes": len(shapes),
            "named_vars": sum(len(s[3]) for s in shapes),
            "strings": [hx(s[1]) for s in shapes] + [hx(s[2]) for s in shapes]}
    return lines, meta


# ------------------------------------------------------------------ malformed streams

def parse_stream(b, args_of):
    """Offsets of the interesting bytes of a *valid* stream: tags, opcode bytes, operand words, END_OF_ITEM."""
    pos, out = 0, {"tags": [], "ops": [], "words": [], "ends": [], "strings": []}

    def string(pos):
        start = pos
        pos += 1
        while b[pos] != 0x22:
            pos += 2 if b[pos] == 0x5c else 1
        out["strings"].append((start, pos))
        return pos + 1
    try:
        while pos < len(b):
            tag = b[pos]
            out["tags"].append(pos)
            pos = string(string(pos + 1))
            if tag == 0x74:
                out["words"].append(pos)
                pos += 4
            else:
                while b[pos] != 0xff:
                    op = b[pos]
                    out["ops"].append(pos)
                    pos += 1
                    if op == 1:
                        pos += 4
                    for _ in range(max(args_of.get(op, 0), 0)):
                        out["words"].append(pos)
                        pos += 4
                out["ends"].append(pos)
                pos += 1
            while b[pos] != 0xff:      # var section of a valid stream
                pos = string(pos)
                out["words"].append(pos)
                pos += 4
            out["ends"].append(pos)
            pos += 1
    except IndexError:
        pass
    return out


def mutate(rng, b, args_of, last_op):
    """one malformed (or at least unusual) variant of a valid stream; returns (bytes, kind)"""
    b = bytearray(b)
    info = parse_stream(bytes(b), args_of)
    kinds = ["truncate", "truncate", "tag", "opcode-unknown", "opcode-zero", "opcode-swap", "operand", "flip",
             "delete", "insert", "end-missing", "append", "tag-ref-bad"]
    kind = rng.choice(kinds)
    if kind == "truncate" and len(b) > 0:
        del b[rng.randrange(len(b)):]
    elif kind == "tag" and info["tags"]:
        b[rng.choice(info["tags"])] = rng.choice([0x00, 0x55, 0x22, 0xff, 0x73, rng.randrange(256)])
    elif kind == "opcode-unknown" and info["ops"]:
        b[rng.choice(info["ops"])] = rng.choice([last_op, last_op + 1, 64, 128, 200, 254])
    elif kind == "opcode-zero" and info["ops"]:
        b[rng.choice(info["ops"])] = 0
    elif kind == "opcode-swap" and info["ops"]:
        b[rng.choice(info["ops"])] = rng.randrange(1, last_op)
    elif kind == "operand" and info["words"]:
        p = rng.choice(info["words"])
        v = rng.choice([0xffffffff, 1000, 0x100, rng.randrange(0, 8)])
        b[p:p + 4] = v.to_bytes(4, "little")
    elif kind == "flip" and len(b) > 0:
        p = rng.randrange(len(b))
        b[p] ^= 1 << rng.randrange(8)
    elif kind == "delete" and len(b) > 0:
        del b[rng.randrange(len(b))]
    elif kind == "insert":
        b.insert(rng.randrange(len(b) + 1), rng.choice([0x22, 0x5c, 0xff, 0x00, 0x54, 0x74, rng.randrange(256)]))
    elif kind == "end-missing" and info["ends"]:
        del b[rng.choice(info["ends"])]
    elif kind == "append":
        b += bytes(rng.choice([[0x54], [0x74], [0x54, 0x22, 0x22], [0x74, 0x22, 0x22, 0x22, 0x22, 0, 0, 0, 0, 0xff],
                               [0x54, 0x22, 0x22, 0x22, 0x22, 0xff, 0xff], [0xff], [0x22]]))
    elif kind == "tag-ref-bad":
        b += bytes([0x74, 0x22, 0x22, 0x22, 0x22]) + rng.choice([0xffffffff, 5000, 0]).to_bytes(4, "little") + b"\xff"
    else:
        kind = "flip0"
        if len(b):
            b[0] ^= 0x20
    return bytes(b), kind


FIXED_STREAMS = [
    b"", b"T", b"t", b"\xff", b'T""', b'T""""', b'T""""\xff', b'T""""\xff\xff', b'T""""\x02', b'T""""\x02\xff',
    b'T""""\x02\xff\xff', b't""""\x00\x00\x00\x00\xff', b'T""""\x01\x00\x00', b'T""""\x11\x00\x00\x00\x00\x00\x00\x00\x00\xff\xff',
    b'T""""\x20"name"\xff\xff', b'T""""\x05\xff"v"\x00\x00\x00\x00\xff', b'T""""\x05\xff""\x00\x00\x00\x00\xff',
    b'T"\\', b'T"abc', b'Tx', b'T""""\x00\xff\xff', b'T""""\x21\xff\xff', b'T""""\xfe\xff\xff',
    b'T""""\x02\x09\x00\x00\x00\x00\x09\x01\x00\x00\x00\xff\xff',          # neg(neg x) -> x at load
    b'T""""\x01\x00\x00\x80\x3f\x01\x00\x00\x00\x40\x11\x01\x00\x00\x00\x00\x00\x00\x00\xff\xff',   # 1+2 folded
    b'T""""\x02\x13\x00\x00\x00\x00\x00\x00\x00\x00\xff\xff',              # min(x,x) -> x
    b'T""""\x02\x01\x00\x00\x80\x3f\x16\x01\x00\x00\x00\x00\x00\x00\x00\xff\xff',   # x / 1 -> x
    b'T""""\x02\x0a\x00\x00\x00\x00\x01\x00\x00\x00\x40\x0a\x02\x00\x00\x00\xff\xff',   # sin(const): inexact fold
]
