"""Seeded generator of operation sequences for harness/treeops.cpp (C13): Tree value-type operations
and C-API calls over a slot pool, with a symbolic picture of every slot so that only calls that are
legal for a client are generated (no call on a dead handle, no null where the API dereferences)."""
import struct

UNARY = ["neg", "abs", "square", "sqrt", "recip", "sin", "cos", "tan", "asin", "acos", "atan", "exp", "log",
         "const-var"]
BINARY = ["add", "sub", "mul", "div", "min", "max", "atan2", "mod", "nanfill", "compare"]
NULLARY = ["var-x", "var-y", "var-z", "var-free"]
CONSTS = [0.0, 1.0, -1.0, 2.0, 0.5, 3.0, -2.5, 0.25, 10.0]

NSTATIC = 5
NSCRATCH = 3


def f2hex(x):
    return "%08x" % struct.unpack("<I", struct.pack("<f", x))[0]


class Slot:
    # isvar: True = certainly a free variable, False = certainly not, None = unknown (simplification may return it)
    # opt:   the handle (not the node) carries TREE_FLAG_IS_OPTIMIZED
    __slots__ = ("kind", "null", "taint", "isvar", "big", "remap", "opt")

    def __init__(self, kind="dead", null=False, taint=False, isvar=None, big=False, remap=False, opt=False):
        self.kind, self.null, self.taint, self.isvar, self.big, self.remap, self.opt = \
            kind, null, taint, isvar, big, remap, opt

    def clone(self, kind):
        return Slot(kind, self.null, self.taint, self.isvar, self.big, self.remap, self.opt and kind == "tree")


class SeqGen:
    """One sequence.  style: 'mixed' | 'value' | 'capi' | 'alias'"""

    def __init__(self, rng, pool=20, style="mixed"):
        self.rng = rng
        self.n = NSTATIC + pool + NSCRATCH
        self.pool = list(range(NSTATIC, NSTATIC + pool))
        self.s = {i: Slot() for i in range(self.n)}
        for i in range(NSTATIC):
            self.s[i] = Slot("static", taint=(i == 3), isvar=False)
        self.lines = []
        self.hist = {}
        self.style = style
        self.evals = {}      # evaluator id -> alive
        self.next_eval = 0

    # ---------------------------------------------------------------- helpers
    def emit(self, *toks):
        self.lines.append(" ".join(str(t) for t in toks))
        self.hist[toks[0]] = self.hist.get(toks[0], 0) + 1

    def dead(self):
        c = [i for i in self.pool if self.s[i].kind == "dead"]
        return self.rng.choice(c) if c else None

    def pick(self, pred):
        c = [i for i in self.pool if pred(self.s[i])]
        return self.rng.choice(c) if c else None

    def tree(self, clean=False, nonbig=False):
        """a non-null Tree slot"""
        return self.pick(lambda x: x.kind == "tree" and not x.null and (not clean or not x.taint)
                         and (not nonbig or not x.big))

    def anyptr(self, clean=False, allow_static=True):
        """any live non-null slot (Tree or raw, or one of the statics) usable as a C-API argument"""
        c = [i for i in self.pool if self.s[i].kind in ("tree", "raw") and not self.s[i].null
             and (not clean or not self.s[i].taint) and not self.s[i].big]
        if allow_static and self.rng.random() < 0.15:
            c += [0, 1, 2] + ([] if clean else [3]) + [4]
        return self.rng.choice(c) if c else None

    def args(self, k, picker):
        """k arguments; with some probability the same handle several times (aliasing)"""
        out = []
        for _ in range(k):
            if out and self.rng.random() < (0.5 if self.style == "alias" else 0.2):
                out.append(self.rng.choice(out))
            else:
                a = picker()
                if a is None:
                    return None
                out.append(a)
        return out

    def mixes(self, srcs):
        """would combine an invalid node with a remap/apply node in one tree: that is the listed defect
        C13:flatten-invalid-node-empty-stack, exercised by its own scenario only"""
        return any(self.s[a].taint for a in srcs) and any(self.s[a].remap for a in srcs)

    def set(self, d, kind, srcs=(), null=False, taint=False, isvar=None, remap=False, opt=False):
        t = taint or any(self.s[a].taint for a in srcs)
        r = remap or any(self.s[a].remap for a in srcs)
        # value-type builders may hand back one of their arguments (flatten() without remap, abs(abs t), t + 0 …):
        # the result then carries that handle's IS_OPTIMIZED flag
        opt = opt or (kind == "tree" and any(self.s[a].opt for a in srcs))
        self.s[d] = Slot(kind, null=null, taint=t and not null, isvar=isvar, big=any(self.s[a].big for a in srcs),
                         remap=r and not null, opt=opt)

    # ---------------------------------------------------------------- op families
    def op_leaf(self):
        d = self.dead()
        if d is None:
            return
        r = self.rng.random()
        capi = self.style != "value" and (self.style == "capi" or self.rng.random() < 0.5)
        if capi:
            if r < 0.35:
                self.emit("cxyz", d, self.rng.randrange(3)); self.set(d, "raw", isvar=False)
            elif r < 0.6:
                self.emit("cconst", d, f2hex(self.rng.choice(CONSTS))); self.set(d, "raw", isvar=False)
            elif r < 0.8:
                self.emit("cvar", d); self.set(d, "raw", isvar=True)
            elif r < 0.9:
                op = self.rng.choice(NULLARY)
                self.emit("cnullary", d, op); self.set(d, "raw", isvar=(op == "var-free"))
            else:
                # invalid / wrong-arity opcode -> nullptr
                self.emit("cnullary", d, self.rng.choice(["add", "sin", "#-1", "#999", "#100000", "bogus"]))
                self.set(d, "raw", null=True)
        else:
            if r < 0.35:
                self.emit("vxyz", d, self.rng.randrange(3)); self.set(d, "tree", isvar=False)
            elif r < 0.65:
                self.emit("vconst", d, f2hex(self.rng.choice(CONSTS))); self.set(d, "tree", isvar=False)
            elif r < 0.9:
                self.emit("vvar", d); self.set(d, "tree", isvar=True)
            else:
                self.emit("vinvalid", d); self.set(d, "tree", taint=True, isvar=False)

    def op_build(self):
        d = self.dead()
        if d is None:
            return
        capi = self.style != "value" and (self.style == "capi" or self.rng.random() < 0.5)
        r = self.rng.random()
        if capi:
            if r < 0.35:
                a = self.args(1, self.anyptr)
                bad = self.rng.random() < 0.12
                if a is None:
                    return
                if bad:
                    op = self.rng.choice(["add", "var-x", "#-3", "#1000", "bogus"])
                    # null argument variant
                    self.emit("cunary", d, op, a[0]); self.set(d, "raw", null=True)
                else:
                    self.emit("cunary", d, self.rng.choice(UNARY), a[0]); self.set(d, "raw", a)
            elif r < 0.75:
                a = self.args(2, self.anyptr)
                if a is None or self.mixes(a):
                    return
                if self.rng.random() < 0.1:
                    self.emit("cbinary", d, self.rng.choice(["sin", "#-1", "#77", "var-free"]), a[0], a[1])
                    self.set(d, "raw", null=True)
                else:
                    self.emit("cbinary", d, self.rng.choice(BINARY), a[0], a[1]); self.set(d, "raw", a)
            elif r < 0.85:
                # (remap/apply over an invalid node is a separate, known-finding scenario)
                a = self.args(4, lambda: self.anyptr(clean=True))
                if a is None:
                    return
                self.emit("cremap", d, *a); self.set(d, "raw", a, remap=True)
            elif r < 0.95:
                a = self.anyptr()
                if a is None:
                    return
                self.emit("copt", d, a); self.set(d, "raw", [a])
            else:
                a = self.anyptr(clean=True)
                if a is None:
                    return
                self.emit("csaveload", d, a); self.set(d, "raw", [a])
        else:
            tr = lambda: self.tree(nonbig=True)
            trc = lambda: self.tree(clean=True, nonbig=True)
            if r < 0.3:
                a = self.args(1, tr)
                if a is None:
                    return
                if self.rng.random() < 0.08:
                    self.emit("vunary", d, self.rng.choice(["add", "var-x", "bogus"]), a[0]); self.set(d, "tree", taint=True)
                else:
                    self.emit("vunary", d, self.rng.choice(UNARY), a[0]); self.set(d, "tree", a)
            elif r < 0.65:
                a = self.args(2, tr)
                if a is None or self.mixes(a):
                    return
                if self.rng.random() < 0.08:
                    self.emit("vbinary", d, self.rng.choice(["sin", "var-y", "bogus"]), a[0], a[1]); self.set(d, "tree", taint=True)
                else:
                    self.emit("vbinary", d, self.rng.choice(BINARY), a[0], a[1]); self.set(d, "tree", a)
            elif r < 0.75:
                a = self.args(4, trc)
                if a is None:
                    return
                self.emit("vremap", d, *a); self.set(d, "tree", a, remap=True)
            elif r < 0.83:
                t, val = trc(), trc()
                if self.rng.random() < 0.85:
                    var = self.pick(lambda x: x.kind == "tree" and not x.null and x.isvar is True)
                else:
                    var = self.pick(lambda x: x.kind == "tree" and not x.null and x.isvar is False and not x.taint)
                if None in (t, val, var):
                    return
                self.emit("vapply", d, t, var, val)
                if self.s[var].isvar:
                    self.set(d, "tree", [t, var, val], remap=True)     # else: ApplyException, d stays dead
            elif r < 0.9:
                a = tr()
                if a is None:
                    return
                self.emit("vopt", d, a); self.set(d, "tree", [a], opt=True)
            elif r < 0.94:
                a = tr()
                if a is None:
                    return
                self.emit("vflat", d, a); self.set(d, "tree", [a])
            elif r < 0.97:
                a = tr()
                if a is None:
                    return
                self.emit("vcvars", d, a); self.set(d, "tree", [a])
            else:
                a = self.tree(clean=True, nonbig=True)
                if a is None:
                    return
                self.emit("vdeser", d, a); self.set(d, "tree", [a])

    def op_handle(self):
        r = self.rng.random()
        if r < 0.2:
            d = self.dead()
            s = self.pick(lambda x: x.kind in ("tree", "raw") and not (x.kind == "raw" and x.null))
            if self.rng.random() < 0.1:
                s = self.rng.randrange(5)
            if d is None or s is None:
                return
            self.emit("vcopy", d, s)
            self.s[d] = self.s[s].clone("tree")
            if self.s[s].kind != "tree":
                self.s[d].opt = False          # Tree(const Data*) starts with flags 0
        elif r < 0.32:
            d, s = self.dead(), self.pick(lambda x: x.kind == "tree")
            if d is None or s is None:
                return
            self.emit("vmove", d, s)
            self.s[d] = self.s[s]
            self.s[s] = Slot("tree", null=True, opt=self.s[d].opt)     # the moved-from handle keeps its flags
        elif r < 0.47:
            d = self.pick(lambda x: x.kind == "tree")
            s = self.pick(lambda x: x.kind == "tree")
            if self.rng.random() < 0.15:
                s = d                                   # self-assignment
            if d is None or s is None:
                return
            self.emit("vcassign", d, s)
            self.s[d] = self.s[s].clone("tree")
        elif r < 0.6:
            d = self.pick(lambda x: x.kind == "tree")
            s = self.pick(lambda x: x.kind == "tree")
            if self.rng.random() < 0.15:
                s = d
            if d is None or s is None:
                return
            if d != s and self.s[s].opt and self.s[d].remap:
                return     # listed defect C13:move-assign-stale-optimized-flag (own scenario)
            self.emit("vmassign", d, s)
            if d != s:
                od, os_ = self.s[d], self.s[s]
                self.s[d] = os_.clone("tree")
                self.s[s] = od.clone("tree")
                self.s[s].opt = os_.opt        # `flags = other.flags`: the source keeps its own flags
        elif r < 0.78:
            d = self.pick(lambda x: x.kind in ("tree", "raw"))
            if d is None:
                return
            self.emit("vdestroy" if self.s[d].kind == "tree" else "cdelete", d)
            self.s[d] = Slot()
        elif r < 0.9:
            d, s = self.dead(), self.pick(lambda x: x.kind == "tree")
            if d is None or s is None:
                return
            self.emit("vrelease", d, s)
            self.s[d] = self.s[s].clone("raw")
            self.s[s] = Slot("tree", null=True, opt=self.s[s].opt)     # release() leaves the flags behind
        else:
            d, s = self.dead(), self.pick(lambda x: x.kind == "raw")
            if d is None or s is None or d == s:
                return
            self.emit("vreclaim", d, s)
            self.s[d] = self.s[s].clone("tree")
            self.s[d].opt = False
            self.s[s] = Slot()

    def op_observe(self):
        r = self.rng.random()
        if r < 0.5 and self.style != "capi":
            a = self.tree(nonbig=True)
            if a is None:
                return
            k = self.rng.choice(["vprint", "vsize", "vser", "vwalk", "veval", "veq"])
            if self.s[a].taint and k in ("vser", "vwalk"):
                k = "vprint"       # exception path (InvalidException) instead of the archive writer
            if k == "veq":
                b = self.tree(nonbig=True)
                self.emit("veq", a, b if (b is not None and self.rng.random() < 0.8) else a)
            else:
                self.emit(k, a)
        elif r < 0.85:
            a = self.anyptr()
            if a is None:
                return
            self.emit(self.rng.choice(["cprint", "cevalf", "cevalr", "cevald", "cinfo"]), a)
        else:
            # evaluators that outlive (or not) the handle they were built from
            alive = [e for e, ok in self.evals.items() if ok]
            q = self.rng.random()
            if q < 0.5 or not alive:
                a = self.anyptr(clean=True)
                if a is None:
                    return
                e = self.next_eval
                self.next_eval += 1
                self.evals[e] = True
                self.emit("cevnew", e, a)
            elif q < 0.75:
                self.emit("cevuse", self.rng.choice(alive))
            else:
                e = self.rng.choice(alive)
                self.evals[e] = False
                self.emit("cevdel", e)

    # ---------------------------------------------------------------- drivers
    def random_ops(self, count):
        w = {"mixed": (3, 5, 6, 3), "value": (3, 5, 7, 3), "capi": (3, 6, 3, 3), "alias": (2, 7, 4, 2)}[self.style]
        fams = [self.op_leaf] * w[0] + [self.op_build] * w[1] + [self.op_handle] * w[2] + [self.op_observe] * w[3]
        for _ in range(3):
            self.op_leaf()
        while len(self.lines) < count:
            self.rng.choice(fams)()

    def balanced(self, depth, op="min"):
        """a balanced binary tree over 2^depth fresh leaves built with a stack of pool slots:
        wide DAG (2^depth leaves, 2^(depth+1)-1 nodes)"""
        stack = []     # (slot, level)
        free = [i for i in self.pool if self.s[i].kind == "dead"]
        for _ in range(2 ** depth):
            d = free.pop()
            self.emit("vvar", d); self.set(d, "tree", isvar=True)
            stack.append((d, 0))
            while len(stack) >= 2 and stack[-1][1] == stack[-2][1]:
                (b, lv), (a, _) = stack.pop(), stack.pop()
                d = free.pop()
                self.emit("vbinary", d, op, a, b); self.set(d, "tree", [a, b])
                self.emit("vdestroy", a); self.s[a] = Slot(); free.append(a)
                self.emit("vdestroy", b); self.s[b] = Slot(); free.append(b)
                stack.append((d, lv + 1))
        return stack[0][0]

    def cleanup(self):
        for i in self.pool:
            if self.s[i].kind == "tree":
                self.emit("vdestroy", i)
            elif self.s[i].kind == "raw":
                self.emit("cdelete", i)
            self.s[i] = Slot()

    def program(self, k):
        return ["seq %d %d" % (k, self.n)] + self.lines + ["endseq"]
