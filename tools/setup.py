#!/usr/bin/env python3
"""MANIFEST.setup_cmd: build everything the checks need from files on disk, offline.
  * libfive (+stdlib) from /repo's working tree, hooks on, into .build/plain
  * the Lean development (model, proofs, theorems, drivers)
  * every harness
Later check runs only rebuild what changed."""
import os
import sys
import subprocess

sys.path.insert(0, os.path.dirname(os.path.abspath(__file__)))
import common


def main():
    common.build_lib("plain")
    # regenerate translated tables first so the Lean build sees the current source
    for t in sorted(os.listdir(os.path.join(common.VERIF, "tools"))):
        if t.startswith("translate_") and t.endswith(".py"):
            r = common.run([sys.executable, os.path.join(common.VERIF, "tools", t)])
            common.log(t, "rc=%d" % r.returncode)
    rc, out = common.lake_build([])
    if rc != 0:
        print(out[-8000:])
    # drivers
    exes = ["vd-c%02d" % i for i in range(1, 21)]
    rc2, out2 = common.lake_build(exes)
    if rc2 != 0:
        print(out2[-8000:])
    for f in sorted(os.listdir(common.HARNESS)):
        if f.endswith(".cpp") and not f.startswith("_"):
            try:
                common.build_harness(f[:-4])
            except Exception as e:  # a harness that cannot build is reported by its check
                print("harness %s: %s" % (f, str(e)[-2000:]))
    # sanitizer flavours used as validators by C13 (ASan/LSan) and C14 (TSan)
    for name, flavour in (("treeops", "asan"), ("treethreads", "tsan")):
        try:
            common.build_harness(name, flavour=flavour)
        except Exception as e:
            print("harness %s[%s]: %s" % (name, flavour, str(e)[-2000:]))
    return 0


if __name__ == "__main__":
    sys.exit(main())
