#!/usr/bin/env python3
"""Validate MANIFEST.json and every evidence file against the schemas (uses the tooling venv)."""
import json, os, subprocess, sys
code = r'''
import json, jsonschema, glob, sys
ok = True
m = json.load(open("/verif/MANIFEST.json"))
jsonschema.validate(m, json.load(open("/root/.vp/MANIFEST.schema.json")))
es = json.load(open("/root/.vp/EVIDENCE.schema.json"))
for c in m["checks"]:
    p = c["evidence_file"]
    try:
        jsonschema.validate(json.load(open(p)), es)
    except Exception as e:
        ok = False; print("INVALID", p, str(e)[:300])
ids = {c["property_id"] for c in m["checks"]} | {n["property_id"] for n in m.get("not_applicable", [])}
want = {json.loads(l)["id"] for l in open("/verif/properties.jsonl")}
if ids != want: ok = False; print("property coverage mismatch", sorted(want ^ ids))
print("valid" if ok else "INVALID"); sys.exit(0 if ok else 1)
'''
sys.exit(subprocess.call(["python3-vt", "-c", code]))
