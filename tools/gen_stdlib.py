"""C18: reference semantics of the libfive standard library, written from the documentation
comments of libfive_stdlib.h (NOT from stdlib_impl.cpp), in double precision, plus the seeded
generator of shape compositions and query points.

Every node knows
  inside(p)   -- membership of p=(x,y,z) in the documented point set (strict)
  sdf(p)      -- (exact-distance shapes only) signed Euclidean distance to the boundary
  features()  -- points of interest (corners, rims, apex, face centres) in its own coordinates
  emit(out)   -- harness lines that build the REAL shape with constant parameters
"""
import math
from gen import f32, f2hex

SIGS = {}   # filled from `harness --list` by the check


class Node:
    fn = None

    def __init__(self, fn, floats=(), ints=(), kids=()):
        self.fn = fn
        self.floats = [f32(v) for v in floats]
        self.ints = list(ints)
        self.kids = list(kids)
        self.id = None
        self.exact = False    # value is a Euclidean distance
        self.rigid = False

    # ---- building the real shape
    def emit(self, out, counter):
        for k in self.kids:
            if k.id is None:
                k.emit(out, counter)
        self.id = counter[0]
        counter[0] += 1
        toks = ["s%d" % k.id for k in self.kids] + ["i%d" % i for i in self.ints] + \
               ["f" + f2hex(v) for v in self.floats]
        out.append("call %d %s num %s" % (self.id, self.fn, " ".join(toks)))
        return self.id

    def describe(self):
        a = ["%s" % k.describe() for k in self.kids] + [str(i) for i in self.ints] + ["%.9g" % v for v in self.floats]
        return "%s(%s)" % (self.fn, ", ".join(a))

    def fns(self):
        s = {self.fn}
        for k in self.kids:
            s |= k.fns()
        return s

    def count(self):
        return 1 + sum(k.count() for k in self.kids)

    def features(self):
        return []

    def bnd(self, p):
        """a lower bound (conservative) on the distance from p to the boundary of the documented
        set; points with bnd < delta are not judged"""
        raise NotImplementedError(self.fn)


def hyp(*v):
    return math.sqrt(sum(x * x for x in v))


# ------------------------------------------------------------------ primitives
class Sphere(Node):
    def __init__(s, r, c):
        Node.__init__(s, "sphere", [r] + list(c))
        s.exact = True
        s.r, s.cx, s.cy, s.cz = s.floats

    def bnd(s, p):
        return abs(s.sdf(p))

    def sdf(s, p):
        return hyp(p[0] - s.cx, p[1] - s.cy, p[2] - s.cz) - s.r

    def inside(s, p):
        return s.sdf(p) < 0

    def features(s):
        c = (s.cx, s.cy, s.cz)
        out = [c]
        for ax in range(3):
            for sg in (-1, 1):
                q = list(c)
                q[ax] += sg * s.r
                out.append(tuple(q))
        k = s.r / math.sqrt(3)
        out.append((s.cx + k, s.cy + k, s.cz - k))
        return out


class Circle(Node):
    def __init__(s, r, c):
        Node.__init__(s, "circle", [r] + list(c))
        s.exact = True
        s.r, s.cx, s.cy = s.floats

    def bnd(s, p):
        return abs(s.sdf(p))

    def sdf(s, p):
        return hyp(p[0] - s.cx, p[1] - s.cy) - s.r

    def inside(s, p):
        return s.sdf(p) < 0

    def features(s):
        return [(s.cx, s.cy, 0.0)] + [(s.cx + s.r * math.cos(a), s.cy + s.r * math.sin(a), z)
                                      for a, z in ((0, 0), (1.3, 2), (2.5, -1), (4, 0.5))]


class Ring(Node):
    def __init__(s, ro, ri, c):
        Node.__init__(s, "ring", [ro, ri] + list(c))
        s.ro, s.ri, s.cx, s.cy = s.floats

    def bnd(s, p):
        d = hyp(p[0] - s.cx, p[1] - s.cy)
        return min(abs(d - s.ro), abs(d - s.ri))

    def inside(s, p):
        d = hyp(p[0] - s.cx, p[1] - s.cy)
        return s.ri < d < s.ro

    def features(s):
        return [(s.cx + r * math.cos(a), s.cy + r * math.sin(a), 0.3) for r in (s.ro, s.ri) for a in (0.2, 2.0, 4.1)]


class Polygon(Node):
    """regular n-gon, centre-to-vertex distance r, one edge facing +y (orientation is the one
    thing the documentation does not fix; it is taken from the proved form of the model)"""
    def __init__(s, r, n, c):
        Node.__init__(s, "polygon", [r] + list(c), [n])
        s.r, s.cx, s.cy = s.floats
        s.n = n

    def bnd(s, p):
        ap = s.r * math.cos(math.pi / s.n)
        x, y = p[0] - s.cx, p[1] - s.cy
        return min(abs(x * math.cos(math.pi / 2 + 2 * math.pi * k / s.n) +
                       y * math.sin(math.pi / 2 + 2 * math.pi * k / s.n) - ap) for k in range(s.n))

    def inside(s, p):
        ap = s.r * math.cos(math.pi / s.n)
        x, y = p[0] - s.cx, p[1] - s.cy
        for k in range(s.n):
            a = math.pi / 2 + 2 * math.pi * k / s.n
            if x * math.cos(a) + y * math.sin(a) >= ap:
                return False
        return True

    def features(s):
        out = [(s.cx, s.cy, 0)]
        ap = s.r * math.cos(math.pi / s.n)
        for k in range(s.n):
            a = math.pi / 2 + 2 * math.pi * k / s.n
            out.append((s.cx + ap * math.cos(a), s.cy + ap * math.sin(a), 0.5))
            b = a + math.pi / s.n
            out.append((s.cx + s.r * math.cos(b), s.cy + s.r * math.sin(b), -0.5))
        return out


def box_sdf(p, lo, hi):
    """signed Euclidean distance to the axis-aligned box [lo,hi] (any dimension)"""
    q = [min(max(p[i], lo[i]), hi[i]) for i in range(len(lo))]
    d = hyp(*[p[i] - q[i] for i in range(len(lo))])
    if d > 0:
        return d
    return -min(min(p[i] - lo[i], hi[i] - p[i]) for i in range(len(lo)))


def planes_bnd(p, lo, hi):
    """distance to the nearest of the face planes (<= distance to the boundary)"""
    return min(min(abs(p[i] - lo[i]), abs(p[i] - hi[i])) for i in range(len(lo)))


def box_features(lo, hi, z2d=None):
    n = len(lo)
    out = []
    import itertools
    for sel in itertools.product((0, 1, 2), repeat=n):
        q = [(lo[i], hi[i], 0.5 * (lo[i] + hi[i]))[sel[i]] for i in range(n)]
        if n == 2:
            q.append(0.0 if z2d is None else z2d)
        out.append(tuple(q))
    return out


class Rect(Node):
    def __init__(s, fn, a, b):
        # fn: rectangle | rectangle_exact (bounding corners) | rectangle_centered_exact (size, center)
        Node.__init__(s, fn, list(a) + list(b))
        f = s.floats
        if fn == "rectangle_centered_exact":
            s.lo = (f[2] - f[0] / 2, f[3] - f[1] / 2)
            s.hi = (f[2] + f[0] / 2, f[3] + f[1] / 2)
        else:
            s.lo, s.hi = (f[0], f[1]), (f[2], f[3])
        s.exact = fn != "rectangle"

    def bnd(s, p):
        return planes_bnd(p, s.lo, s.hi)

    def inside(s, p):
        return s.lo[0] < p[0] < s.hi[0] and s.lo[1] < p[1] < s.hi[1]

    def sdf(s, p):
        return box_sdf(p[:2], s.lo, s.hi)

    def features(s):
        return box_features(s.lo, s.hi)


class RoundedRect(Node):
    def __init__(s, a, b, r):
        Node.__init__(s, "rounded_rectangle", list(a) + list(b) + [r])
        f = s.floats
        s.lo, s.hi, s.r = (f[0], f[1]), (f[2], f[3]), f[4]

    def bnd(s, p):
        return abs(box_sdf(p[:2], (s.lo[0] + s.r, s.lo[1] + s.r), (s.hi[0] - s.r, s.hi[1] - s.r)) - s.r)

    def inside(s, p):
        return box_sdf(p[:2], (s.lo[0] + s.r, s.lo[1] + s.r), (s.hi[0] - s.r, s.hi[1] - s.r)) < s.r

    def features(s):
        k = s.r * (1 - 1 / math.sqrt(2))
        return box_features(s.lo, s.hi) + [(s.lo[0] + k, s.lo[1] + k, 0), (s.hi[0] - k, s.hi[1] - k, 1),
                                           (s.lo[0] + k, s.hi[1] - k, 0), (s.hi[0] - k, s.lo[1] + k, 0)]


class Triangle(Node):
    def __init__(s, a, b, c):
        Node.__init__(s, "triangle", list(a) + list(b) + list(c))
        f = s.floats
        s.P = [(f[0], f[1]), (f[2], f[3]), (f[4], f[5])]

    def bnd(s, p):
        out = 1e30
        for i in range(3):
            a, b = s.P[i], s.P[(i + 1) % 3]
            L = hyp(b[0] - a[0], b[1] - a[1])
            out = min(out, abs((b[0] - a[0]) * (p[1] - a[1]) - (b[1] - a[1]) * (p[0] - a[0])) / L)
        return out

    def inside(s, p):
        sg = []
        for i in range(3):
            a, b = s.P[i], s.P[(i + 1) % 3]
            sg.append((b[0] - a[0]) * (p[1] - a[1]) - (b[1] - a[1]) * (p[0] - a[0]))
        return all(v > 0 for v in sg) or all(v < 0 for v in sg)

    def features(s):
        P = s.P
        out = [(q[0], q[1], 0.0) for q in P]
        out += [((P[i][0] + P[(i + 1) % 3][0]) / 2, (P[i][1] + P[(i + 1) % 3][1]) / 2, 0.4) for i in range(3)]
        out.append((sum(q[0] for q in P) / 3, sum(q[1] for q in P) / 3, 0))
        return out


class Box(Node):
    def __init__(s, fn, a, b):
        # box_mitered|box_exact (corners)  box_mitered_centered|box_exact_centered (size, center)
        Node.__init__(s, fn, list(a) + list(b))
        f = s.floats
        if fn.endswith("centered"):
            s.lo = tuple(f[3 + i] - f[i] / 2 for i in range(3))
            s.hi = tuple(f[3 + i] + f[i] / 2 for i in range(3))
        else:
            s.lo, s.hi = tuple(f[:3]), tuple(f[3:])
        s.exact = "exact" in fn

    def bnd(s, p):
        return planes_bnd(p, s.lo, s.hi)

    def inside(s, p):
        return all(s.lo[i] < p[i] < s.hi[i] for i in range(3))

    def sdf(s, p):
        return box_sdf(p, s.lo, s.hi)

    def features(s):
        return box_features(s.lo, s.hi)


class RoundedBox(Node):
    def __init__(s, a, b, r):
        Node.__init__(s, "rounded_box", list(a) + list(b) + [r])
        f = s.floats
        s.lo, s.hi = tuple(f[:3]), tuple(f[3:6])
        s.rad = f[6] * min(s.hi[i] - s.lo[i] for i in range(3)) / 2

    def bnd(s, p):
        lo = tuple(v + s.rad for v in s.lo)
        hi = tuple(v - s.rad for v in s.hi)
        return abs(box_sdf(p, lo, hi) - s.rad)

    def inside(s, p):
        lo = tuple(v + s.rad for v in s.lo)
        hi = tuple(v - s.rad for v in s.hi)
        return box_sdf(p, lo, hi) < s.rad

    def features(s):
        k = s.rad * (1 - 1 / math.sqrt(3))
        return box_features(s.lo, s.hi) + [tuple(s.lo[i] + k for i in range(3)), tuple(s.hi[i] - k for i in range(3))]


class HalfSpace(Node):
    def __init__(s, n, pt):
        Node.__init__(s, "half_space", list(n) + list(pt))
        f = s.floats
        s.n, s.pt = f[:3], f[3:]

    def bnd(s, p):
        return abs(sum((p[i] - s.pt[i]) * s.n[i] for i in range(3))) / hyp(*s.n)

    def inside(s, p):
        # the documentation does not say which side; the side opposite to the normal is inside
        return sum((p[i] - s.pt[i]) * s.n[i] for i in range(3)) < 0

    def features(s):
        n = s.n
        t = (n[1] - n[2], n[2] - n[0], n[0] - n[1])
        return [tuple(s.pt)] + [tuple(s.pt[i] + k * t[i] for i in range(3)) for k in (-1.5, 0.7, 3)]


class CylinderZ(Node):
    def __init__(s, r, h, base):
        Node.__init__(s, "cylinder_z", [r, h] + list(base))
        s.r, s.h, s.bx, s.by, s.bz = s.floats

    def bnd(s, p):
        return min(abs(hyp(p[0] - s.bx, p[1] - s.by) - s.r), abs(p[2] - s.bz), abs(p[2] - s.bz - s.h))

    def inside(s, p):
        return hyp(p[0] - s.bx, p[1] - s.by) < s.r and s.bz < p[2] < s.bz + s.h

    def features(s):
        out = []
        for z in (s.bz, s.bz + s.h, s.bz + s.h / 2):
            out.append((s.bx, s.by, z))
            for a in (0.3, 1.9, 3.7, 5.2):
                out.append((s.bx + s.r * math.cos(a), s.by + s.r * math.sin(a), z))
        return out


class ConeZ(Node):
    """cone_z(radius, height, base): base disc of the given radius at base.z, apex at base.z+height.
    cone_ang_z(angle, height, base): the same with radius = height*tan(angle) (cone_z passes
    atan2(radius, height), i.e. `angle` is the half-angle at the apex)."""
    def __init__(s, fn, a, h, base):
        Node.__init__(s, fn, [a, h] + list(base))
        s.a, s.h, s.bx, s.by, s.bz = s.floats
        s.rad = s.a if fn == "cone_z" else s.h * math.tan(s.a)
        s.ang = math.atan2(s.a, s.h) if fn == "cone_z" else s.a

    def inside(s, p):
        z = p[2] - s.bz
        return z > 0 and hyp(p[0] - s.bx, p[1] - s.by) / s.rad + z / s.h < 1

    def bnd(s, p):
        z = p[2] - s.bz
        rho = hyp(p[0] - s.bx, p[1] - s.by)
        return min(abs(z), abs(rho * s.h + z * s.rad - s.rad * s.h) / hyp(s.h, s.rad))

    def bnd_as_coded(s, p):
        z = p[2] - s.bz
        return min(abs(z), abs(math.cos(s.ang) * hyp(p[0] - s.bx, p[1] - s.by) + math.sin(s.ang) * z - s.h))

    def inside_as_coded(s, p):
        """the set the unchanged library actually builds (proved: C18.cone_ang_z_actual)"""
        z = p[2] - s.bz
        return z > 0 and math.cos(s.ang) * hyp(p[0] - s.bx, p[1] - s.by) + math.sin(s.ang) * z < s.h

    def features(s):
        out = [(s.bx, s.by, s.bz), (s.bx, s.by, s.bz + s.h), (s.bx, s.by, s.bz + s.h / 2)]
        for a in (0.3, 2.2, 4.4):
            for t in (0.0, 0.5, 0.9):
                r = s.rad * (1 - t)
                out.append((s.bx + r * math.cos(a), s.by + r * math.sin(a), s.bz + s.h * t))
        return out


class PyramidZ(Node):
    def __init__(s, a, b, zmin, h):
        Node.__init__(s, "pyramid_z", list(a) + list(b) + [zmin, h])
        f = s.floats
        s.lo, s.hi, s.zmin, s.h = (f[0], f[1]), (f[2], f[3]), f[4], f[5]

    def bnd(s, p):
        z = p[2] - s.zmin
        out = abs(z)
        for i in range(2):
            c = (s.lo[i] + s.hi[i]) / 2
            hw = (s.hi[i] - s.lo[i]) / 2
            for sg in (-1, 1):
                out = min(out, abs(sg * (p[i] - c) * s.h + z * hw - hw * s.h) / hyp(s.h, hw))
        return out

    def inside(s, p):
        z = p[2] - s.zmin
        if z <= 0:
            return False
        for i in range(2):
            c = (s.lo[i] + s.hi[i]) / 2
            hw = (s.hi[i] - s.lo[i]) / 2
            if abs(p[i] - c) / hw + z / s.h >= 1:
                return False
        return True

    def features(s):
        cx, cy = (s.lo[0] + s.hi[0]) / 2, (s.lo[1] + s.hi[1]) / 2
        out = [(cx, cy, s.zmin + s.h), (cx, cy, s.zmin)]
        out += [(x, y, s.zmin) for x in (s.lo[0], s.hi[0]) for y in (s.lo[1], s.hi[1])]
        out += [((x + cx) / 2, (y + cy) / 2, s.zmin + s.h / 2) for x in (s.lo[0], s.hi[0]) for y in (s.lo[1], s.hi[1])]
        out += [((s.lo[0] + cx) / 2, cy, s.zmin + s.h / 2), (cx, (s.hi[1] + cy) / 2, s.zmin + s.h / 2)]
        return out


class TorusZ(Node):
    """tube of radius ri around the circle of radius ro (the header calls them outer/inner radius)"""
    def __init__(s, ro, ri, c):
        Node.__init__(s, "torus_z", [ro, ri] + list(c))
        s.ro, s.ri, s.cx, s.cy, s.cz = s.floats

    def bnd(s, p):
        return abs(hyp(s.ro - hyp(p[0] - s.cx, p[1] - s.cy), p[2] - s.cz) - s.ri)

    def inside(s, p):
        d = hyp(p[0] - s.cx, p[1] - s.cy)
        return hyp(s.ro - d, p[2] - s.cz) < s.ri

    def features(s):
        out = [(s.cx, s.cy, s.cz)]
        for a in (0.4, 2.9, 5.0):
            for r, z in ((s.ro + s.ri, 0), (s.ro - s.ri, 0), (s.ro, s.ri), (s.ro, -s.ri), (s.ro, 0)):
                out.append((s.cx + r * math.cos(a), s.cy + r * math.sin(a), s.cz + z))
        return out


class ExtrudeZ(Node):
    def __init__(s, kid, zmin, zmax):
        Node.__init__(s, "extrude_z", [zmin, zmax], kids=[kid])
        s.zmin, s.zmax = s.floats

    def bnd(s, p):
        return min(s.kids[0].bnd(p), abs(p[2] - s.zmin), abs(p[2] - s.zmax))

    def inside(s, p):
        return s.kids[0].inside(p) and s.zmin < p[2] < s.zmax

    def features(s):
        return [(q[0], q[1], z) for q in s.kids[0].features()[:12] for z in (s.zmin, s.zmax)]


# ------------------------------------------------------------------ CSG
class Csg(Node):
    def __init__(s, fn, kids, floats=()):
        Node.__init__(s, fn, floats, kids=kids)

    def inside(s, p):
        k = s.kids
        if s.fn == "_union":
            return k[0].inside(p) or k[1].inside(p)
        if s.fn == "intersection":
            return k[0].inside(p) and k[1].inside(p)
        if s.fn == "difference":
            return k[0].inside(p) and not k[1].inside(p)
        if s.fn == "inverse":
            return not k[0].inside(p)
        if s.fn == "offset":          # kid is an exact-distance shape
            return k[0].sdf(p) < s.floats[0]
        if s.fn == "clearance":       # a minus (b grown by o); b exact
            return k[0].inside(p) and not (k[1].sdf(p) < s.floats[0])
        if s.fn == "shell":           # kid exact: the layer of thickness |o| under the surface
            d = k[0].sdf(p)
            return -abs(s.floats[0]) < d < 0
        raise KeyError(s.fn)

    def bnd(s, p):
        k = s.kids
        if s.fn == "offset":
            return abs(k[0].sdf(p) - s.floats[0])
        if s.fn == "clearance":
            return min(k[0].bnd(p), abs(k[1].sdf(p) - s.floats[0]))
        if s.fn == "shell":
            d = k[0].sdf(p)
            return min(abs(d), abs(d + abs(s.floats[0])))
        return min(c.bnd(p) for c in k)

    def features(s):
        out = []
        for k in s.kids:
            out += k.features()
        return out


class Array(Node):
    def __init__(s, fn, kid, ints, floats):
        Node.__init__(s, fn, floats, ints, [kid])

    def offsets(s):
        f, n = s.floats, s.ints
        if s.fn == "array_x":
            return [(i * f[0], 0, 0) for i in range(max(1, n[0]))]
        if s.fn == "array_xy":
            return [(i * f[0], j * f[1], 0) for i in range(max(1, n[0])) for j in range(max(1, n[1]))]
        return [(i * f[0], j * f[1], k * f[2]) for i in range(max(1, n[0])) for j in range(max(1, n[1]))
                for k in range(max(1, n[2]))]

    def preimages(s, p):
        if s.fn == "array_polar_z":
            n = max(1, s.ints[0])
            cx, cy = s.floats
            out = []
            for i in range(n):
                a = -2 * math.pi * i / n
                x, y = p[0] - cx, p[1] - cy
                out.append((cx + math.cos(a) * x - math.sin(a) * y, cy + math.sin(a) * x + math.cos(a) * y, p[2]))
            return out
        return [(p[0] - o[0], p[1] - o[1], p[2] - o[2]) for o in s.offsets()]

    def inside(s, p):
        return any(s.kids[0].inside(q) for q in s.preimages(p))

    def bnd(s, p):
        return min(s.kids[0].bnd(q) for q in s.preimages(p))

    def features(s):
        base = s.kids[0].features()[:10]
        if s.fn == "array_polar_z":
            n = max(1, s.ints[0])
            cx, cy = s.floats
            out = []
            for i in range(n):
                a = 2 * math.pi * i / n
                out += [(cx + math.cos(a) * (q[0] - cx) - math.sin(a) * (q[1] - cy),
                         cy + math.sin(a) * (q[0] - cx) + math.cos(a) * (q[1] - cy), q[2]) for q in base[:5]]
            return out
        offs = s.offsets()
        return [(q[0] + o[0], q[1] + o[1], q[2] + o[2]) for o in (offs[0], offs[-1], offs[len(offs) // 2]) for q in base]


# ------------------------------------------------------------------ transforms: p_world = fwd(p_local)
class Transform(Node):
    RIGID = {"move", "reflect_x", "reflect_y", "reflect_z", "reflect_xy", "reflect_yz", "reflect_xz",
             "rotate_x", "rotate_y", "rotate_z"}

    def __init__(s, fn, kid, floats=()):
        Node.__init__(s, fn, floats, kids=[kid])
        s.rigid = fn in Transform.RIGID
        s.exact = s.rigid and kid.exact

    def inv(s, p):
        """world -> local: the inverse of the documented point map"""
        f, fn = s.floats, s.fn
        x, y, z = p
        if fn == "move":
            return (x - f[0], y - f[1], z - f[2])
        if fn == "reflect_x":
            return (2 * f[0] - x, y, z)
        if fn == "reflect_y":
            return (x, 2 * f[0] - y, z)
        if fn == "reflect_z":
            return (x, y, 2 * f[0] - z)
        if fn == "reflect_xy":
            return (y, x, z)
        if fn == "reflect_yz":
            return (x, z, y)
        if fn == "reflect_xz":
            return (z, y, x)
        if fn == "symmetric_x":
            return (abs(x), y, z)
        if fn == "symmetric_y":
            return (x, abs(y), z)
        if fn == "symmetric_z":
            return (x, y, abs(z))
        if fn == "scale_x":
            return (f[1] + (x - f[1]) / f[0], y, z)
        if fn == "scale_y":
            return (x, f[1] + (y - f[1]) / f[0], z)
        if fn == "scale_z":
            return (x, y, f[1] + (z - f[1]) / f[0])
        if fn == "scale_xyz":
            return tuple(f[3 + i] + (p[i] - f[3 + i]) / f[i] for i in range(3))
        if fn in ("rotate_x", "rotate_y", "rotate_z"):
            return s.rot(p, -f[0])
        if fn == "shear_x_y":
            # base(x,y), height, offset, base_offset: x-offset goes linearly from base_offset at
            # y = base.y to offset at y = base.y + height
            t = (y - f[1]) / f[2]
            return (x - (f[4] * (1 - t) + f[3] * t), y, z)
        if fn == "taper_xy_z":
            # base(x,y,z), height, scale, base_scale: xy scale factor goes linearly from base_scale
            # at z = base.z to scale at z = base.z + height
            t = (z - f[2]) / f[3]
            k = f[5] * (1 - t) + f[4] * t
            return (f[0] + (x - f[0]) / k, f[1] + (y - f[1]) / k, z)
        if fn == "taper_x_y":
            t = (y - f[1]) / f[2]
            k = f[4] * (1 - t) + f[3] * t
            return (f[0] + (x - f[0]) / k, y, z)
        raise KeyError(fn)

    def rot(s, p, a):
        """rotation by a about the axis through the centre; senses as proved in C18 (x and z
        right-handed, y maps x toward z)"""
        f = s.floats
        c = f[1:4]
        x, y, z = p[0] - c[0], p[1] - c[1], p[2] - c[2]
        ca, sa = math.cos(a), math.sin(a)
        if s.fn == "rotate_x":
            q = (x, ca * y - sa * z, sa * y + ca * z)
        elif s.fn == "rotate_y":
            q = (ca * x - sa * z, y, sa * x + ca * z)
        else:
            q = (ca * x - sa * y, sa * x + ca * y, z)
        return (q[0] + c[0], q[1] + c[1], q[2] + c[2])

    def fwd(s, p):
        f, fn = s.floats, s.fn
        x, y, z = p
        if fn == "move":
            return (x + f[0], y + f[1], z + f[2])
        if fn.startswith("reflect") or fn.startswith("symmetric"):
            return s.inv(p) if fn.startswith("reflect") else p
        if fn == "scale_x":
            return (f[1] + (x - f[1]) * f[0], y, z)
        if fn == "scale_y":
            return (x, f[1] + (y - f[1]) * f[0], z)
        if fn == "scale_z":
            return (x, y, f[1] + (z - f[1]) * f[0])
        if fn == "scale_xyz":
            return tuple(f[3 + i] + (p[i] - f[3 + i]) * f[i] for i in range(3))
        if fn in ("rotate_x", "rotate_y", "rotate_z"):
            return s.rot(p, f[0])
        if fn == "shear_x_y":
            t = (y - f[1]) / f[2]
            return (x + (f[4] * (1 - t) + f[3] * t), y, z)
        if fn == "taper_xy_z":
            t = (z - f[2]) / f[3]
            k = f[5] * (1 - t) + f[4] * t
            return (f[0] + (x - f[0]) * k, f[1] + (y - f[1]) * k, z)
        if fn == "taper_x_y":
            t = (y - f[1]) / f[2]
            k = f[4] * (1 - t) + f[3] * t
            return (f[0] + (x - f[0]) * k, y, z)
        raise KeyError(fn)

    def inside(s, p):
        return s.kids[0].inside(s.inv(p))

    def sdf(s, p):
        return s.kids[0].sdf(s.inv(p))

    def lip(s, p):
        """Lipschitz bound of inv near p (how much the world->local map can stretch distances)"""
        f, fn = s.floats, s.fn
        if fn in ("scale_x", "scale_y", "scale_z"):
            return max(1.0, 1 / abs(f[0]))
        if fn == "scale_xyz":
            return max(1.0, 1 / abs(f[0]), 1 / abs(f[1]), 1 / abs(f[2]))
        if fn == "shear_x_y":
            return 1 + abs((f[3] - f[4]) / f[2])
        if fn == "taper_xy_z":
            t = (p[2] - f[2]) / f[3]
            k = f[5] * (1 - t) + f[4] * t
            return max(1.0, 1 / abs(k)) * (1 + hyp(p[0] - f[0], p[1] - f[1]) * abs((f[4] - f[5]) / f[3]) / abs(k)) * 1.5
        if fn == "taper_x_y":
            t = (p[1] - f[1]) / f[2]
            k = f[4] * (1 - t) + f[3] * t
            return max(1.0, 1 / abs(k)) * (1 + abs(p[0] - f[0]) * abs((f[3] - f[4]) / f[2]) / abs(k)) * 1.5
        return 1.0

    def bnd(s, p):
        return s.kids[0].bnd(s.inv(p)) / s.lip(p)

    def features(s):
        out = [s.fwd(q) for q in s.kids[0].features()]
        if s.fn.startswith("symmetric"):
            ax = "xyz".index(s.fn[-1])
            out += [tuple(-q[i] if i == ax else q[i] for i in range(3)) for q in out[:8]]
            out += [tuple(0.0 if i == ax else q[i] for i in range(3)) for q in out[:4]]
        return out


class RevolveY(Node):
    def __init__(s, kid, x0):
        Node.__init__(s, "revolve_y", [x0], kids=[kid])

    def inside(s, p):
        x0 = s.floats[0]
        r = hyp(p[0] - x0, p[2])
        return s.kids[0].inside((x0 + r, p[1], 0.0)) or s.kids[0].inside((x0 - r, p[1], 0.0))

    def bnd(s, p):
        x0 = s.floats[0]
        r = hyp(p[0] - x0, p[2])
        return min(s.kids[0].bnd((x0 + r, p[1], 0.0)), s.kids[0].bnd((x0 - r, p[1], 0.0)))

    def features(s):
        x0 = s.floats[0]
        out = []
        for q in s.kids[0].features()[:10]:
            r = q[0] - x0
            for a in (0.0, 1.1, 3.0):
                out.append((x0 + r * math.cos(a), q[1], r * math.sin(a)))
        return out


# ------------------------------------------------------------------ generator
class Gen:
    def __init__(s, rng):
        s.rng = rng
        s.hist = {}

    def u(s, a, b):
        return f32(s.rng.uniform(a, b))

    def pos(s, a=0.4, b=2.5):
        return f32(s.rng.uniform(a, b))

    def centre(s, n=3, w=2.0):
        # sometimes exactly zero / on a coarse lattice (exercises the x-0 -> x simplifications)
        r = s.rng
        m = r.random()
        if m < 0.15:
            return tuple(0.0 for _ in range(n))
        if m < 0.35:
            return tuple(f32(round(r.uniform(-w, w) * 2) / 2) for _ in range(n))
        return tuple(s.u(-w, w) for _ in range(n))

    def corners(s, n):
        a = s.centre(n)
        return a, tuple(f32(a[i] + s.pos(0.5, 3.0)) for i in range(n))

    def note(s, node):
        s.hist[node.fn] = s.hist.get(node.fn, 0) + 1
        return node

    def prim2d(s):
        r = s.rng
        k = r.choice(["circle", "ring", "polygon", "rectangle", "rounded_rectangle", "rectangle_exact",
                      "rectangle_centered_exact", "triangle"])
        if k == "circle":
            return s.note(Circle(s.pos(), s.centre(2)))
        if k == "ring":
            ro = s.pos(0.8, 2.5)
            return s.note(Ring(ro, f32(ro * r.uniform(0.2, 0.8)), s.centre(2)))
        if k == "polygon":
            return s.note(Polygon(s.pos(0.6, 2.5), r.randint(3, 8), s.centre(2)))
        if k in ("rectangle", "rectangle_exact"):
            a, b = s.corners(2)
            return s.note(Rect(k, a, b))
        if k == "rectangle_centered_exact":
            return s.note(Rect(k, (s.pos(0.5, 3), s.pos(0.5, 3)), s.centre(2)))
        if k == "rounded_rectangle":
            a, b = s.corners(2)
            m = min(b[0] - a[0], b[1] - a[1]) / 2
            return s.note(RoundedRect(a, b, f32(m * r.uniform(0.1, 0.9))))
        while True:
            P = [s.centre(2, 2.5) for _ in range(3)]
            area = abs((P[1][0] - P[0][0]) * (P[2][1] - P[0][1]) - (P[1][1] - P[0][1]) * (P[2][0] - P[0][0]))
            if area > 0.5:
                return s.note(Triangle(*P))

    def prim3d(s):
        r = s.rng
        k = r.choice(["sphere", "sphere", "box_mitered", "box_mitered_centered", "box_exact", "box_exact_centered",
                      "rounded_box", "half_space", "cylinder_z", "cylinder_z", "cone_z", "cone_ang_z", "pyramid_z",
                      "torus_z", "extrude_z"])
        if k == "sphere":
            return s.note(Sphere(s.pos(), s.centre()))
        if k in ("box_mitered", "box_exact"):
            a, b = s.corners(3)
            return s.note(Box(k, a, b))
        if k in ("box_mitered_centered", "box_exact_centered"):
            return s.note(Box(k, tuple(s.pos(0.5, 3) for _ in range(3)), s.centre()))
        if k == "rounded_box":
            a, b = s.corners(3)
            return s.note(RoundedBox(a, b, s.u(0.1, 1.0)))
        if k == "half_space":
            while True:
                n = (s.u(-1, 1), s.u(-1, 1), s.u(-1, 1))
                if hyp(*n) > 0.3:
                    return s.note(HalfSpace(n, s.centre()))
        if k == "cylinder_z":
            return s.note(CylinderZ(s.pos(), s.pos(0.5, 3), s.centre()))
        if k == "cone_z":
            return s.note(ConeZ("cone_z", s.pos(0.4, 2), s.pos(0.5, 3), s.centre()))
        if k == "cone_ang_z":
            return s.note(ConeZ("cone_ang_z", s.u(0.25, 1.1), s.pos(0.5, 2.5), s.centre()))
        if k == "pyramid_z":
            a, b = s.corners(2)
            return s.note(PyramidZ(a, b, s.u(-1.5, 1.5), s.pos(0.5, 3)))
        if k == "torus_z":
            ro = s.pos(0.8, 2.5)
            return s.note(TorusZ(ro, f32(ro * r.uniform(0.15, 0.7)), s.centre()))
        z0 = s.u(-2, 1)
        return s.note(ExtrudeZ(s.prim2d(), z0, f32(z0 + s.pos(0.4, 3))))

    def scale(s):
        v = s.pos(0.4, 2.5)
        return f32(-v) if s.rng.random() < 0.2 else v

    def transform(s, kid):
        r = s.rng
        k = r.choice(["move", "move", "reflect_x", "reflect_y", "reflect_z", "reflect_xy", "reflect_yz", "reflect_xz",
                      "symmetric_x", "symmetric_y", "symmetric_z", "scale_x", "scale_y", "scale_z", "scale_xyz",
                      "rotate_x", "rotate_y", "rotate_z", "rotate_z", "shear_x_y", "taper_xy_z", "taper_x_y"])
        if k == "move":
            return s.note(Transform(k, kid, s.centre()))
        if k in ("reflect_x", "reflect_y", "reflect_z"):
            return s.note(Transform(k, kid, [s.centre(1)[0]]))
        if k.startswith("reflect") or k.startswith("symmetric"):
            return s.note(Transform(k, kid))
        if k in ("scale_x", "scale_y", "scale_z"):
            return s.note(Transform(k, kid, [s.scale(), s.centre(1)[0]]))
        if k == "scale_xyz":
            return s.note(Transform(k, kid, [s.scale(), s.scale(), s.scale()] + list(s.centre())))
        if k.startswith("rotate"):
            a = r.choice([s.u(-3.2, 3.2), s.u(-7, 7), f32(math.pi / 2), f32(math.pi), f32(-math.pi / 2), 0.0]) \
                if r.random() < 0.4 else s.u(-3.2, 3.2)
            return s.note(Transform(k, kid, [a] + list(s.centre())))
        if k == "shear_x_y":
            return s.note(Transform(k, kid, list(s.centre(2)) + [s.pos(0.5, 3), s.u(-1.5, 1.5), s.u(-1, 1)]))
        # tapers: keep the scale factor positive on the region we sample ( |coordinate| < 7 )
        h = s.pos(3.0, 6.0)
        bs = s.pos(0.8, 1.6)
        sc = f32(bs * r.uniform(0.85, 1.15))
        if k == "taper_xy_z":
            return s.note(Transform(k, kid, list(s.centre()) + [h, sc, bs]))
        return s.note(Transform(k, kid, list(s.centre(2)) + [h, sc, bs]))

    def exact_shape(s):
        r = s.rng
        k = r.choice(["sphere", "circle", "box_exact", "box_exact_centered", "rectangle_exact", "rectangle_centered_exact"])
        if k == "sphere":
            n = Sphere(s.pos(), s.centre())
        elif k == "circle":
            n = Circle(s.pos(), s.centre(2))
        elif k == "box_exact":
            n = Box(k, *s.corners(3))
        elif k == "box_exact_centered":
            n = Box(k, tuple(s.pos(0.5, 3) for _ in range(3)), s.centre())
        elif k == "rectangle_exact":
            n = Rect(k, *s.corners(2))
        else:
            n = Rect(k, (s.pos(0.5, 3), s.pos(0.5, 3)), s.centre(2))
        s.note(n)
        for _ in range(r.choice([0, 0, 1, 2])):
            kk = r.choice(sorted(Transform.RIGID))
            if kk == "move":
                n = Transform(kk, n, s.centre())
            elif kk in ("reflect_x", "reflect_y", "reflect_z"):
                n = Transform(kk, n, [s.centre(1)[0]])
            elif kk.startswith("reflect"):
                n = Transform(kk, n)
            else:
                n = Transform(kk, n, [s.u(-3.2, 3.2)] + list(s.centre()))
            s.note(n)
        return n

    def shape(s, depth):
        r = s.rng
        v = r.random()
        if depth <= 0 or v < 0.3:
            return s.prim3d() if r.random() < 0.8 else s.prim2d()
        if v < 0.68:
            return s.transform(s.shape(depth - 1))
        if v < 0.9:
            k = r.choice(["_union", "intersection", "difference", "inverse"])
            if k == "inverse":
                return s.note(Csg(k, [s.shape(depth - 1)]))
            return s.note(Csg(k, [s.shape(depth - 1), s.shape(depth - 1)]))
        if v < 0.95:
            k = r.choice(["offset", "shell", "clearance"])
            e = s.exact_shape()
            if k == "offset":
                return s.note(Csg(k, [e], [s.u(-0.3, 0.8)]))
            if k == "shell":
                return s.note(Csg(k, [e], [s.u(-0.4, 0.4) or 0.25]))
            return s.note(Csg(k, [s.shape(depth - 1), e], [s.u(-0.2, 0.6)]))
        if v < 0.98:
            k = r.choice(["array_x", "array_xy", "array_xyz", "array_polar_z"])
            kid = s.shape(depth - 1)
            if k == "array_x":
                return s.note(Array(k, kid, [r.randint(1, 5)], [s.u(-3, 3)]))
            if k == "array_xy":
                return s.note(Array(k, kid, [r.randint(1, 3), r.randint(1, 3)], [s.u(-3, 3), s.u(-3, 3)]))
            if k == "array_xyz":
                return s.note(Array(k, kid, [r.randint(1, 2), r.randint(1, 3), r.randint(1, 2)],
                                    [s.u(-3, 3), s.u(-3, 3), s.u(-3, 3)]))
            return s.note(Array(k, kid, [r.randint(1, 8)], list(s.centre(2))))
        return s.note(RevolveY(s.prim2d(), s.u(-1.5, 1.5)))

    def points(s, node, n, box=6.0):
        """query points: jittered feature points (faces / edges / rims / apex at several distances)
        and uniformly random ones"""
        r = s.rng
        feats = [q for q in node.features() if all(abs(c) < 50 for c in q)]
        pts = []
        for _ in range(n):
            if feats and r.random() < 0.7:
                q = r.choice(feats)
                m = r.choice([0.0, 3e-3, 1e-2, 3e-2, 0.1, 0.3, 1.0])
                p = tuple(f32(q[i] + r.gauss(0, 1) * m) for i in range(3))
            else:
                p = tuple(f32(r.uniform(-box, box)) for _ in range(3))
            pts.append(p)
        return pts


NEIGH = [(1, 0, 0), (-1, 0, 0), (0, 1, 0), (0, -1, 0), (0, 0, 1), (0, 0, -1),
         (1, 1, 1), (1, 1, -1), (1, -1, 1), (1, -1, -1), (-1, 1, 1), (-1, 1, -1), (-1, -1, 1), (-1, -1, -1)]


def stable_membership(inside, p, delta, bnd=None):
    """membership of p, or None if p is within about delta of the boundary (membership changes at
    one of 14 neighbours at distance delta (axes) / delta*sqrt3 (diagonals), or at delta/8; or the
    conservative distance bound `bnd` says so -- the neighbour test alone misses sharp corners)"""
    if bnd is not None and not (bnd(p) >= delta):
        return None
    m = inside(p)
    for d in (delta, delta / 8):
        for n in NEIGH:
            if inside((p[0] + d * n[0], p[1] + d * n[1], p[2] + d * n[2])) != m:
                return None
    return m
