"""C17 — the root finder reports what it actually reached."""
import concurrent.futures
import math
import os
import random

import common
import gen

ASSUMPTIONS = [
    "Theorems are about the Lean model of Solver::findRoot as of /repo commits 4e85339 + 3fa47ee (LibfiveModel/Solver.lean) "
    "for every evaluator (value/grad are arbitrary functions), every scalar satisfying the listed IEEE laws "
    "(Libfive.Solver.Laws; proved for the concrete FVal = nan|ninf|fin|pinf arithmetic, tested on Float32 landmarks by "
    "`vd-c17 laws`), every initial assignment, mask and budget.",
    "Tie: the model is run at Float32 with the REAL JacobianEvaluator's answers (value and gradient at every accepted "
    "point, value at every backtracking trial point) as its oracle; for every budget g of a gas sweep the model's "
    "returned residual and variables must equal the real call's bit for bit (a real time-out can only be matched by a "
    "model fixed point, which the fixed model no longer has). Accepted points are observed through the public API only "
    "(gas = g gives the state after g-1 iterations); no hook.",
    "Float gap: slope / step / trial points are re-derived in Float32 (fused and unfused variants, the one that "
    "reproduces the harness' numbers is used); absent variables are compared by value (-0 - (-0) = +0).",
    "findRoot_terminates needs a uniform halving bound of the scalar (278 for IEEE single: tested, not proved, for Float32).",
    "The watchdog (seconds, generous) is the only use of wall-clock time; a time-out of the user-level call is re-run "
    "under a much longer watchdog before it is reported.",
    "The *_b32 theorems (LibfiveTheorems/C17B32.lean) are about the binary32 model LibfiveModel/B32.lean; it is tied to the "
    "hardware `float` differentially only (`vd-c17` line `b32selftest`: half, sub, div, abs, lt, ge, geHalf, isFinite, isZero, "
    "sqAdd, unfused v-(s*d) against native Float32 bit for bit with all NaNs identified, the fused v-s*d against a "
    "double/round-to-odd emulation because Lean 4.33 has no native Float32 fma, on seeded random and landmark operands), not by proof.",
]

SPECIAL = {"nan": "7fc00000", "inf": "7f800000", "-inf": "ff800000", "-0": "80000000"}


def hx(x):
    if isinstance(x, str):
        return SPECIAL[x]
    return gen.f2hex(gen.f32(x))


class Builder:
    """thin wrapper over gen.TreeGen for hand-built templates"""

    def __init__(self, rng, nvars, **o):
        self.g = gen.TreeGen(rng, nvars=nvars, **o)

    def c(self, v):
        return self.g._emit(("const", hx(v)))

    def un(self, op, a):
        return self.g._emit(("un", op, a))

    def bi(self, op, a, b):
        return self.g._emit(("bin", op, a, b))

    def cvars(self, a):
        return self.g._emit(("cvars", a))

    @property
    def v(self):
        return self.g.vars

    X, Y, Z = 0, 1, 2


def free_vars(lines, root):
    """variables reachable from root without passing a const-vars node"""
    kind = {}
    for ln in lines:
        w = ln.split()
        kind[int(w[1])] = w[2:]
    memo = {}

    def go(i):
        if i in memo:
            return memo[i]
        k = kind[i]
        if k[0] == "var":
            r = {i}
        elif k[0] == "un":
            r = go(int(k[2]))
        elif k[0] == "bin":
            r = go(int(k[2])) | go(int(k[3]))
        else:
            r = set()
        memo[i] = r
        return r
    return go(root)


def adversarial(rng, which):
    """hand-built non-finite / degenerate situations; returns (builder, root, pos, inits{node:val}, note)"""
    r = rng
    nv = 2
    b = Builder(r, nv, size=0)
    v, w = b.v
    pos = (0.0, 0.0, 0.0)
    inits = {v: 0.0, w: gen.f32(r.uniform(-2, 2))}   # w never occurs unless stated
    if which == "pole":               # 1/(v-c) at v=c
        c = r.choice([0.0, 1.0, -0.5, 2.0])
        root = b.bi("div", b.c(r.choice([1.0, -1.0, 3.0])), b.bi("sub", v, b.c(c)))
        inits[v] = c
    elif which == "pole-recip":
        root = b.un("recip", v)
    elif which == "inf-residual-finite-grad":      # 1/x + k v at x = 0  -> step = +-inf
        k = r.choice([1.0, -2.0, 0.5, 100.0])
        root = b.bi("add", b.un("recip", b.X), b.bi("mul", b.c(k), v))
        inits[v] = gen.f32(r.uniform(-2, 2))
    elif which == "inf-residual-small-slope":      # slope < EPSILON accepts anything
        k = r.choice([1e-4, -3e-4, 5e-5])
        root = b.bi("add", b.un("recip", b.X), b.bi("mul", b.c(k), v))
        inits[v] = gen.f32(r.uniform(-2, 2))
    elif which == "inf-const":                     # inf + k v: residual inf, finite gradient -> step = +-inf
        root = b.bi("add", b.c("inf"), b.bi("mul", b.c(r.choice([1.0, -2.0, 0.5])), v))
        inits[v] = gen.f32(r.uniform(-2, 2))
    elif which == "inf-const-small-slope":         # ... accepted through `slope < EPSILON`: the call returns
        root = b.bi("add", b.c(r.choice(["inf", "-inf"])), b.bi("mul", b.c(r.choice([1e-4, -3e-4, 5e-5])), v))
        inits[v] = gen.f32(r.uniform(-2, 2))
    elif which == "inf-gradient":                  # sqrt(v)+c at 0: gradient +inf, step = 0, 0*inf
        root = b.bi("add", b.un("sqrt", v), b.c(r.choice([1.0, 0.25, -1.0])))
    elif which == "log-zero":
        root = b.un("log", v)
    elif which == "huge-gradient":                 # slope overflows to inf, step = 0: harmless
        root = b.bi("sub", b.bi("mul", b.c(1e20), v), b.c(1.0))
        inits[v] = 1.0
    elif which == "zero-gradient":
        root = b.bi("add", b.un("square", v), b.c(1.0))
    elif which == "nan-residual":                  # v/v at 0
        root = b.bi("div", v, v)
    elif which == "nan-init":
        root = b.bi("sub", b.un("square", v), b.c(2.0))
        inits[v] = r.choice(["nan", "inf", "-inf"])
    elif which == "signed-zero":                   # atan2(v,-1) jumps between -0 and +0
        root = b.bi("add", b.bi("atan2", v, b.c(-1.0)), b.c(r.choice([4.0, -4.0])))
        inits[v] = r.choice(["-0", 0.0])
    elif which == "no-root-negative":              # -1 - v^2: every step accepted (r_ < EPSILON)
        root = b.bi("sub", b.c(-1.0), b.un("square", v))
        inits[v] = gen.f32(r.uniform(0.5, 2))
    elif which == "no-root-positive":              # 1 + v^2
        root = b.bi("add", b.c(1.0), b.un("square", v))
        inits[v] = gen.f32(r.uniform(0.5, 2))
    elif which == "overflow":                      # exp(v) far out
        root = b.bi("sub", b.un("exp", b.bi("mul", b.c(50.0), v)), b.c(1.0))
        inits[v] = gen.f32(r.uniform(1.5, 3))
    elif which == "abs-kink":
        root = b.bi("add", b.un("abs", v), b.c(r.choice([0.0, 1.0, -1.0])))
    elif which == "two-var-pole":                  # 1/v + w, both free
        root = b.bi("add", b.un("recip", v), w)
    else:
        raise ValueError(which)
    return b, root, pos, inits, which


ADV = ["pole", "pole-recip", "inf-residual-finite-grad", "inf-residual-small-slope", "inf-const",
       "inf-const-small-slope", "inf-gradient", "log-zero",
       "huge-gradient", "zero-gradient", "nan-residual", "nan-init", "signed-zero", "no-root-negative",
       "no-root-positive", "overflow", "abs-kink", "two-var-pole"]


def gen_case(rng, k, tier, kind):
    r = rng
    meta = {"kind": kind}
    if kind == "adversarial":
        which = ADV[(k // (5 if tier == "quick" else 10)) % len(ADV)] if r.random() < 0.8 else r.choice(ADV)
        b, root, pos, inits, note = adversarial(r, which)
        g = b.g
        meta["which"] = which
        masked = set()
        if r.random() < 0.2:
            masked.add(g.vars[1])
        gas = r.choice([0, 2, 3, 10, 100] if which.startswith("no-root") else [2, 3, 10, 100, 25000])
    else:
        nv = r.randint(1, 4)
        style = r.choice(["poly", "poly", "mixed", "trans"])
        if style == "poly":
            o = dict(unary=["neg", "square", "abs"], binary=["add", "sub", "mul"], p_minmax=0.1)
        elif style == "mixed":
            o = dict(unary=gen.UNARY_EXACT, binary=gen.BINARY_EXACT, p_minmax=0.25)
        else:
            o = dict(unary=gen.UNARY_EXACT + ["sin", "cos", "exp", "atan", "log"],
                     binary=gen.BINARY_EXACT + ["atan2", "pow"], p_minmax=0.15)
        g = gen.TreeGen(r, nvars=nv, size=r.randint(2, 10 if tier == "quick" else 18), p_share=0.5, **o)
        root = g.build()
        meta["style"] = style
        if kind == "constvars" and g.vars:
            # add a term that mentions one variable only behind with_const_vars
            b = Builder.__new__(Builder)
            b.g = g
            cv = r.choice(g.vars)
            inner = b.bi(r.choice(["mul", "add"]), cv, b.c(r.choice([2.0, -1.0, 0.5])))
            if r.random() < 0.5:
                inner = b.un(r.choice(["square", "sin"]), inner)
            root = b.bi(r.choice(["add", "sub"]), root, b.cvars(inner))
            if r.random() < 0.3:     # the whole expression constant in its variables
                root = b.cvars(root)
        pos = gen.rand_point(r, (-2, -2, -2), (2, 2, 2), lattice=0.5)
        inits = {}
        for v in g.vars:
            u = r.random()
            if u < 0.12:
                inits[v] = r.choice([0.0, 1.0, -1.0, 0.5, "-0"])
            else:
                inits[v] = gen.f32(r.uniform(-3, 3))
        masked = {v for v in g.vars if r.random() < 0.25}
        gas = r.choice([0, 1, 2, 3, 5, 10, 25, 60, 200] if tier == "quick" else [0, 1, 2, 5, 25, 200, 2000, 25000])
    sweep = 24 if tier == "quick" else 48
    lines = ["case %d" % k] + list(g.lines) + ["root %d" % root, "pos %s" % gen.pt_hex(pos)]
    for v in g.vars:
        lines.append("var %d %s %d" % (v, hx(inits[v]), 1 if v in masked else 0))
    lines += ["gas %d" % gas, "sweep %d" % sweep, "watchdog %g" % (4.0 if tier == "quick" else 12.0), "end"]
    fv = free_vars(g.lines, root)
    meta.update({"nvars": len(g.vars), "masked": sorted(masked), "gas": gas, "hist": dict(g.hist),
                 "inits": {v: hx(inits[v]) for v in g.vars}, "free": sorted(fv),
                 "gradzero": sorted(set(g.vars) - fv)})
    return lines, meta


def gen_cases(rng, n, tier):
    cases = []
    for k in range(n):
        u = k % 10
        kind = "adversarial" if (u in (0, 5) if tier == "quick" else u == 0) else ("constvars" if u == 3 else "random")
        cases.append(gen_case(rng, k, tier, kind))
    return cases


def run_chunk(args):
    exe, path = args
    r = common.run_harness(exe, [path], timeout=3000)
    return r.returncode, r.stdout, r.stderr


def feq(a, b):
    """same value: bit-equal, both NaN, or both zero"""
    if a == b:
        return True
    x, y = gen.hex2f(a), gen.hex2f(b)
    return (math.isnan(x) and math.isnan(y)) or x == y


def parse_out(text):
    """-> {case id: {vars:[(node,init,masked,indeck)], user:..., chk:..., rets:{g:...}, lines:[...]}}"""
    out, cur = {}, None
    for ln in text.splitlines():
        w = ln.split()
        if not w:
            continue
        if w[0] == "case":
            cur = out.setdefault(w[1], {"vars": [], "user": None, "chk": None, "rets": {}, "lines": [], "hang_it": None})
        if cur is None:
            continue
        cur["lines"].append(ln)
        if w[0] == "vars":
            m = int(w[1])
            cur["vars"] = [(int(w[2 + 4 * i]), w[3 + 4 * i], w[4 + 4 * i] == "1", w[5 + 4 * i] == "1") for i in range(m)]
        elif w[0] == "user":
            cur["gas"] = int(w[2])
            cur["user"] = parse_sol(w[3:])
        elif w[0] == "chk":
            cur["chk"] = w[2]
        elif w[0] == "ret":
            cur["rets"][int(w[1])] = parse_sol(w[2:])
    return out


def parse_sol(w):
    if w[0] != "ok":
        return {"status": w[0]}
    n = int(w[4])
    return {"status": "ok", "r": w[2], "sol": {int(w[5 + 2 * i]): w[6 + 2 * i] for i in range(n)}}


# all formerly known mechanisms are repaired in /repo (known_findings.d/C17.json, "fixed"): nothing is keyed any more
HANG_KEYS = {}


def corpus_meta(lines):
    """meta for a corpus case (no generator record): which variables have an identically zero gradient"""
    nodes = [l for l in lines if l.startswith("n ")]
    root = int([l for l in lines if l.startswith("root ")][0].split()[1])
    vs = [int(l.split()[1]) for l in lines if l.startswith("var ")]
    fv = free_vars(nodes, root)
    hist = {}
    for l in nodes:
        w = l.split()
        op = w[3] if w[2] in ("un", "bin") else w[2]
        hist[op] = hist.get(op, 0) + 1
    gas = int([l for l in lines if l.startswith("gas ")][0].split()[1])
    return {"kind": "corpus", "nvars": len(vs), "masked": [int(l.split()[1]) for l in lines if l.startswith("var ") and l.split()[3] == "1"],
            "gas": gas, "hist": hist, "free": sorted(fv), "gradzero": sorted(set(vs) - fv)}


def run(rep, tier, seed, replay=None):
    rng = random.Random(seed * 104729 + 17)
    aud = common.audit("C17")
    exe = common.build_harness("solver")
    n = 800 if tier == "quick" else 6000
    cases = gen_cases(rng, n, tier)
    # corpus of past failures first (ids prefixed to stay distinct)
    corpus_dir = os.path.join(common.VERIF, "corpus", "C17")
    corpus_lines = []
    if os.path.isdir(corpus_dir):
        for f in sorted(os.listdir(corpus_dir)):
            corpus_lines += [l.rstrip("\n") for l in open(os.path.join(corpus_dir, f))]
    work = os.path.join(common.BUILD, "work")
    os.makedirs(work, exist_ok=True)
    nchunk = min(12, max(2, common.NPROC))
    chunks = [[] for _ in range(nchunk)]
    for i, (lines, _) in enumerate(cases):
        chunks[i % nchunk] += lines
    # corpus cases first, spread over the chunks (several of them run into the watchdog)
    cblocks, cur = [], None
    for ln in corpus_lines:
        if ln.startswith("case "):
            cur = []
            cblocks.append(cur)
        if cur is not None:
            cur.append(ln)
    for i, blk in enumerate(cblocks):
        chunks[(nchunk - 1 - i) % nchunk] = blk + chunks[(nchunk - 1 - i) % nchunk]
    paths = []
    for i, ch in enumerate(chunks):
        p = os.path.join(work, "c17-%d-%s-%d.in" % (seed, tier, i))
        with open(p, "w") as f:
            f.write("\n".join(ch) + "\n")
        paths.append(p)
    with concurrent.futures.ThreadPoolExecutor(nchunk) as ex:
        results = list(ex.map(run_chunk, [(exe, p) for p in paths]))
    text = ""
    for (rc, so, se), p in zip(results, paths):
        if rc != 0:
            rep.violation("solver harness crashed rc=%d: %s" % (rc, se[-600:]),
                          {"kind": "harness-crash", "program": p, "stderr": se[-3000:]})
        text += so
    with open(os.path.join(work, "c17-%d-%s.out" % (seed, tier)), "w") as f:
        f.write(text)
    real = parse_out(text)
    in_cases = {str(k): lines for k, (lines, _) in enumerate(cases)}
    metas = {str(k): m for k, (_, m) in enumerate(cases)}
    cur = None
    for ln in corpus_lines:
        if ln.startswith("case "):
            cur = in_cases.setdefault(ln.split()[1], [])
        if cur is not None:
            cur.append(ln)
    for cid, lines in in_cases.items():
        if cid not in metas:
            metas[cid] = corpus_meta(lines)

    verdicts = common.run_driver("c17", text, timeout=900).splitlines()
    laws = common.run_driver("c17", "", args=["laws"], timeout=60).splitlines()
    # binary32 model (LibfiveModel/B32.lean) against native Float32 (= C float): separate invocation
    b32 = common.run_driver("c17", "b32selftest %d %d\n" % (seed, 20000 if tier == "quick" else 200000),
                            timeout=600).splitlines()
    by_case = {}
    for v in verdicts:
        w = v.split()
        if "case" in w:
            by_case.setdefault(w[w.index("case") + 1], []).append(v)

    def info(cid, field):
        for v in by_case.get(cid, []):
            w = v.split()
            if w[0] == "info" and w[1] == "case" and field in w:
                return w[w.index(field) + 1]
        return None

    stats = {"user_ok": 0, "user_timeout": 0, "residual_checked": 0, "residual_nan": 0, "masked_checked": 0,
             "absent_checked": 0, "gradzero_checked": 0, "gas0_cases": 0, "gas0_moved": 0,
             "hang_kinds": {}, "nonfinite_accepted_cases": 0, "cases_with_iterations": 0, "max_iterations": 0}
    reported = set()

    def replay_of(cid, **extra):
        d = {"case": cid, "program": in_cases.get(cid), "meta": metas.get(cid),
             "observed": real.get(cid, {}).get("lines", [])[:12], "model": by_case.get(cid, [])[:12],
             "how": "write `program` to a file and run .build/plain/harness/solver <file> | lean/.lake/build/bin/vd-c17"}
        d.update(extra)
        return d

    for cid, c in real.items():
        meta = metas.get(cid, {})
        u = c["user"]
        if u is None:
            continue
        hang = info(cid, "hang")
        nonfin = info(cid, "nonfinite_accepted") == "1"
        mi = int(info(cid, "maxiters") or 0)
        stats["max_iterations"] = max(stats["max_iterations"], mi)
        if mi > 0:
            stats["cases_with_iterations"] += 1
        if nonfin:
            stats["nonfinite_accepted_cases"] += 1
        if info(cid, "gaveup") == "1":
            stats["gave_up_cases"] = stats.get("gave_up_cases", 0) + 1
        # ---- 1. the call returns (watchdog)
        if u["status"] != "ok":
            stats["user_timeout"] += 1
            kind = hang.split(":", 1)[1] if hang and hang != "none" else None
            key = HANG_KEYS.get(kind)
            if kind is None and u["status"] == "timeout":
                # no model certificate for a hang: never alarm on a merely slow call -> long watchdog
                long_wd = 60 if tier == "quick" else 240
                lines2 = [l for l in in_cases.get(cid, []) if not l.startswith(("sweep", "watchdog"))]
                lines2 = lines2[:-1] + ["sweep 0", "watchdog %d" % long_wd, "end"]
                p2 = os.path.join(work, "c17-%d-%s-rerun.in" % (seed, tier))
                with open(p2, "w") as f:
                    f.write("\n".join(lines2) + "\n")
                r2 = common.run_harness(exe, [p2], timeout=long_wd + 60)
                u2 = parse_out(r2.stdout).get(cid, {}).get("user")
                stats["slow_reruns"] = stats.get("slow_reruns", 0) + 1
                if u2 and u2["status"] == "ok":
                    common.log("case %s: slow, not hung (returned under the %ds watchdog)" % (cid, long_wd))
                    continue
            stats["hang_kinds"][kind or "uncertified"] = stats["hang_kinds"].get(kind or "uncertified", 0) + 1
            rep.violation("findRoot did not return within the %s watchdog (%s; model: %s)" % (
                u["status"], meta.get("which", meta.get("kind")), hang),
                replay_of(cid, kind="oracle-hang", model_certificate=hang), key=key)
            reported.add(cid)
            continue
        stats["user_ok"] += 1
        sol = u["sol"]
        # ---- 2. returned residual = expression at the returned assignment (same evaluator kernels: bit-equal)
        stats["residual_checked"] += 1
        rnan = math.isnan(gen.hex2f(u["r"]))
        stats["residual_nan"] += 1 if rnan else 0
        if not (u["r"] == c["chk"] or (rnan and math.isnan(gen.hex2f(c["chk"])))):
            rep.violation("returned residual %s differs from the expression at the returned assignment %s" % (u["r"], c["chk"]),
                          replay_of(cid, kind="oracle-residual"))
            reported.add(cid)
        # ---- 3. masked never returned; 4. absent / zero-gradient variables keep their values
        for i, (node, init, masked, indeck) in enumerate(c["vars"]):
            if masked:
                stats["masked_checked"] += 1
                if i in sol:
                    rep.violation("masked variable %d is in the returned solution" % node, replay_of(cid, kind="oracle-mask"))
                    reported.add(cid)
                continue
            if i not in sol:
                rep.violation("unmasked variable %d missing from the returned solution" % node, replay_of(cid, kind="oracle-missing"))
                reported.add(cid)
                continue
            untouchable = (not indeck) or (node in meta.get("gradzero", []))
            if untouchable:
                stats["absent_checked" if not indeck else "gradzero_checked"] += 1
                if not feq(sol[i], init):
                    key = None
                    rep.violation("variable %d (%s) changed from %s to %s" % (
                        node, "absent from the expression" if not indeck else "only behind const-vars", init, sol[i]),
                        replay_of(cid, kind="oracle-absent", nonfinite_step_accepted=nonfin), key=key)
                    reported.add(cid)
        # ---- 5. budget 0 performs no iteration
        if c.get("gas") == 0:
            stats["gas0_cases"] += 1
            r1 = c["rets"].get(1)
            if r1 and r1["status"] == "ok":
                moved = r1["r"] != u["r"] or any(not feq(sol.get(i, ""), v) for i, v in r1["sol"].items())
                if moved:
                    stats["gas0_moved"] += 1
                    rep.violation("gas=0 performed iterations (result differs from the zero-iteration result)",
                                  replay_of(cid, kind="oracle-budget"))
                    reported.add(cid)

    # ---- correspondence verdicts
    mism = [v for v in verdicts if v.startswith("MISMATCH")]
    oks = sum(1 for v in verdicts if v.startswith("ok"))
    skips = [v for v in verdicts if v.startswith("skip")]
    for m in mism[:20]:
        w = m.split()
        cid = w[w.index("case") + 1] if "case" in w else "?"
        if cid in reported:
            continue
        reported.add(cid)
        rep.violation("model/implementation correspondence broken (stream C17.findRoot): %s" % m[:300],
                      replay_of(cid, kind="correspondence", stream="C17.findRoot (LibfiveModel/Solver.lean: outer, lineSearch)",
                                verdict=m, theorems_affected=["Libfive.C17.residual_is_value", "Libfive.C17.outer_bounded",
                                                              "Libfive.C17.inner_terminates_partial"]),
                      no_input=True)
    lawfail = [v for v in laws if v.startswith("LAWFAIL")]
    if lawfail or not any(v.startswith("ok laws") for v in laws):
        rep.violation("IEEE laws assumed by the C17 theorems fail on Float32: %s" % (lawfail[:3],),
                      {"kind": "laws", "lines": lawfail[:20]}, no_input=True)
    b32_ok = {v.split()[2]: int(v.split()[3]) for v in b32 if v.startswith("ok b32 ")}
    b32_mism = [v for v in b32 if v.startswith("MISMATCH b32")]
    B32_THEOREMS = ["Libfive.C17.findRoot_terminates_b32", "Libfive.C17.inner_terminates_b32",
                    "Libfive.C17.absent_untouched_b32"]
    for m in b32_mism[:20]:
        rep.violation("binary32 model and native float disagree (stream C17.b32): %s" % m[:300],
                      {"kind": "correspondence", "stream": "C17.b32 (LibfiveModel/B32.lean vs native Float32)",
                       "verdict": m, "theorems_affected": B32_THEOREMS,
                       "how": "echo 'b32selftest %d %d' | lean/.lake/build/bin/vd-c17" % (seed, 20000 if tier == "quick" else 200000)},
                      no_input=True)
    if not b32_mism and not b32_ok:
        rep.violation("binary32 model self-test produced no verdict (stream C17.b32): %s" % (b32[:3],),
                      {"kind": "correspondence", "stream": "C17.b32 (LibfiveModel/B32.lean vs native Float32)",
                       "lines": b32[:20], "theorems_affected": B32_THEOREMS}, no_input=True)
    arith_skips = [v for v in skips if v.startswith("skip arith")]
    if len(arith_skips) > max(3, len(real) // 10):
        rep.violation("Float32 re-derivation of slope/step/trial points disagrees with the harness on %d cases: %s" % (
            len(arith_skips), arith_skips[0][:200]), {"kind": "tie-arith", "lines": arith_skips[:10]}, no_input=True)
    if not aud["ok"]:
        common.report_broken_proof(rep, aud)

    def count(pred):
        return sum(1 for m in metas.values() if pred(m))
    hist = {}
    for m in metas.values():
        for op, c_ in m["hist"].items():
            hist[op] = hist.get(op, 0) + c_
    cov = common.proof_coverage(aud, {
        "evaluations": len(real),
        "distinct_nontrivial": stats["cases_with_iterations"],
        "rule": "random expressions with 1-4 free variables (polynomial / exact-op / transcendental), const-vars terms, "
                "hand-built non-finite situations; random masks, initial values (incl. -0, NaN, inf), positions, budgets "
                "(incl. 0); non-trivial = the real call performed at least one accepted iteration",
        "correspondence": {"verdicts_ok": oks, "mismatch": len(mism), "skipped": len(skips),
                           "skip_reasons": {k: sum(1 for v in skips if v.split()[1] == k) for k in {v.split()[1] for v in skips}},
                           "ret_compared": sum(1 for v in verdicts if v.startswith("ok ret")),
                           "hangs_certified": sum(1 for v in verdicts if v.startswith("ok hang") or v.startswith("ok userhang")),
                           "arith_variants": {k: sum(1 for v in verdicts if v.startswith("ok arith") and k in v)
                                              for k in ("fusedSq true fusedSub true", "fusedSq false fusedSub true",
                                                        "fusedSq true fusedSub false", "fusedSq false fusedSub false")},
                           "law_check": laws[-1] if laws else "", **stats},
        "distribution": {"kinds": {k: count(lambda m, k=k: m["kind"] == k) for k in ("random", "constvars", "adversarial", "corpus")},
                         "adversarial": {k: count(lambda m, k=k: m.get("which") == k) for k in ADV},
                         "nvars": {k: count(lambda m, k=k: m["nvars"] == k) for k in range(0, 5)},
                         "gas": {str(k): count(lambda m, k=k: m["gas"] == k) for k in sorted({m["gas"] for m in metas.values()})},
                         "cases_with_masked": count(lambda m: m["masked"]),
                         "cases_with_gradzero_vars": count(lambda m: m["gradzero"]),
                         "opcodes": hist},
        "samples": [in_cases[k] for k in list(in_cases)[:2]],
    })
    cov["correspondence"]["b32_model_vs_native_float"] = dict(b32_ok)
    cov["correspondence"]["b32_mismatch"] = len(b32_mism)
    cov["correspondence"]["b32_skipped"] = [v for v in b32 if v.startswith("skip b32")]
    cov["correspondence"]["b32_distribution"] = {v.split()[3]: int(v.split()[4]) for v in b32 if v.startswith("info b32 dist ")}
    return rep.finish("proof", cov, ASSUMPTIONS)
