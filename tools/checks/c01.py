"""C01 — point evaluation computes the function the expression denotes."""
from checks import exprcheck

ASSUMPTIONS = [
    "Theorems: a tape denotes its decompilation (any interpretation), batched evaluation is slot-wise, construction-time folding is sound; the rewriting steps are C07's theorems.",
    "Tie: on every generated program the real Deck's tape is well-formed and decompiles to the real optimised tree (AC-canonical comparison), and the real ArrayEvaluator's values (single and every slot of batches of size 1..256, through the same evaluator) are compared with a double-precision reference of the UNREWRITTEN expression within a forward bound on single-precision rounding error, at stable points only.",
    "Float rounding inside kernels and Eigen's vector transcendental kernels are not modelled; the error bound constants are part of the trusted base.",
]


def run(rep, tier, seed, replay=None):
    return exprcheck.run(rep, tier, seed, "C01", ASSUMPTIONS,
                         "C01.deck (decompile of the real tape vs the real optimised tree; LibfiveModel/ExprF32.lean)")
