"""C02 — interval evaluation soundly encloses every point value in the box.

Streams (all against the freshly built library, harness/interval.cpp):
  1. tie: every opcode x every combination of endpoint landmarks (+ seeded random finite values, exponent
     parities, maybe-NaN input flags) through the real IntervalEvaluator; the Lean driver re-derives
     libfive's flag and case selection with the model (LibfiveModel/Interval.lean) and must agree exactly.
  2. oracle = the property: points inside each operand interval (endpoints and infinite endpoints
     included, NaN when the operand is flagged) through the real ArrayEvaluator; a NaN or an escape from
     the reported bounds while the result is not flagged is a violation with a concrete input.
  3. whole generated expressions x boxes through IntervalEvaluator::eval vs lattice + corner sampling;
     escapes are blamed on the first clause whose value leaves its own interval slot.
"""
import math
import os
import struct

import common
import gen

ASSUMPTIONS = [
    "Theorems are about the Lean model of class Interval (LibfiveModel/Interval.lean, mirroring the fixed interval.hpp) over extended values nan|-inf|fin x|+inf of an arbitrary linearly ordered field, in exact arithmetic.",
    "Boost.Interval's primitives are parameters with their contracts as hypotheses (for non-NaN a in A, b in B with a non-NaN exact result, the result lies in the returned bounds; division/reciprocal/negative powers only for non-zero divisors; log only for a positive upper bound, pow(.,0) not on [0,0], nth_root only for finite bounds): outward rounding and transcendental enclosures are Boost's, assumed. Where Boost itself returns a NaN bound for non-NaN values (inf-inf endpoint sums, empty intervals) the repaired constructor (/repo 0be5df1) replaces the bounds by [-inf,+inf], flagged: flagged_bounds_enclose / nan_bounds_kept_unsound.",
    "Point semantics follow eval_array.cpp in exact arithmetic; Eigen's vector kernels (few-ulp error, non-IEEE results at overflow) are not modelled: deviations are found by the oracle stream and recorded as known findings.",
    "pow / nth_root exponents are integer constants (the only exponents libfive's API admits); these two opcodes keep a side condition (SafeArgs): pow exponent 0 not on the base [0,0], nth_root only for finite operand bounds. Every other opcode's enclosure lemma and tape_enclosure are unconditional.",
    "The inductive invariant is the strong enclosure (a flagged interval still bounds its non-NaN values); the property statement (unflagged => enclosed) is its corollary.",
    "The *_unsound_old theorems are about the pre-fix formulas; their witnesses are still replayed on the real evaluators and must NOT reproduce (a reproduced fixed defect is reported as a VIOLATION).",
]

INF = float("inf")
LANDMARKS = [-INF, -1e30, -100.0, -3.0, -1.0, -0.5, -1e-30, -0.0, 0.0, 1e-30, 0.5, 1.0, 3.0, 100.0, 1e30, INF]
SUB_FLAGGED = [-INF, -1.0, -0.0, 0.0, 1.0, INF]       # endpoints used for the maybe-NaN flag variants
UNARY = "square sqrt neg sin cos tan asin acos atan exp abs log recip".split()
BINARY = "add mul min max sub div atan2 mod nanfill compare".split()

# ---------------------------------------------------------------------------------- float helpers


def f32(x):
    return struct.unpack("<f", struct.pack("<f", x))[0]


def h(x):
    return "%08x" % struct.unpack("<I", struct.pack("<f", x))[0]


def uf(hx):
    return struct.unpack("<f", struct.pack("<I", int(hx, 16)))[0]


def isneg0(hx):
    return hx == "80000000"


def ulp(x):
    x = abs(x)
    if x == 0 or math.isinf(x) or math.isnan(x):
        return 1.401298464324817e-45
    e = math.frexp(x)[1]
    return max(2.0 ** (e - 24), 1.401298464324817e-45)


EXACT = {"add", "sub", "mul", "div", "min", "max", "neg", "abs", "square", "recip", "nanfill", "compare", "mod",
         "const-var"}
ANGLE = {"sin", "cos", "tan", "asin", "acos", "atan", "atan2"}


def slack(op, r, bound):
    """Tolerance granted to the point kernel beyond the reported bound (the property's 'up to rounding'):
    exact single-operation kernels 0; sqrt 2 ulp (Eigen's rsqrt refinement); Eigen/libm transcendental
    kernels 8 ulp + 2e-7 absolute for O(1)-valued angle functions (different libm entry points round
    differently) + the smallest normal (denormal flush); nth_root: powf(a, 1.0f/k) carries the rounding
    of 1/k amplified by |ln a| (<= 89): 8e-6 relative."""
    m = max(abs(r), abs(bound)) if not (math.isinf(r) or math.isinf(bound)) else 0.0
    if op in EXACT:
        return 0.0
    if op == "sqrt":
        return 2 * ulp(m)
    if op == "nth-root":
        return 8e-6 * m + 1.2e-38
    t = 8 * ulp(m) + 1.2e-38
    if op in ANGLE:
        t += 2e-7
    return t


class Obs:
    """one suspicious point as printed by the harness (`esc` line)"""
    __slots__ = ("why", "op", "A", "B", "R", "a", "b", "r", "raw", "extra")

    def __init__(self, w, raw):
        self.why, self.op = w[1], w[2]
        self.A = (uf(w[3]), uf(w[4]), w[5] == "1")
        self.B = (uf(w[6]), uf(w[7]), w[8] == "1")
        self.R = (uf(w[10]), uf(w[11]), w[12] == "1")
        self.a, self.b, self.r = uf(w[14]), uf(w[15]), uf(w[17])
        self.raw = raw
        self.extra = w[18:]

    def is_violation(self):
        if self.R[2]:
            return False
        if math.isnan(self.r):
            return True
        lo, hi = self.R[0], self.R[1]
        if math.isnan(lo) or math.isnan(hi):
            return True
        if self.r < lo:
            return (lo - self.r) > slack(self.op, self.r, lo) or math.isinf(self.r) or math.isinf(lo)
        if self.r > hi:
            return (self.r - hi) > slack(self.op, self.r, hi) or math.isinf(self.r) or math.isinf(hi)
        return False

    def strong_break(self):
        """flagged result whose bounds do not contain the (non-NaN) value, beyond the slack"""
        if not self.R[2] or math.isnan(self.r):
            return False
        lo, hi = self.R[0], self.R[1]
        if math.isnan(lo) or math.isnan(hi):
            return True
        if self.r < lo:
            return (lo - self.r) > slack(self.op, self.r, lo) or math.isinf(self.r) or math.isinf(lo)
        if self.r > hi:
            return (self.r - hi) > slack(self.op, self.r, hi) or math.isinf(self.r) or math.isinf(hi)
        return False

    def clause(self):
        return self.extra[self.extra.index("clause") + 1] if "clause" in self.extra else None

    def describe(self):
        def iv(I):
            return "[%r,%r]%s" % (I[0], I[1], "?" if I[2] else "")
        return "%s(%s, %s) reported %s but at (%r, %r) the value is %r" % (
            self.op, iv(self.A), iv(self.B), iv(self.R), self.a, self.b, self.r)


def has_zero(I):
    return I[0] <= 0 <= I[1]


def classify(o):
    """Map a violating observation to the key of the known defect mechanism it is an instance of, or None."""
    op, A, B, R, a, b, r = o.op, o.A, o.B, o.R, o.a, o.b, o.r
    nanb = math.isnan(R[0]) or math.isnan(R[1])
    k = int(B[0]) if op in ("pow", "nth-root") and not math.isnan(B[0]) and not math.isinf(B[0]) else None
    if op == "sub":
        # operator- never tests (+inf) - (+inf)
        if A[1] == INF and B[1] == INF and ((math.isnan(r) and a == INF and b == INF) or nanb):
            return "C02:sub-pinf-pinf-flag"
    elif op == "nth-root":
        if k is not None and k % 2 == 0 and k % 4 == 2 and a < 0 and math.isnan(r):
            return "C02:nth-root-parity-flag"
        if k is not None and k % 2 == 0 and k % 4 == 2 and A[1] < 0 and nanb:
            return "C02:nth-root-parity-flag"
        if nanb and (math.isinf(A[0]) or math.isinf(A[1])):
            return "C02:nth-root-infinite-endpoint-nan-bound"
        if math.isnan(r) and math.isinf(a):
            return "C02:nth-root-infinite-endpoint-nan-bound"
    elif op in ("sin", "cos", "tan"):
        if math.isnan(r) and math.isinf(a):
            return "C02:sin-cos-tan-infinite-operand-flag"
    elif op == "mod":
        if math.isnan(a) or math.isnan(b):
            return "C02:mod-drops-maybe-nan"
        if math.isnan(r) and (math.isinf(a) or math.isinf(b)):
            return "C02:mod-infinite-operand-flag"
        if not has_zero(B) and not any(math.isinf(x) for x in A[:2] + B[:2]):
            q = max(abs(x) for x in A[:2]) / min(abs(y) for y in B[:2])
            if q >= 2.0 ** 31:
                return "C02:mod-quotient-int-overflow"
    elif op == "compare":
        if math.isnan(a) or math.isnan(b):
            return "C02:compare-drops-maybe-nan"
    elif op == "recip" or (op == "pow" and k is not None and k < 0):
        if a == 0 and A[0] == 0 and A[1] == 0 and nanb:
            return "C02:empty-boost-result-not-flagged"
        if a == 0 and math.isinf(r) and (A[0] == 0 or A[1] == 0):
            return "C02:reciprocal-zero-endpoint-sign"
    elif op == "log":
        if A[0] == 0 and A[1] == 0 and nanb:
            return "C02:empty-boost-result-not-flagged"
    elif op == "sqrt":
        if a == INF and math.isnan(r):
            return "C02:eigen-sqrt-of-inf-is-nan"
    elif op == "exp":
        if 88.3 <= a <= 88.73 and r == INF:
            return "C02:eigen-exp-saturates-before-overflow"
    if op == "pow" and k is not None and k > 0 and k % 2 == 1 and a == -INF and r == INF:
        return "C02:eigen-pow-of-neg-inf-odd-exponent"
    return None


# ---------------------------------------------------------------------------------- generators

def endpoint_values(rng, tier):
    vals = list(LANDMARKS)
    n_extra = 1 if tier == "quick" else 3
    for _ in range(n_extra):
        for lo, hi in ((3.0, 30.0), (0.0, 2.0), (-30.0, -1.0)):      # decimal exponent ranges: big, medium, small
            v = f32(rng.choice([-1, 1]) * 10 ** rng.uniform(lo, hi))
            vals.append(v)
    vals.append(f32(rng.choice([-1, 1]) * rng.uniform(0.5, 4.0)))
    # sort by value, -0 before +0, no duplicates
    keyed = sorted({h(v): v for v in vals}.items(), key=lambda kv: (kv[1], 0 if kv[0] == "80000000" else 1))
    return [v for _, v in keyed], [k for k, _ in keyed]


def grid_program(rng, tier):
    vals, hexes = endpoint_values(rng, tier)
    sub = [i for i, hx in enumerate(hexes) if any(hx == h(s) for s in SUB_FLAGGED)]
    L = ["vals %d %s" % (len(vals), " ".join(hexes)),
         "sub %d %s" % (len(sub), " ".join(map(str, sub)))]
    for op in UNARY:
        L.append("grid1 " + op)
    for op in BINARY:
        L.append("grid2 " + op)
    pow_exps = [k for k in range(-16, 17) if k != 1]
    root_exps = list(range(2, 17))
    L.append("exps %d %s" % (len(pow_exps), " ".join(map(str, pow_exps))))
    L.append("gridk pow")
    L.append("exps %d %s" % (len(root_exps), " ".join(map(str, root_exps))))
    L.append("gridk nth-root")
    return L, {"endpoint_values": len(vals), "random_values": len(vals) - len(LANDMARKS),
               "flag_variant_endpoints": len(sub), "pow_exponents": len(pow_exps), "root_exponents": len(root_exps)}


# Replays of the Lean counter-example witnesses (LibfiveTheorems/C02.lean, `*_unsound`) and of the two
# Eigen kernel quirks, on the real evaluators: (harness line, expected key)
def witness_program():
    W = [
        ("case2 sub %s %s 0 %s %s 0" % (h(1), h(INF), h(1), h(INF)), "C02:sub-pinf-pinf-flag"),
        ("casek nth-root %s %s 0 6" % (h(-1), h(1)), "C02:nth-root-parity-flag"),
        ("casek nth-root %s %s 0 2" % (h(-2), h(-1)), "C02:nth-root-parity-flag"),
        ("case1 sin %s %s 0" % (h(0), h(INF)), "C02:sin-cos-tan-infinite-operand-flag"),
        ("case1 cos %s %s 0" % (h(0), h(INF)), "C02:sin-cos-tan-infinite-operand-flag"),
        ("case1 tan %s %s 0" % (h(-INF), h(0)), "C02:sin-cos-tan-infinite-operand-flag"),
        ("case2 mod %s %s 0 %s %s 0" % (h(1), h(INF), h(1), h(2)), "C02:mod-infinite-operand-flag"),
        ("case2 mod %s %s 0 %s %s 0" % (h(1), h(2), h(1), h(INF)), "C02:mod-infinite-operand-flag"),
        ("case2 mod %s %s 1 %s %s 0" % (h(0), h(1), h(1), h(1)), "C02:mod-drops-maybe-nan"),
        ("case2 mod %s %s 0 %s %s 0" % (h(-1e30), h(-1e30), h(-100), h(-100)), "C02:mod-quotient-int-overflow"),
        ("case2 compare %s %s 1 %s %s 0" % (h(-10), h(-9), h(0), h(0)), "C02:compare-drops-maybe-nan"),
        ("case1 recip %s %s 0" % (h(-1), h(0.0)), "C02:reciprocal-zero-endpoint-sign"),
        ("casek pow %s %s 0 -1" % (h(-1), h(0.0)), "C02:reciprocal-zero-endpoint-sign"),
        ("case1 log %s %s 0" % (h(0.0), h(0.0)), "C02:empty-boost-result-not-flagged"),
        ("case1 recip %s %s 0" % (h(0.0), h(0.0)), "C02:empty-boost-result-not-flagged"),
        ("casek nth-root %s %s 0 3" % (h(1), h(INF)), "C02:nth-root-infinite-endpoint-nan-bound"),
        ("case1 sqrt %s %s 0" % (h(1), h(INF)), "C02:eigen-sqrt-of-inf-is-nan"),
        ("case1 exp %s %s 0" % (h(88.5), h(88.5)), "C02:eigen-exp-saturates-before-overflow"),
        ("casek pow %s %s 0 3" % (h(-INF), h(-3)), "C02:eigen-pow-of-neg-inf-odd-exponent"),
    ]
    return W


# fixed whole-expression witnesses (DESIGN §7): (name, program lines, box lo, box hi, lattice)
def expr_witnesses():
    c = lambda i, v: "n %d const %s" % (i, h(v))
    X, Y = "n 0 x", "n 1 y"
    E = []
    E.append(("exp(1000x)-exp(1000y)", [X, Y, c(2, 1000), "n 3 bin mul 0 2", "n 4 bin mul 1 2", "n 5 un exp 3",
                                         "n 6 un exp 4", "n 7 bin sub 5 6", "root 7"], (0, 0, 0), (1, 1, 0), 3))
    E.append(("nth_root(x,6)", [X, c(2, 6), "n 3 bin nth-root 0 2", "root 3"], (-1, 0, 0), (1, 0, 0), 5))
    E.append(("sin(exp(100x))", [X, c(2, 100), "n 3 bin mul 0 2", "n 4 un exp 3", "n 5 un sin 4", "root 5"],
              (0, 0, 0), (1, 0, 0), 3))
    E.append(("mod(exp(1000x),3)", [X, c(2, 1000), "n 3 bin mul 0 2", "n 4 un exp 3", c(5, 3), "n 6 bin mod 4 5",
                                     "root 6"], (0, 0, 0), (1, 0, 0), 3))
    E.append(("compare(sqrt(x)-10,0)", [X, "n 2 un sqrt 0", c(3, 10), "n 4 bin sub 2 3", c(5, 0),
                                         "n 6 bin compare 4 5", "root 6"], (-1, 0, 0), (1, 0, 0), 5))
    E.append(("recip(x-1)", [X, c(2, 1), "n 3 bin sub 0 2", "n 4 un recip 3", "root 4"], (0, 0, 0), (1, 0, 0), 3))
    E.append(("sqrt(exp(100x))", [X, c(2, 100), "n 3 bin mul 0 2", "n 4 un exp 3", "n 5 un sqrt 4", "root 5"],
              (0, 0, 0), (1, 0, 0), 3))
    E.append(("exp(88.5x)", [X, c(2, 88.5), "n 3 bin mul 0 2", "n 4 un exp 3", "root 4"], (0, 0, 0), (1, 0, 0), 3))
    E.append(("mod(-1e30x,-100)", [X, c(2, -1e30), "n 3 bin mul 0 2", c(4, -100), "n 5 bin mod 3 4", "root 5"],
              (1, 0, 0), (1, 0, 0), 2))
    E.append(("mod(sqrt(x),1)", [X, "n 2 un sqrt 0", c(3, 1), "n 4 bin mod 2 3", "root 4"], (-1, 0, 0), (1, 0, 0), 5))
    E.append(("min(y,log(x))", [X, Y, "n 2 un log 0", "n 3 bin min 1 2", "root 3"], (-1, -3, 0), (0, 3, 0), 3))
    # remaining corner of the hull rule: a flagged operand with a NaN bound that Boost produces itself
    E.append(("max(y,pow(x,0)) x=[0,0]", [X, Y, c(2, 0), "n 3 bin pow 0 2", "n 4 bin max 1 3", "root 4"],
              (0, -3, 0), (0, -2, 0), 2))
    E.append(("min(y,log(x)+exp(1000z)) x=[0,0]", [X, Y, "n 2 z", "n 3 un log 0", c(4, 1000), "n 5 bin mul 2 4",
                                                     "n 6 un exp 5", "n 7 bin add 3 6", "n 8 bin min 1 7", "root 8"],
              (0, -3, 0), (0, 3, 1), 3))
    E.append(("log(x) on [0,0]", [X, "n 2 un log 0", "root 2"], (0, 0, 0), (0, 0, 0), 2))
    return E


ALL_UNARY = gen.UNARY_EXACT + gen.UNARY_TRANS
ALL_BINARY = gen.BINARY_EXACT + gen.BINARY_OTHER


def rand_box(rng):
    """boxes: ordinary, degenerate, tiny, huge, straddling zeros / poles / domain edges"""
    kind = rng.choice(["ordinary", "ordinary", "degenerate", "tiny", "huge", "straddle", "edge", "unit"])
    lo, hi = [], []
    for ax in range(3):
        if kind == "ordinary":
            a, b = sorted([rng.uniform(-4, 4), rng.uniform(-4, 4)])
        elif kind == "degenerate":
            a = rng.choice([0.0, 1.0, -1.0, rng.uniform(-3, 3)])
            b = a if rng.random() < 0.7 else a + rng.uniform(0, 2)
        elif kind == "tiny":
            c = rng.choice([0.0, 1.0, -1.0, 0.5, rng.uniform(-3, 3)])
            w = 10 ** rng.uniform(-30, -3)
            a, b = c - w * rng.random(), c + w * rng.random()
        elif kind == "huge":
            m = 10 ** rng.uniform(3, 30)
            a, b = rng.choice([(-m, m), (m / 1000, m), (-m, -m / 1000), (-m, 1.0), (0.0, m)])
        elif kind == "straddle":
            a, b = -rng.uniform(0, 3), rng.uniform(0, 3)
        elif kind == "edge":
            a, b = rng.choice([(-1.0, 1.0), (0.0, 1.0), (-1.0, 0.0), (1.0, 2.0), (-2.0, -1.0), (0.0, 0.0),
                               (-math.pi, math.pi), (0.0, math.pi / 2)])
        else:
            a, b = rng.choice([(0.0, 1.0), (-1.0, 1.0)])
        a, b = f32(a), f32(b)
        if a > b:
            a, b = b, a
        lo.append(a)
        hi.append(b)
    return kind, tuple(lo), tuple(hi)


def expr_program(rng, n):
    L, meta = [], []
    for k in range(n):
        style = rng.choice(["csg", "arith", "trans", "all"])
        if style == "csg":
            o = dict(size=rng.randint(4, 14), p_minmax=0.45, unary=gen.UNARY_EXACT, binary=gen.BINARY_EXACT)
        elif style == "arith":
            o = dict(size=rng.randint(3, 12), p_minmax=0.15, unary=gen.UNARY_EXACT,
                     binary=gen.BINARY_EXACT + ["mod", "compare", "nanfill"])
        elif style == "trans":
            o = dict(size=rng.randint(3, 10), p_minmax=0.2, unary=ALL_UNARY, binary=gen.BINARY_EXACT + ["atan2"])
        else:
            o = dict(size=rng.randint(3, 12), p_minmax=0.2, unary=ALL_UNARY, binary=ALL_BINARY)
        g = gen.TreeGen(rng, **o)
        root = g.build()
        L.append("case e%d" % k)
        L += g.lines
        L.append("root %d" % root)
        boxes = []
        for _ in range(3):
            kind, lo, hi = rand_box(rng)
            extra = [gen.rand_point(rng, lo, hi, lattice=0.5) for _ in range(4)] if all(
                math.isfinite(v) for v in lo + hi) else []
            L.append("box %s %s %d %s" % (gen.pt_hex(lo), gen.pt_hex(hi), 4, " ".join(gen.pt_hex(p) for p in extra)))
            boxes.append(kind)
        meta.append({"style": style, "nodes": g.next, "hist": g.hist, "boxes": boxes})
    return L, meta


# ---------------------------------------------------------------------------------- the check

def run(rep, tier, seed, replay=None):
    import random
    rng = random.Random(seed * 104729 + 2)
    aud = common.audit("C02")
    exe = common.build_harness("interval")
    work = os.path.join(common.BUILD, "work")
    os.makedirs(work, exist_ok=True)

    grid, grid_meta = grid_program(rng, tier)
    wit = witness_program()
    ew = expr_witnesses()
    n_expr = 150 if tier == "quick" else 6000
    exprs, expr_meta = expr_program(rng, n_expr)
    prog = list(grid)
    prog += [w for w, _ in wit]
    for name, lines, lo, hi, g in ew:
        prog.append("case w:" + name.replace(" ", "_"))
        prog += lines[:-1] + [lines[-1]]
        prog.append("box %s %s %d" % (gen.pt_hex(tuple(f32(v) for v in lo)), gen.pt_hex(tuple(f32(v) for v in hi)), g))
    corpus_dir = os.path.join(common.VERIF, "corpus", "C02")
    if os.path.isdir(corpus_dir):
        for f in sorted(os.listdir(corpus_dir)):
            prog += [l.rstrip("\n") for l in open(os.path.join(corpus_dir, f)) if l.strip()]
    prog += exprs
    pf = os.path.join(work, "c02-%d-%s.prog" % (seed, tier))
    with open(pf, "w") as f:
        f.write("\n".join(prog) + "\n")

    r = common.run_harness(exe, [pf], timeout=1500)
    if r.returncode != 0 or not r.stdout.rstrip().endswith(tuple("0123456789")) or "done cases" not in r.stdout[-200:]:
        rep.violation("interval harness crashed rc=%d: %s" % (r.returncode, r.stderr[-800:]),
                      {"kind": "harness-crash", "program": pf, "stderr": r.stderr[-4000:]}, no_input=True)
        return rep.finish("proof", common.proof_coverage(aud, {"evaluations": 0}), ASSUMPTIONS)
    out_lines = r.stdout.splitlines()

    # ---- stream 1: the tie (flag + case selection recomputed by the model)
    verdicts = common.run_driver("c02", r.stdout, timeout=600).splitlines()
    mism = [v for v in verdicts if v.startswith("MISMATCH")]
    summary = [v for v in verdicts if v.startswith("summary")]
    stats = {}
    for v in verdicts:
        if v.startswith("stat "):
            w = v.split()
            stats[w[1]] = {"cases": int(w[2]), "flagged": int(w[3])}
    drv_ok = int(summary[0].split()[2]) if summary else 0

    # ---- streams 2 + 3: the oracle
    n_r = n_x = n_pts = n_r_tape = 0
    rnd_leak = []
    observations = []
    root_escapes = []          # (rootesc line, x line, {clause id: Obs})
    cur_x = None
    cur_obs = {}
    per_op_cases = {}
    for ln in out_lines:
        w = ln.split()
        if not w:
            continue
        if w[0] == "r":
            n_r += 1
            per_op_cases[w[2]] = per_op_cases.get(w[2], 0) + 1
            if w[1] == "e3":
                n_r_tape += 1
            if w[w.index("rnd") + 1] != "1":
                rnd_leak.append(ln)
            n_pts += int(w[w.index("pts") + 1])
            cur_x = None
        elif w[0] == "x":
            n_x += 1
            cur_x = ln
            cur_obs = {}
            n_pts += int(w[w.index("pts") + 1])
            if w[w.index("rnd") + 1] != "1":
                rnd_leak.append(ln)
        elif w[0] == "esc":
            o = Obs(w, ln)
            observations.append((o, cur_x))
            if cur_x is not None and o.clause() is not None:
                cur_obs.setdefault(o.clause(), []).append(o)
        elif w[0] == "rootesc":
            root_escapes.append((ln, cur_x, cur_obs))

    n_viol = 0
    by_key = {}
    unclassified = []
    for o, ctx in observations:
        if not o.is_violation():
            continue
        n_viol += 1
        key = classify(o)
        if key is None:
            unclassified.append((o, ctx))
        else:
            by_key.setdefault(key, []).append((o, ctx))
    for key, lst in sorted(by_key.items()):
        o, ctx = lst[0]
        rep.violation("interval result not flagged maybe-NaN but a point inside the operands evaluates outside it: "
                      + o.describe(),
                      {"kind": "oracle", "mechanism": key, "instances": len(lst), "first": o.raw, "context": ctx,
                       "more": [x.raw for x, _ in lst[1:6]],
                       "how": "put the corresponding case1/case2/casek line (see harness/interval.cpp header) after a "
                              "`vals` line into a file and run .build/plain/harness/interval <file>"},
                      key=key)
    # a different violation (other opcode / other mechanism): one report per opcode
    seen_ops = set()
    for o, ctx in unclassified:
        if o.op in seen_ops:
            continue
        seen_ops.add(o.op)
        rep.violation("interval result not flagged maybe-NaN but a point inside the operands evaluates outside it: "
                      + o.describe(),
                      {"kind": "oracle", "opcode": o.op, "observation": o.raw, "context": ctx,
                       "decoded": o.describe(),
                       "others": [x.raw for x, _ in unclassified if x.op == o.op][1:6]}, key=None)
    # root-level violations of whole expressions: explained by their origin clause.  Unflagged origins
    # are judged above (within slack = rounding amplified downstream).  A FLAGGED origin whose bounds do
    # not contain its non-NaN value means a consumer (min/max/nanfill hull rule) trusted those bounds.
    n_root_flagged_origin = 0
    for ln, xline, obs in root_escapes:
        w = ln.split()
        origin = w[w.index("origin") + 1]
        if origin == "-1":
            rep.violation("expression value escapes an unflagged root interval and no clause is responsible: " + ln,
                          {"kind": "oracle", "line": ln, "case": xline, "program": pf}, key=None)
            continue
        for o in obs.get(origin, []):
            if o.strong_break():
                n_root_flagged_origin += 1
                nanb = math.isnan(o.R[0]) or math.isnan(o.R[1])
                key = "C02:flagged-nan-bounds-hull-rule" if nanb else None
                rep.violation("root interval not flagged, but the value escapes it: a flagged operand's bounds do not "
                              "contain its non-NaN value and min/max/nanfill's hull rule trusted them: " + o.describe()
                              + " ; " + ln,
                              {"kind": "oracle", "mechanism": key, "origin": o.raw, "root": ln, "case": xline,
                               "program": pf}, key=key)
    for ln in rnd_leak[:1]:
        rep.violation("rounding mode not restored after interval evaluation: " + ln,
                      {"kind": "oracle", "line": ln}, key=None)

    # witnesses: listed mechanisms must still be observable, repaired ones must not reproduce (if one did,
    # its key is no longer listed, so it has been reported as a VIOLATION above)
    reproduced = sorted(by_key)
    listed = {k["key"] for k in rep.known}
    hull = [1 for h in rep.known_hits if h[0] == "C02:flagged-nan-bounds-hull-rule"]
    expected = sorted({k for _, k in wit})
    not_reproduced = [k for k in expected if k not in by_key]
    listed_not_reproduced = [k for k in sorted(listed) if k not in by_key and not (k == "C02:flagged-nan-bounds-hull-rule" and hull)]
    if listed_not_reproduced:
        common.log("C02: listed findings that did not reproduce (fixed? move them to 'fixed'): %s" % ", ".join(listed_not_reproduced))

    # ---- tie verdicts
    found_input = bool(by_key) or bool(unclassified)
    if mism:
        # search: the oracle has already run on the disagreeing case and its whole neighbourhood (same grid)
        ops = sorted({m.split()[2] for m in mism})
        unl = [o for o, _ in unclassified if o.op in ops]
        rep.violation("model/implementation correspondence broken (stream C02.ops, opcodes %s): %s"
                      % (",".join(ops), mism[0][:400]),
                      {"kind": "correspondence", "stream": "C02.ops (LibfiveModel/Interval.lean: iop)",
                       "mismatches": len(mism), "first": mism[:5],
                       "theorems_affected": ["Libfive.C02.op_enclosure", "Libfive.C02.tape_enclosure_partial"]},
                      no_input=not unl)
    drv_mism = int(summary[0].split()[4]) if summary else 0
    if not summary or drv_ok + drv_mism < n_r:
        rep.violation("driver did not judge every case: %s" % (summary[:1],),
                      {"kind": "correspondence", "summary": summary, "cases": n_r}, no_input=True)
    if not aud["ok"]:
        common.report_broken_proof(rep, aud)

    hist = {}
    for m in expr_meta:
        for k, v in m["hist"].items():
            hist[k] = hist.get(k, 0) + v
    cov = common.proof_coverage(aud, {
        "evaluations": n_r + n_x,
        "distinct_nontrivial": len(stats),
        "rule": "opcode cases: every opcode x every ordered pair of endpoint values (landmarks + seeded random finite values) "
                "x flag variants x exponents; distinct_nontrivial = number of distinct (opcode, authored decision) classes "
                "exercised, each with its case count in correspondence.decisions; expression cases: generated DAG x box",
        "exhaustive_over": "endpoint order-types of the landmark set " + repr(LANDMARKS),
        "correspondence": {"opcode_cases": n_r, "of_which_clauses_of_generated_tapes": n_r_tape, "verdicts_ok": drv_ok, "mismatch": len(mism),
                           "decisions": stats, "per_opcode_cases": per_op_cases, **grid_meta},
        "oracle": {"points_evaluated": n_pts, "expression_box_cases": n_x, "suspicious_points_printed": len(observations),
                   "violations_after_slack": n_viol, "by_mechanism": {k: len(v) for k, v in by_key.items()},
                   "unclassified": len(unclassified), "root_escapes": len(root_escapes),
                   "root_escapes_from_flagged_origin": n_root_flagged_origin, "witness_mechanisms_reproduced": reproduced,
                   "repaired_witnesses_not_reproducing": [k for k in not_reproduced if k not in listed],
                   "listed_findings_not_reproduced": listed_not_reproduced},
        "distribution": {"expr_styles": {s: sum(1 for m in expr_meta if m["style"] == s) for s in ("csg", "arith", "trans", "all")},
                         "box_kinds": {k: sum(m["boxes"].count(k) for m in expr_meta) for k in
                                       ("ordinary", "degenerate", "tiny", "huge", "straddle", "edge", "unit")},
                         "mean_nodes": sum(m["nodes"] for m in expr_meta) / max(1, len(expr_meta)),
                         "opcode_histogram": hist},
        "samples": [l for l in out_lines if l.startswith("r ")][:2] + [l for l in out_lines if l.startswith("x ")][:2],
    })
    cov["trusted_base"] = cov["trusted_base"] + [
        "Boost.Interval primitives' contracts (hypotheses of every C02 theorem)",
        "Eigen array kernels and libm within the stated slack (tools/checks/c02.py: slack)"]
    return rep.finish("proof", cov, ASSUMPTIONS)
