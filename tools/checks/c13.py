"""C13 — tree handles are memory-safe and leak-free under any call sequence."""
import os
import random
import re
import subprocess

import common
import gen_treeops as G

ASSUMPTIONS = [
    "Theorems are about the Lean model of the intrusive refcount (LibfiveModel/RefCount.lean): every operation is the "
    "composition of micro-steps (refcount++, the explicit-stack destructor loop, node construction) that the C++ performs; "
    "tree-building calls are modelled with an arbitrary admissible outcome (which nodes the call leaves allocated and what "
    "it returns), so the theorems hold for every simplification/optimisation result, not only the ones libfive computes.",
    "Tie: after every operation of seeded random sequences over the Tree value type AND the C API the real "
    "verif::live_nodes counter, every handle's target and refcount and (registry <= 400 nodes) every live node's refcount "
    "equal the model's prediction; the outcome of building calls (new nodes, result) is read from the real heap via the "
    "allocation/delete hook events.",
    "The allocator and the C++ object-lifetime rules for temporaries are not modelled. AddressSanitizer/LeakSanitizer runs "
    "of the same sequences are a validator (exploration), not a proof.",
    "Oracles (TreeOracle nodes) are not exercised here (C16).",
]

SLOT_LIMIT_KB = 256      # native stack given to the plain harness: recursion over 10^5+ nodes would overflow it


def _tail(err, n):
    """stderr without the evaluator's 'uninitialized variable' chatter"""
    return "\n".join(l for l in err.splitlines() if "uninitialized variable" not in l)[-n:]


def gen_sequences(rng, tier):
    """returns list of (name, program lines, meta)"""
    seqs = []
    nseq, nops = (200, 400) if tier == "quick" else (1500, 600)
    styles = ["mixed", "value", "capi", "alias"]
    for k in range(nseq):
        g = G.SeqGen(rng, pool=rng.choice([8, 14, 20]), style=styles[k % 4])
        g.random_ops(rng.randint(nops // 2, nops))
        g.cleanup()
        seqs.append(("random-" + g.style, g))
    # wide DAG built from ordinary operations (every step observed)
    g = G.SeqGen(rng, pool=20, style="value")
    depth = 7 if tier == "quick" else 10
    root = g.balanced(depth, rng.choice(["min", "max", "add", "mul"]))
    g.emit("vprint", root)
    d = g.dead()
    g.emit("vopt", d, root); g.set(d, "tree", [root])
    g.emit("veval", d)
    g.cleanup()
    seqs.append(("balanced-%d" % depth, g))
    return seqs


def deep_program(rng, tier, asan=False):
    """chains of 10^5..10^6 nodes destroyed at once, fan-in of 10^5 parents on one leaf, 2^n-path DAGs"""
    big = (100000 if asan else 1000000)
    if tier == "quick":
        big = 30000 if asan else 300000
    progs = []
    k = 0

    def seq(lines):
        nonlocal k
        progs.append(["seq %d 16" % (1000 + k)] + lines + ["endseq"])
        k += 1
    un = rng.choice(["sin", "cos", "exp", "atan"])
    seq(["vxyz 5 0", "mchainun 6 5 %s %d" % (un, big), "vsize 6", "vcopy 7 6", "vdestroy 6", "vdestroy 7", "vdestroy 5"])
    seq(["vxyz 5 1", "vvar 6", "mchainbin 7 5 6 %s %d" % (rng.choice(["min", "max", "atan2", "mod"]), big // 2),
         "vdestroy 6", "vdestroy 5", "vrelease 8 7", "vdestroy 7", "cdelete 8"])
    seq(["vxyz 5 2", "mchainself 6 5 add %d" % (big // 4), "vmove 7 6", "vdestroy 6", "vdestroy 5", "vdestroy 7"])
    seq(["vxyz 5 0", "vvar 6", "mfan 7 5 6 %s %s %d" % (rng.choice(["sin", "abs"]), rng.choice(["min", "max"]), big // 4),
         "vdestroy 5", "vdestroy 7", "vdestroy 6"])
    # deep chains through every child slot of the remap / apply node kinds (the quantifier names them): the
    # destructor must move ALL members onto its heap work stack, whichever slot the chain runs through
    deep2 = big // 4
    pr = rng.randrange(4)
    seq(["vxyz 5 0", "vxyz 6 1", "mchainremap 7 5 6 %d %d" % (pr, deep2), "vcopy 8 7", "vdestroy 7", "vdestroy 8",
         "vdestroy 6", "vdestroy 5"])
    seq(["vxyz 5 2", "vxyz 6 0", "mchainremap 7 5 6 %d %d" % ((pr + 1 + rng.randrange(3)) % 4, deep2), "vdestroy 6",
         "vdestroy 5", "vdestroy 7"])
    seq(["vxyz 5 0", "vvar 6", "vxyz 7 1", "mchainapply 8 5 6 7 0 %d" % deep2, "vdestroy 7", "vdestroy 6", "vdestroy 5",
         "vdestroy 8"])
    seq(["vxyz 5 1", "vvar 6", "vxyz 7 2", "mchainapply 8 5 6 7 1 %d" % deep2, "vmove 9 8", "vdestroy 8", "vdestroy 9",
         "vdestroy 7", "vdestroy 6", "vdestroy 5"])
    # copy-assignment from a Tree stored inside the node the handle is the LAST owner of (t = t->lhs(), the
    # idiom of walking down a tree): the old node must not be released before the new reference is taken
    seq(["vxyz 5 0", "vxyz 6 1", "vunary 7 sin 5", "vunary 8 cos 6", "vbinary 9 mul 7 8", "vdestroy 7", "vdestroy 8",
         "machild 9 1", "vsize 9", "machild 9 0", "vsize 9", "vdestroy 9", "vdestroy 6", "vdestroy 5"])
    seq(["vxyz 5 2", "mchainun 6 5 %s 200" % rng.choice(["sin", "exp"])] + ["machild 6 0"] * 40 +
        ["vsize 6", "vdestroy 6", "vdestroy 5"])
    # optimise + print a moderately deep chain, evaluator on a 2000-deep one
    m = 20000 if not asan else 5000
    seq(["vxyz 5 0", "mchainun 6 5 sin %d" % m, "vopt 7 6", "vprint 6", "vdestroy 6", "vdestroy 7", "vdestroy 5"])
    seq(["vxyz 5 0", "mchainun 6 5 cos 2000", "veval 6", "cevnew 0 6", "vdestroy 6", "cevuse 0", "cevdel 0", "vdestroy 5"])
    out = []
    for p in progs:
        out += p
    return out


def run_treeops(exe, lines, tag, stack_kb=None, timeout=900):
    work = os.path.join(common.BUILD, "work")
    os.makedirs(work, exist_ok=True)
    pf = os.path.join(work, "c13-%s.prog" % tag)
    of = os.path.join(work, "c13-%s.out" % tag)
    with open(pf, "w") as f:
        f.write("\n".join(lines) + "\n")
    if os.path.exists(of):
        os.remove(of)
    if stack_kb:
        r = common.run_harness("/bin/sh", ["-c", 'ulimit -s %d && exec "$0" "$@"' % stack_kb, exe, pf, of], timeout=timeout)
    else:
        r = common.run_harness(exe, [pf, of], timeout=timeout)
    text = open(of).read() if os.path.exists(of) else ""
    return r, text, pf


def oracle(rep, text, tag, pf, stats):
    """Property oracle on the real code, independent of the model: after deleting every handle the number of live
    nodes is back to the baseline (the five statics)."""
    bad = False
    for ln in text.splitlines():
        if ln.startswith("endseq"):
            w = ln.split()
            live, base, open_slots = int(w[3]), int(w[5]), int(w[7])
            stats["sequences"] += 1
            stats["events"] = int(w[11])
            if open_slots == 0 and live != base:
                bad = True
                rep.violation("leak: %d nodes still alive after every handle of sequence %s was deleted (baseline %d) [%s]"
                              % (live - base, w[1], base, tag),
                              {"kind": "oracle-leak", "program": pf, "line": ln,
                               "how": ".build/plain/harness/treeops <program> /tmp/out; grep endseq /tmp/out"})
    return bad


def run(rep, tier, seed, replay=None):
    rng = random.Random(seed * 104729 + 13)
    aud = common.audit("C13")
    exe = common.build_harness("treeops")
    stats = {"sequences": 0, "events": 0, "ops": 0, "ops_by_kind": {}, "built_nodes": 0, "exceptions": 0,
             "null_results": 0, "obs_with_full_registry": 0}
    found_input = False
    mism_total, ok_total = [], 0

    def correspond(text, tag, pf):
        nonlocal ok_total
        verdicts = common.run_driver("c13", text, timeout=1200).splitlines()
        ok_total += sum(1 for v in verdicts if v.startswith("ok"))
        for v in verdicts:
            if v.startswith("MISMATCH"):
                mism_total.append((tag, pf, v))
        for ln in text.splitlines():
            if ln.startswith("op "):
                stats["ops"] += 1
                k = ln.split()[1]
                stats["ops_by_kind"][k] = stats["ops_by_kind"].get(k, 0) + 1
            elif ln.startswith("built "):
                stats["built_nodes"] += int(ln.split()[1])
            elif ln.startswith("mbuilt "):
                stats["built_nodes"] += int(ln.split()[1])
            elif ln.startswith("exc "):
                stats["exceptions"] += 1
            elif ln.startswith("nullres"):
                stats["null_results"] += 1
            elif ln.startswith("obs ") and " all" in ln:
                stats["obs_with_full_registry"] += 1

    # ---- 1. random sequences, plain build, reduced native stack
    seqs = gen_sequences(rng, tier)
    prog = []
    for k, (name, g) in enumerate(seqs):
        prog += g.program(k)
    r, text, pf = run_treeops(exe, prog, "%d-%s-random" % (seed, tier), stack_kb=SLOT_LIMIT_KB)
    if r.returncode != 0 or "done " not in text:
        found_input = True
        last = [l for l in text.splitlines() if l.startswith("op ")][-1:] or ["?"]
        rep.violation("treeops crashed (rc=%d) during: %s :: %s" % (r.returncode, last[0], _tail(r.stderr, 300)),
                      {"kind": "crash", "program": pf, "last_op": last[0], "stderr": _tail(r.stderr, 3000)})
    found_input |= oracle(rep, text, "random", pf, stats)
    correspond(text, "random", pf)

    # ---- 2. deep / wide destruction with a 256 kB stack
    dprog = deep_program(rng, tier)
    r, text, pfd = run_treeops(exe, dprog, "%d-%s-deep" % (seed, tier), stack_kb=SLOT_LIMIT_KB)
    if r.returncode != 0 or "done " not in text:
        found_input = True
        last = [l for l in text.splitlines() if l.startswith("op ")][-1:] or ["?"]
        rep.violation("deep-chain program crashed with a %d kB stack (rc=%d) during: %s" % (SLOT_LIMIT_KB, r.returncode, last[0]),
                      {"kind": "crash-deep", "program": pfd, "last_op": last[0], "stderr": _tail(r.stderr, 3000)})
    found_input |= oracle(rep, text, "deep", pfd, stats)
    correspond(text, "deep", pfd)

    # ---- 3. ASan/LSan validator on the same sequences (shorter deep chains)
    asan_info = {"ran": False}
    try:
        axe = common.build_harness("treeops", flavour="asan")
        aprog = prog if tier == "thorough" else prog[:len(prog) // 2 if len(prog) > 4000 else len(prog)]
        # keep sequence structure intact: cut at a sequence boundary
        if aprog is not prog:
            while aprog and not aprog[-1].startswith("endseq"):
                aprog.pop()
        aprog = aprog + deep_program(random.Random(seed), tier, asan=True)
        r, text, pfa = run_treeops(axe, aprog, "%d-%s-asan" % (seed, tier), timeout=1500)
        asan_info = {"ran": True, "rc": r.returncode, "ops": sum(1 for l in text.splitlines() if l.startswith("op "))}
        if r.returncode != 0 or "done " not in text:
            found_input = True
            m = re.search(r"ERROR: (AddressSanitizer|LeakSanitizer)[^\n]*", r.stderr)
            last = [l for l in text.splitlines() if l.startswith("op ")][-1:] or ["?"]
            rep.violation("sanitizer report / crash in the ASan flavour (rc=%d): %s during %s"
                          % (r.returncode, m.group(0) if m else _tail(r.stderr, 300), last[0]),
                          {"kind": "asan", "program": pfa, "last_op": last[0], "stderr": _tail(r.stderr, 3000)})
        found_input |= oracle(rep, text, "asan", pfa, stats)
    except RuntimeError as e:
        common.log("asan flavour unavailable: %s" % str(e)[:300])
        asan_info = {"ran": False, "why": str(e)[:300]}

    # ---- 4. dedicated scenarios for the two listed defects (fresh process each; they stay excluded from the random
    #         sequences so that everything above must be clean)
    f1 = ["seq 2000 16", "vvar 5", "vinvalid 6", "vxyz 7 0", "vapply 8 7 5 6", "vflat 9 8", "vdestroy 9", "vdestroy 8",
          "vdestroy 7", "vdestroy 6", "vdestroy 5", "endseq"]
    r, text, pf1 = run_treeops(exe, f1, "%d-%s-f1" % (seed, tier), timeout=120)
    stats["finding_scenarios"] = {"flatten-invalid": r.returncode}
    if r.returncode != 0 or "done " not in text:
        rep.violation("Tree::flatten() over apply(var, Tree::invalid()) crashed (rc=%d): empty-stack pop" % r.returncode,
                      {"kind": "crash", "program": pf1, "stderr": r.stderr[-1500:],
                       "how": ".build/plain/harness/treeops <program> /tmp/out"},
                      key="C13:flatten-invalid-node-empty-stack")
    if asan_info.get("ran"):
        f2 = ["seq 2001 16", "vxyz 5 0", "vconst 6 40000000", "vbinary 7 add 5 6", "vxyz 8 1", "vremap 9 7 8 5 5",
              "vserforce 9", "vdestroy 9", "vdestroy 8", "vdestroy 7", "vdestroy 6", "vdestroy 5", "endseq"]
        f3 = ["seq 2002 16", "vxyz 5 0", "vconst 6 3f800000", "vbinary 7 add 5 6", "vxyz 8 1", "vremap 9 7 8 5 5",
              "vopt 10 7", "vmassign 9 10", "veval 10", "vdestroy 10", "vdestroy 9", "vdestroy 8", "vdestroy 7",
              "vdestroy 6", "vdestroy 5", "endseq"]
        r, text, pf3 = run_treeops(axe, f3, "%d-%s-f3" % (seed, tier), timeout=120)
        stats["finding_scenarios"]["move-assign-flags"] = r.returncode
        if r.returncode != 0:
            m = re.search(r"ERROR: AddressSanitizer: ([a-z-]+)", r.stderr)
            if m and m.group(1) == "heap-use-after-free" and "Deck::Deck" in r.stderr:
                rep.violation("evaluator built from the source of a move-assignment: AddressSanitizer heap-use-after-free in Deck::Deck",
                              {"kind": "asan", "program": pf3, "stderr": _tail(r.stderr, 3000),
                               "how": ".build/asan/harness/treeops <program> /tmp/out"},
                              key="C13:move-assign-stale-optimized-flag")
            else:
                rep.violation("sanitizer report in the move-assign scenario (rc=%d): %s" % (r.returncode, _tail(r.stderr, 300)),
                              {"kind": "asan", "program": pf3, "stderr": _tail(r.stderr, 3000)})
        r, text, pf2 = run_treeops(axe, f2, "%d-%s-f2" % (seed, tier), timeout=120)
        stats["finding_scenarios"]["serialize-remap"] = r.returncode
        if r.returncode != 0:
            m = re.search(r"ERROR: AddressSanitizer: ([a-z-]+)", r.stderr)
            if m and m.group(1) == "heap-use-after-free" and "Serializer::serializeTree" in r.stderr:
                rep.violation("Tree::serialize of a remapped tree: AddressSanitizer heap-use-after-free in Serializer::serializeTree",
                              {"kind": "asan", "program": pf2, "stderr": r.stderr[:3000],
                               "how": ".build/asan/harness/treeops <program> /tmp/out"},
                              key="C13:serialize-remap-use-after-free")
            else:
                rep.violation("sanitizer report in the serialize-remap scenario (rc=%d): %s" % (r.returncode, r.stderr[:300]),
                              {"kind": "asan", "program": pf2, "stderr": r.stderr[:3000]})

    # ---- verdicts
    if mism_total and not found_input:
        tag, pfm, v = mism_total[0]
        rep.violation("model/implementation correspondence broken (stream C13.treeops/%s): %s" % (tag, v[:400]),
                      {"kind": "correspondence", "stream": "C13.treeops (LibfiveModel/RefCount.lean: step)", "program": pfm,
                       "verdicts": [m[2] for m in mism_total[:10]],
                       "theorems_affected": ["Libfive.C13.rc_invariant", "Libfive.C13.leak_free"]}, no_input=True)
    if not aud["ok"] and not found_input:
        common.report_broken_proof(rep, aud)
    distinct = len({tuple(g.lines) for _, g in seqs})
    cov = common.proof_coverage(aud, {
        "evaluations": stats["ops"], "distinct_nontrivial": stats["ops"] - stats["null_results"],
        "rule": "each evaluation is one operation on the pool followed by a full comparison of live-node count, handle "
                "targets and refcounts; non-trivial = everything except calls that return nullptr without effect",
        "correspondence": {"verdicts_ok": ok_total, "mismatch": len(mism_total), **stats,
                           "sequences_random": len(seqs), "distinct_sequences": distinct,
                           "styles": {s: sum(1 for n, _ in seqs if n.endswith(s)) for s in ("mixed", "value", "capi", "alias")},
                           "stack_limit_kb": SLOT_LIMIT_KB, "asan": asan_info},
        "samples": [seqs[0][1].lines[:12], dprog[:8]],
    })
    return rep.finish("proof", cov, ASSUMPTIONS)
