"""C06 — gradients are the derivatives of the evaluated function."""
import math
import os
import random

import common
import gen
import gen_c06 as G

ASSUMPTIONS = [
    "Theorems are over the reals (Mathlib) about the Lean model of eval_deriv_array.cpp / eval_jacobian.cpp / eval_feature.cpp (LibfiveModel/Deriv.lean); float rounding is not modelled.",
    "Tie: every derivative kernel the real evaluator executes in the run is recomputed by the model from the real operand values and lanes (exact for selection kernels, f32/f64-gap tolerance for FMA-contracted ones); Jacobian packing and feature lists are predicted from the real scratch; Feature::push / check are an oracle answered from a table of the real answers.",
    "Oracle: independent forward-mode reference semantics of the generated expression in binary64 (tools/gen_c06.py), only at points the reference classifies as smooth and well conditioned (binary32 simulation agrees); feature gradients against the brute-force set of branch-selection gradients.",
    "Feature::check geometry (polytope test) is not verified, only that whatever it answers the reported gradients are branch gradients.",
]

TOL = 1e-3
NAN = float("nan")


def fin(x):
    return x == x and abs(x) != float("inf")


def close(real, ref, tol=TOL):
    return fin(real) and abs(real - ref) <= tol * max(1.0, abs(ref))


# ----------------------------------------------------------------------------- case generation

def smooth_case(rng, cid, with_vars):
    style = rng.choice(["arith", "trans", "csg", "all"])
    if style == "arith":
        opts = dict(unary=["neg", "abs", "square", "sqrt", "recip"], binary=["add", "sub", "mul", "div", "pow", "nth-root", "mod"],
                    p_minmax=0.1)
    elif style == "trans":
        opts = dict(unary=G.SMOOTH_UNARY, binary=["add", "sub", "mul", "atan2", "div"], p_minmax=0.05, p_unary=0.5)
    elif style == "csg":
        opts = dict(unary=["neg", "abs", "square"], binary=["add", "sub", "mul"], p_minmax=0.4)
    else:
        opts = dict(unary=G.SMOOTH_UNARY, binary=G.SMOOTH_BINARY, p_minmax=0.15)
    nv = rng.choice([1, 2, 3]) if with_vars else 0
    g = G.SmoothGen(rng, size=rng.randint(3, 14), nvars=nv, p_cvars=0.15 if with_vars else 0.0, **opts)
    root = g.build()
    lines = ["case %d" % cid] + g.lines
    vv = {}
    for v in g.vars:
        vv[v] = gen.f32(rng.uniform(-1.5, 1.5))
        lines.append("varval %d %s" % (v, gen.f2hex(vv[v])))
    lines.append("root %d" % root)
    queries = []
    n = rng.randint(1, 256)
    pts = [gen.rand_point(rng, (-2, -2, -2), (2, 2, 2), lattice=0.15) for _ in range(n)]
    for p in pts[:5]:
        lines.append("deriv %s" % gen.pt_hex(p))
        queries.append(("deriv", p))
        if with_vars:
            lines.append("jac %s" % gen.pt_hex(p))
            queries.append(("jac", p))
    lines.append("derivs %d %s" % (n, " ".join(gen.pt_hex(p) for p in pts)))
    queries.append(("derivs", pts))
    lines.append("end")
    return dict(id=str(cid), style="smooth-" + style + ("-vars" if with_vars else ""), lines=lines, kind=g.kind,
                root=root, vv=vv, vars=list(g.vars), queries=queries, hist=g.hist, batch=n)


def jac_case(rng, cid, nvars):
    b, root, blocked = G.jacobian_case(rng, nvars)
    lines = ["case %d" % cid] + b.lines
    vv = {}
    for v in b.vars:
        vv[v] = gen.f32(rng.uniform(-1, 1))
        lines.append("varval %d %s" % (v, gen.f2hex(vv[v])))
    lines.append("root %d" % root)
    queries = []
    for _ in range(2):
        p = gen.rand_point(rng, (-1, -1, -1), (1, 1, 1), lattice=0.0)
        lines.append("jac %s" % gen.pt_hex(p))
        queries.append(("jac", p))
    p = gen.rand_point(rng, (-1, -1, -1), (1, 1, 1), lattice=0.0)
    lines.append("deriv %s" % gen.pt_hex(p))       # spatial seeds must be back after gradient()
    queries.append(("deriv", p))
    lines.append("end")
    return dict(id=str(cid), style="jacobian", lines=lines, kind=b.kind, root=root, vv=vv, vars=list(b.vars),
                queries=queries, hist=b.hist, nvars=nvars, blocked=len(blocked))


def feat_case(rng, cid, style):
    b, root, pts = G.feature_case(rng, style)
    lines = ["case %d" % cid] + b.lines + ["root %d" % root]
    queries = []
    for p in pts:
        p = tuple(gen.f32(c) for c in p)
        lines.append("feat %s" % gen.pt_hex(p))
        queries.append(("feat", p))
    lines.append("end")
    return dict(id=str(cid), style="feature-" + style, lines=lines, kind=b.kind, root=root, vv={}, vars=[],
                queries=queries, hist=b.hist)


def gen_cases(rng, tier, seed):
    big = tier != "quick"
    cases = []
    cid = 0
    for _ in range(600 if big else 110):
        cases.append(smooth_case(rng, cid, False)); cid += 1
    for _ in range(250 if big else 40):
        cases.append(smooth_case(rng, cid, True)); cid += 1
    sizes = [1, 2, 3, rng.randint(4, 12), rng.randint(13, 200), rng.randint(201, 700),
             rng.choice([766, 767, 768, 769, 770]), rng.randint(771, 800)]
    if big:
        sizes += list(range(1, 20)) + [765, 766, 767, 768, 769, 770, 771, 799, 800] + [rng.randint(20, 764) for _ in range(12)]
    for n in sizes:
        cases.append(jac_case(rng, cid, n)); cid += 1
    styles = ["csg"] * 5 + ["csg-smooth"] * 3 + ["sqrt", "pyramids", "shared", "axis", "axis"]
    for k in range(1200 if big else 160):
        cases.append(feat_case(rng, cid, styles[k % len(styles)])); cid += 1
    return cases


# ----------------------------------------------------------------------------- output parsing

def parse_harness(out_lines):
    """{case: [records]} where a record is a dict per query in program order"""
    res, cur, rec = {}, None, None
    for ln in out_lines:
        w = ln.split()
        if not w:
            continue
        t = w[0]
        if t == "case":
            cur = res.setdefault(w[1], [])
        elif cur is None:
            continue
        elif t in ("deriv", "jac", "feat", "derivs"):
            rec = {"kind": t, "w": w, "line": ln}
            cur.append(rec)
        elif t in ("fd", "flist", "inside", "fraw", "ftape") and rec is not None:
            rec[t] = w
    return res


def h2f(h):
    return gen.hex2f(h)


# ----------------------------------------------------------------------------- the check

def run(rep, tier, seed, replay=None):
    rng = random.Random(seed * 7919 + 6)
    aud = common.audit("C06")
    exe = common.build_harness("deriv")
    cases = gen_cases(rng, tier, seed)
    corpus_dir = os.path.join(common.VERIF, "corpus", "C06")
    work = os.path.join(common.BUILD, "work")
    os.makedirs(work, exist_ok=True)
    pf = os.path.join(work, "c06-%d-%s.prog" % (seed, tier))
    with open(pf, "w") as f:
        for c in cases:
            f.write("\n".join(c["lines"]) + "\n")
    r = common.run_harness(exe, [pf], timeout=1500)
    if r.returncode != 0:
        rep.violation("deriv harness crashed rc=%d: %s" % (r.returncode, r.stderr[-800:]),
                      {"kind": "harness-crash", "program": pf, "stderr": r.stderr[-4000:]}, no_input=True)
        return rep.finish("proof", common.proof_coverage(aud, {"evaluations": 0}), ASSUMPTIONS)
    out = parse_harness(r.stdout.splitlines())
    verdicts = common.run_driver("c06", r.stdout, timeout=900).splitlines()

    # driver lines per (case, q)
    hyps, mism = {}, {}
    oks = skips = 0
    vstats = {}
    for v in verdicts:
        w = v.split()
        if not w:
            continue
        case = w[w.index("case") + 1] if "case" in w else "?"
        q = int(w[w.index("q") + 1]) if "q" in w else 0
        if w[0] == "hyp":
            hyps.setdefault((case, q), set()).add(w[1])
        elif w[0] == "MISMATCH":
            mism.setdefault(case, []).append(v)
        elif w[0] == "ok":
            oks += 1
            vstats[w[1]] = vstats.get(w[1], 0) + 1
        elif w[0] == "skip":
            skips += 1

    st = {"deriv": 0, "deriv_checked": 0, "deriv_skipped": {}, "batch_points": 0, "batch_sizes": set(),
          "jac": 0, "jac_vars_checked": 0, "jac_skipped": {}, "jac_blocked_zero": 0, "feat": 0, "feat_ties": 0,
          "feat_gradients_checked": 0, "feat_multi": 0, "inside_sign": 0, "inside_zero": 0, "feat_skipped": {}}
    failed_cases = set()
    samples = []

    def skip(d, why):
        d[why] = d.get(why, 0) + 1

    def prog(c):
        return c["lines"]

    for c in cases:
        recs = out.get(c["id"], [])
        if len(recs) != len(c["queries"]):
            rep.violation("harness produced %d of %d answers for case %s" % (len(recs), len(c["queries"]), c["id"]),
                          {"kind": "harness-short", "program": prog(c)}, no_input=True)
            continue
        q = 0
        for (kind, arg), rec in zip(c["queries"], recs):
            w = rec["w"]
            if kind in ("deriv", "jac", "feat"):
                q += 1
            if kind == "deriv":
                st["deriv"] += 1
                real = [h2f(x) for x in w[4:8]]
                e = G.Ref(c["kind"], arg, c["vv"])
                v64, g64 = e.eval(c["root"])
                if e.bad:
                    skip(st["deriv_skipped"], e.bad[0])
                    continue
                e32 = G.Ref(c["kind"], arg, c["vv"], mode32=True)
                v32, g32 = e32.eval(c["root"])
                ref = [g64.get(k, 0.0) for k in "xyz"]
                r32 = [g32.get(k, 0.0) for k in "xyz"]
                if e32.bad or any(not fin(a) or abs(a - b) > TOL / 8 * max(1.0, abs(b)) for a, b in zip(r32, ref)):
                    skip(st["deriv_skipped"], "ill-conditioned")
                    continue
                st["deriv_checked"] += 1
                okv = all(close(a, b) for a, b in zip(real[:3], ref)) and close(real[3], v64)
                if not okv:
                    fd = [h2f(x) for x in rec.get("fd", ["fd", "0", "0", "0"])[1:4]]
                    key = None
                    failed_cases.add(c["id"])
                    rep.violation("gradient differs from the analytic gradient at %s: real %s reference %s (central differences %s)"
                                  % (arg, real[:3], ref, fd),
                                  {"kind": "oracle-gradient", "case": c["id"], "style": c["style"], "program": prog(c), "point": arg,
                                   "real": real, "reference_gradient": ref, "reference_value": v64, "central_differences": fd,
                                   "how": "write program lines to a file and run .build/plain/harness/deriv <file>"}, key=key)
                elif len(samples) < 3:
                    samples.append({"case": c["id"], "style": c["style"], "point": arg, "real": real[:3], "reference": ref})
            elif kind == "derivs":
                n = int(w[1])
                st["batch_sizes"].add(n)
                for k in range(n):
                    st["batch_points"] += 1
                    b = w[2 + 8 * k: 6 + 8 * k]
                    s = w[6 + 8 * k: 10 + 8 * k]
                    same = all(x == y or (h2f(x) != h2f(x) and h2f(y) != h2f(y)) or h2f(x) == h2f(y) for x, y in zip(b, s))
                    if not same:
                        failed_cases.add(c["id"])
                        rep.violation("batched derivs(%d) column %d differs from single-point deriv: %s vs %s" % (n, k, b, s),
                                      {"kind": "oracle-batch", "case": c["id"], "program": prog(c), "column": k, "batch": b, "single": s})
                        break
            elif kind == "jac":
                st["jac"] += 1
                nv = int(w[4])
                e = G.Ref(c["kind"], arg, c["vv"])
                v64, g64 = e.eval(c["root"])
                if e.bad:
                    skip(st["jac_skipped"], e.bad[0])
                    continue
                e32 = G.Ref(c["kind"], arg, c["vv"], mode32=True)
                v32, g32 = e32.eval(c["root"])
                if e32.bad:
                    skip(st["jac_skipped"], "ill-conditioned")
                    continue
                seen = set()
                for k in range(nv):
                    idx = int(w[6 + 3 * k])
                    real = h2f(w[7 + 3 * k])
                    node = c["vars"][idx]
                    seen.add(node)
                    ref = g64.get(node, 0.0)
                    r32 = g32.get(node, 0.0)
                    if not fin(r32) or abs(r32 - ref) > TOL / 8 * max(1.0, abs(ref)):
                        skip(st["jac_skipped"], "ill-conditioned-var")
                        continue
                    st["jac_vars_checked"] += 1
                    if node not in g64:
                        st["jac_blocked_zero"] += 1
                    if not close(real, ref):
                        failed_cases.add(c["id"])
                        rep.violation("d/dvar %d differs from the analytic partial derivative: real %r reference %r (%d variables)"
                                      % (idx, real, ref, nv),
                                      {"kind": "oracle-jacobian", "case": c["id"], "program": prog(c), "point": arg, "var": idx,
                                       "real": real, "reference": ref, "nvars": nv})
                        break
            elif kind == "feat":
                st["feat"] += 1
                value = h2f(w[5])
                fl = rec.get("flist")
                ins = rec.get("inside")
                if fl is None or ins is None:
                    continue
                inside = ins[1] == "1"
                if value != 0 and value == value:
                    st["inside_sign"] += 1
                    if inside != (value < 0):
                        failed_cases.add(c["id"])
                        rep.violation("isInside = %s at a point of value %r" % (inside, value),
                                      {"kind": "oracle-inside", "case": c["id"], "program": prog(c), "point": arg, "value": value})
                else:
                    st["inside_zero"] += 1
                nf = int(fl[1])
                feats = [tuple(h2f(x) for x in fl[2 + 3 * k: 5 + 3 * k]) for k in range(nf)]
                try:
                    cons, occ, nties, bad, refv = G.branch_gradients(c["kind"], c["root"], arg, c["vv"])
                except Exception as ex:   # noqa
                    skip(st["feat_skipped"], "reference-failed")
                    continue
                if bad:
                    skip(st["feat_skipped"], bad[0])
                    continue
                if not cons:
                    skip(st["feat_skipped"], "too-many-ties")
                    continue
                st["feat_ties"] += 1 if nties else 0
                st["feat_multi"] += 1 if nf > 1 else 0

                def member(d, S):
                    return all(fin(x) for x in d) and any(all(abs(a - b) <= 1e-4 * (1 + abs(b)) for a, b in zip(d, g)) for g in S)
                for d in feats:
                    st["feat_gradients_checked"] += 1
                    if member(d, cons):
                        continue
                    hy = hyps.get((c["id"], q), set())
                    if occ is not None and member(d, occ):
                        key = "C06:feature-binary-incompatible-merge"
                    else:
                        key = None
                    failed_cases.add(c["id"])
                    rep.violation("feature gradient %s at %s is not the gradient of any branch selection %s"
                                  % (d, arg, sorted(set(cons))[:8]),
                                  {"kind": "oracle-feature", "case": c["id"], "style": c["style"], "program": prog(c), "point": arg,
                                   "reported_features": feats, "branch_gradients": sorted(set(cons)),
                                   "failed_theorem_hypotheses": sorted(hy),
                                   "how": "write program lines to a file and run .build/plain/harness/deriv <file>"}, key=key)
                    break

    # ---- correspondence verdicts
    for case, ms in mism.items():
        if case in failed_cases:
            continue
        c = next((x for x in cases if x["id"] == case), None)
        rep.violation("model/implementation correspondence broken (stream C06.%s): %s" % (ms[0].split()[1], ms[0][:400]),
                      {"kind": "correspondence", "stream": "C06 (LibfiveModel/Deriv.lean: dk, jacGradient, featClauseRaw)",
                       "case": case, "program": c["lines"] if c else None, "verdicts": ms[:5],
                       "theorems_affected": ["Libfive.C06.kernel_hasDerivAt", "Libfive.C06.tape_gradient",
                                             "Libfive.C06.jacobian_packing", "Libfive.C06.feature_is_branch_gradient"]},
                      no_input=True)
    if not aud["ok"]:
        common.report_broken_proof(rep, aud)

    hist = {}
    styles = {}
    for c in cases:
        styles[c["style"]] = styles.get(c["style"], 0) + 1
        for k, v in c["hist"].items():
            hist[k] = hist.get(k, 0) + v
    st["batch_sizes"] = len(st["batch_sizes"])
    nontrivial = st["deriv_checked"] + st["jac_vars_checked"] + st["feat_ties"]
    cov = common.proof_coverage(aud, {
        "evaluations": st["deriv"] + st["jac"] + st["feat"] + st["batch_points"],
        "distinct_nontrivial": nontrivial,
        "rule": "non-trivial = a gradient compared with the reference at a smooth well-conditioned point, a variable partial "
                "compared, or a feature query sitting exactly on at least one min/max tie",
        "correspondence": {"verdicts_ok": oks, "by_stream": vstats, "mismatch": sum(len(v) for v in mism.values()),
                           "skipped": skips, "hypothesis_failures": sum(len(v) for v in hyps.values()), **st},
        "distribution": {"styles": styles, "opcodes": hist, "jacobian_sizes": [c["nvars"] for c in cases if c["style"] == "jacobian"]},
        "samples": samples,
    })
    return rep.finish("proof", cov, ASSUMPTIONS)
