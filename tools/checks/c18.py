"""C18 — standard-library shapes, CSG and transforms mean what they say."""
import math
import os
import random
import subprocess

import common
import gen
import gen_stdlib as G

ASSUMPTIONS = [
    "Theorems are over the reals (Real.sqrt / cos / sin / arctan) about the Lean transcription of stdlib_impl.cpp "
    "(LibfiveModel/Stdlib.lean) with parameters given as free variables; single-precision rounding of the evaluated "
    "field is not modelled (the property excludes points within rounding distance of the boundary).",
    "Tie: every covered C entry point of libfive_stdlib.h, called with Tree::var() parameters and generated shape "
    "arguments, must build a tree equal to the transcription's up to commutativity of + * min max and sharing; "
    "constants compared as float bits, folds of inexact kernels (cos/sin/sqrt of constants) snapped within 4 ulp.",
    "Pointer identity in Tree::binary (x*x -> square, min(a,a) -> a) is modelled by structural equality; remap is given its "
    "substitution meaning (that flatten implements it is C07's theorem).",
    "The documented sets are written by hand from the comments of libfive_stdlib.h; where the comment leaves a choice open "
    "(which side of half_space is inside, sense of rotation, polygon orientation, torus 'outer/inner' = ring/tube radius) "
    "the proved form is taken and stated in the theorem's docstring.",
    "blend_*, morph, loft*, gyroid, attract/repel, twirl, text have no crisp documented point set: tie only (text: not covered).",
]

CONE_KEY = "C18:cone_ang_z-plane-offset"
DELTA = 2e-3

INT_RANGE = {"polygon": [(1, 8)], "array_x": [(1, 8)], "array_xy": [(1, 4), (1, 4)], "array_xyz": [(1, 3), (1, 3), (1, 3)],
             "array_polar_z": [(1, 8)]}


def harness_sigs(exe):
    out = subprocess.run([exe, "--list"], stdout=subprocess.PIPE, text=True, timeout=60).stdout
    sigs = {}
    for l in out.splitlines():
        w = l.split()
        if w:
            sigs[w[0]] = w[1:]
    return sigs


# --------------------------------------------------------------------------- tie
def gen_tie(rng, sigs, per_fn, only=None):
    lines, meta = [], []
    k = 0
    for fn in sorted(sigs):
        if only and fn not in only:
            continue
        sig = sigs[fn]
        for rep in range(per_fn):
            lines.append("case %d" % k)
            ns = sum(1 for t in sig if t == "s")
            shape_ids = []
            g = None
            if ns:
                style = rng.choice(["poly", "csg", "trig", "tiny"])
                opts = dict(size=rng.randint(3, 10), nvars=rng.choice([0, 1, 2]), p_const=0.2)
                if style == "csg":
                    opts.update(p_minmax=0.5)
                elif style == "trig":
                    opts.update(unary=gen.UNARY_EXACT + ["sin", "cos", "exp"], p_minmax=0.1)
                elif style == "tiny":
                    opts.update(size=1)
                g = gen.TreeGen(rng, **opts)
                g.build()
                cand = [i for i in g.pool if g.kind[i][0] not in ("const",)]
                for j in range(ns):
                    # first shape: the rich root; others: any earlier node (may share structure, may lack xyz)
                    shape_ids.append(g.root if j == 0 or rng.random() < 0.3 else rng.choice(cand))
                if ns == 2 and rng.random() < 0.1:
                    shape_ids[1] = shape_ids[0]          # union(a, a) etc.
                lines += g.lines
                for sid in sorted(set(shape_ids)):
                    lines.append("dump %d" % sid)
            ints = [rng.randint(a, b) for a, b in INT_RANGE.get(fn, [])]
            toks = ["s%d" % i for i in shape_ids] + ["i%d" % i for i in ints]
            lines.append("call 100000 %s sym %s" % (fn, " ".join(toks)))
            lines.append("dump 100000")
            chained = None
            if rng.random() < 0.35:
                # compose: feed the result to a second entry point
                fn2 = rng.choice([f for f in sorted(sigs) if sigs[f].count("s") == 1 and f not in INT_RANGE])
                lines.append("call 100001 %s sym s100000" % fn2)
                lines.append("dump 100001")
                chained = fn2
            lines.append("end")
            meta.append({"case": k, "fn": fn, "ints": ints, "chained": chained,
                         "shape_nodes": g.next if g else 0})
            k += 1
    return lines, meta


def case_slices(lines):
    out, cur = {}, None
    for ln in lines:
        if ln.startswith("case "):
            cur = out.setdefault(ln.split()[1], [])
        if cur is not None:
            cur.append(ln)
    return out


# --------------------------------------------------------------------------- oracle
def emit_scene(node, k, pts):
    lines = ["case %d" % k]
    node_id = node.emit(lines, [0])
    lines.append("eval %d %d %s" % (node_id, len(pts), " ".join(gen.pt_hex(p) for p in pts)))
    lines.append("end")
    return lines


def reset_ids(node):
    node.id = None
    for c in node.kids:
        reset_ids(c)


def run_scenes(exe, scenes, work, tag):
    """scenes: list of (node, pts).  Returns list of value lists (floats, None if the harness failed)."""
    lines = []
    for k, (node, pts) in enumerate(scenes):
        reset_ids(node)
        lines += emit_scene(node, k, pts)
    pf = os.path.join(work, "c18-%s.prog" % tag)
    with open(pf, "w") as f:
        f.write("\n".join(lines) + "\n")
    r = common.run_harness(exe, [pf], timeout=900)
    vals = [None] * len(scenes)
    errs = []
    cur = None
    for ln in r.stdout.splitlines():
        w = ln.split()
        if not w:
            continue
        if w[0] == "case":
            cur = int(w[1])
        elif w[0] == "eval" and cur is not None:
            vals[cur] = [gen.hex2f(h) for h in w[3:]]
        elif w[0] == "error":
            errs.append((cur, ln))
    return vals, errs, r, lines


def judge(node, pts, vals, exact):
    """compare the real values with the documented set.  Returns (failures, stats)."""
    fails = []
    st = {"checked": 0, "skipped_near_boundary": 0, "inside": 0, "outside": 0, "dist_checked": 0}
    for p, v in zip(pts, vals):
        if exact:
            d = node.sdf(p)
            tol = 3e-5 * (1 + abs(d) + max(abs(c) for c in p))
            st["dist_checked"] += 1
            if not (abs(v - d) <= tol):
                fails.append({"point": list(p), "real_value": v, "documented_distance": d, "tolerance": tol})
            continue
        m = G.stable_membership(node.inside, p, DELTA, node.bnd)
        if m is None:
            st["skipped_near_boundary"] += 1
            continue
        st["checked"] += 1
        st["inside" if m else "outside"] += 1
        if math.isnan(v) or (v < 0) != m:
            fails.append({"point": list(p), "real_value": v, "documented_inside": m})
    return fails, st


def cone_nodes(node):
    out = [node] if isinstance(node, G.ConeZ) else []
    for c in node.kids:
        out += cone_nodes(c)
    return out


def explained_by_cone_offset(node, fails):
    """True iff every failure disappears when cones mean what the code is proved to build
    (Libfive.C18.cone_ang_z_actual) -- i.e. the only thing wrong is the known plane offset."""
    cones = cone_nodes(node)
    if not cones:
        return False
    try:
        for c in cones:
            c.inside = c.inside_as_coded
            c.bnd = c.bnd_as_coded
        for f in fails:
            p = tuple(f["point"])
            m = G.stable_membership(node.inside, p, DELTA / 4, node.bnd)
            if m is None:
                continue
            v = f["real_value"]
            if math.isnan(v) or (v < 0) != m:
                return False
        return True
    finally:
        for c in cones:
            del c.inside
            del c.bnd


def shrink(exe, gn, node, work, exact):
    """descend into the first child that fails on its own"""
    cur = node
    for _ in range(8):
        nxt = None
        for kid in cur.kids:
            if exact and not getattr(kid, "exact", False):
                continue
            pts = gn.points(kid, 150)
            vals, errs, _, _ = run_scenes(exe, [(kid, pts)], work, "shrink")
            if vals[0] is None:
                continue
            fails, _ = judge(kid, pts, vals[0], exact)
            if fails:
                nxt = (kid, fails)
                break
        if nxt is None:
            break
        cur = nxt[0]
        last = nxt[1]
    return cur if cur is not node else None, (last if cur is not node else None)


def report_scene(rep, exe, gn, node, fails, work, exact, why):
    small, sfails = (None, None)
    try:
        small, sfails = shrink(exe, gn, node, work, exact)
    except Exception as e:   # shrinking is best effort
        common.log("shrink failed: %r" % (e,))
    tgt, tf = (small, sfails) if small is not None else (node, fails)
    reset_ids(tgt)
    prog = emit_scene(tgt, 0, [tuple(f["point"]) for f in tf[:5]])
    key = CONE_KEY if explained_by_cone_offset(tgt, tf) else None
    what = ("%s: %s at %s real value %.9g" % (why, tgt.describe()[:300], tf[0]["point"], tf[0]["real_value"]))
    rep.violation(what, {"kind": "oracle", "scene": tgt.describe(), "original_scene": node.describe(),
                         "failures": tf[:5], "program": prog,
                         "how": "write the program lines to a file and run .build/plain/harness/stdlib <file>; "
                                "eval prints the real ArrayEvaluator values (float bits) at the listed points"},
                  key=key)
    return key


def run(rep, tier, seed, replay=None):
    rng = random.Random(seed * 104729 + 18)
    aud = common.audit("C18")
    exe = common.build_harness("stdlib")
    work = os.path.join(common.BUILD, "work")
    os.makedirs(work, exist_ok=True)
    sigs = harness_sigs(exe)

    # ---------------- tie: real entry points vs transcription, symbolic parameters
    per_fn = 6 if tier == "quick" else 80
    tie_lines, tie_meta = gen_tie(rng, sigs, per_fn)
    corpus_dir = os.path.join(common.VERIF, "corpus", "C18")
    corpus = []
    if os.path.isdir(corpus_dir):
        for f in sorted(os.listdir(corpus_dir)):
            if f.endswith(".in"):
                corpus += [l.rstrip("\n") for l in open(os.path.join(corpus_dir, f))]
    pf = os.path.join(work, "c18-tie-%d-%s.prog" % (seed, tier))
    with open(pf, "w") as f:
        f.write("\n".join(corpus + tie_lines) + "\n")
    r = common.run_harness(exe, [pf], timeout=900)
    if r.returncode != 0:
        rep.violation("stdlib harness crashed rc=%d: %s" % (r.returncode, r.stderr[-800:]),
                      {"kind": "harness-crash", "program": pf, "stderr": r.stderr[-4000:]}, no_input=True)
        return rep.finish("proof", common.proof_coverage(aud, {"evaluations": 0}), ASSUMPTIONS)
    verdicts = common.run_driver("c18", r.stdout, timeout=600).splitlines()
    tie_cases = case_slices(corpus + tie_lines)
    oks = [v for v in verdicts if v.startswith("ok")]
    skips = [v for v in verdicts if v.startswith("skip")]
    mism = [v for v in verdicts if v.startswith("MISMATCH")]
    tie_fns = {}
    sizes = []
    for v in oks:
        w = v.split()
        tie_fns[w[4]] = tie_fns.get(w[4], 0) + 1
        sizes.append(int(w[6]))
    broken_fns = set()
    for m in mism:
        w = m.split()
        if len(w) > 4 and w[1] == "case":
            broken_fns.add(w[4])

    # ---------------- oracle: real shapes with real parameters vs the documented sets
    gn = G.Gen(rng)
    n_scene, n_pts, n_exact = (500, 150, 150) if tier == "quick" else (6000, 300, 1500)
    scenes = [(None, None)] * 0
    general = []
    for _ in range(n_scene):
        node = gn.shape(rng.choice([0, 1, 1, 2, 2, 3]))
        general.append((node, gn.points(node, n_pts)))
    # the witness of Libfive.C18.cone_z_not_documented, replayed on the real code
    wit = G.ConeZ("cone_z", 1.0, 2.0, (0.0, 0.0, 0.0))
    general.append((wit, [(2.0, 0.0, gen.f32(0.1)), (0.5, 0.0, 0.5), (0.0, 0.0, 3.0), (0.0, 0.0, 1.9)]))
    # neighbourhood of a broken tie: extra scenes that use the functions whose trees changed
    extra = []
    if broken_fns:
        tries = 0
        while len(extra) < 60 and tries < 4000:
            tries += 1
            node = gn.shape(rng.choice([0, 1, 2]))
            if node.fns() & broken_fns:
                extra.append((node, gn.points(node, 2 * n_pts)))
    exacts = []
    for _ in range(n_exact):
        node = gn.exact_shape()
        exacts.append((node, gn.points(node, n_pts // 2)))

    stats = {"scenes": 0, "checked": 0, "skipped_near_boundary": 0, "inside": 0, "outside": 0, "dist_checked": 0,
             "scene_nodes": 0, "harness_errors": 0}
    oracle_found = False
    keys_seen = set()
    for tag, group, exact in (("gen", general + extra, False), ("exact", exacts, True)):
        vals, errs, rr, _ = run_scenes(exe, group, work, "%s-%d-%s" % (tag, seed, tier))
        if rr.returncode != 0:
            rep.violation("stdlib harness crashed while evaluating rc=%d: %s" % (rr.returncode, rr.stderr[-500:]),
                          {"kind": "harness-crash", "stderr": rr.stderr[-3000:]}, no_input=True)
            continue
        stats["harness_errors"] += len(errs)
        reported = 0
        for (node, pts), v in zip(group, vals):
            if v is None or len(v) != len(pts):
                rep.violation("harness produced no values for %s" % node.describe()[:200],
                              {"kind": "harness-error", "scene": node.describe(), "errors": errs[:3]}, no_input=True)
                continue
            fails, st = judge(node, pts, v, exact)
            stats["scenes"] += 1
            stats["scene_nodes"] += node.count()
            for kk in st:
                stats[kk] += st[kk]
            if fails:
                oracle_found = True
                if reported < 12 or not (cone_nodes(node)):
                    why = ("value is not the Euclidean distance to the boundary" if exact
                           else "real shape disagrees with its documented point set")
                    key = report_scene(rep, exe, gn, node, fails, work, exact, why)
                    keys_seen.add(key)
                    reported += 1

    # ---------------- broken tie / proof obligations
    unexplained_oracle = any(k is None for k in keys_seen)
    for m in mism[:20]:
        w = m.split()
        case = w[2] if len(w) > 2 and w[1] == "case" else "?"
        fn = w[4] if len(w) > 4 else "?"
        rep.violation("model/implementation correspondence broken (stream C18.tie, %s): %s" % (fn, m[:400]),
                      {"kind": "correspondence", "stream": "C18.tie (LibfiveModel/Stdlib.lean transcription of %s)" % fn,
                       "case": case, "program": tie_cases.get(case), "verdict": m,
                       "searched": "oracle scenes using %s: %d, failing input %s" % (
                           fn, len(extra), "reported separately" if unexplained_oracle else "not found"),
                       "theorems_affected": "every Libfive.C18 theorem about %s" % fn},
                      no_input=not unexplained_oracle)
    missing = sorted(set(sigs) - set(tie_fns) - broken_fns)
    if missing:
        rep.violation("entry points without a successful tie verdict: %s" % missing,
                      {"kind": "correspondence", "missing": missing, "skips": skips[:10]}, no_input=True)
    if not aud["ok"]:
        common.report_broken_proof(rep, aud)

    cov = common.proof_coverage(aud, {
        "evaluations": len(oks) + stats["checked"] + stats["dist_checked"],
        "distinct_nontrivial": len({(m["fn"], tuple(m["ints"]), m["shape_nodes"], m["chained"]) for m in tie_meta}),
        "rule": "tie: every C entry point x generated shape arguments (random DAGs, with/without xyz, shared, a==b) x loop "
                "counts 1..8, 35%% chained into a second entry point; distinct = distinct (function, ints, argument size, chain). "
                "oracle: random compositions (depth<=3) of primitives / transforms / CSG / arrays with parameters in the "
                "documented domain, points near faces, edges, rims, apex at 0..1 units plus uniform points; points whose "
                "documented membership changes within %g are skipped" % DELTA,
        "correspondence": {"entry_points": len(sigs), "tie_cases": len(tie_meta), "verdicts_ok": len(oks),
                           "mismatch": len(mism), "skipped": len(skips), "ok_per_function_min": min(tie_fns.values()) if tie_fns else 0,
                           "tree_size_mean": sum(sizes) / max(1, len(sizes)), "tree_size_max": max(sizes) if sizes else 0,
                           "chained": sum(1 for m in tie_meta if m["chained"])},
        "oracle": stats,
        "distribution": {"oracle_function_histogram": dict(sorted(gn.hist.items()))},
        "samples": [tie_cases[k][-4:] for k in list(tie_cases)[:2]] + [general[0][0].describe(), exacts[0][0].describe()],
    })
    return rep.finish("proof", cov, ASSUMPTIONS)
