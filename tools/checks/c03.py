"""C03 — rendered meshes are closed, consistently oriented surfaces."""
import collections
import os
import random
import subprocess

import common
import gen_mesh
import translate_meshtables

ASSUMPTIONS = [
    "Theorems: complete-table lemmas (decide) over tet_table / cell_vertices / tet_vertices of BOTH mesher copies and "
    "MarchingTable<3>, regenerated from /repo on every run; lifting theorem marching_closed for every finite oriented tet "
    "complex satisfying hypothesis (H); dc_quad_boundary for every quad.",
    "Hypothesis (H) for the REAL octree (every non-uniform tet face occurs exactly once per orientation), four distinct vertices "
    "per tet and pairwise different tet vertex sets (hypotheses of the edge-manifold clause, whose cross-tet part is stated, "
    "not proved) are validated per run on the dumped complex by the Lean driver, not proved; DC's minimal-edge rule across levels is validated by the oracle only.",
    "Tie: every tet marched / triangle pushed / DC quad emitted is dumped by hooks; the Lean model recomputes the triangles "
    "and they are compared with Mesh::branes as multisets (rotation-normalised).",
    "Worker-pool / index-assignment interleavings are another builder's part of C03 (last_arriver); here schedules are only "
    "sampled through worker counts 1..16.",
    "Index 0 of Mesh::verts is the reserved marker (BRep constructor) and is not counted as a vertex.",
]

ALGS = ("dc", "simplex", "hybrid")


def vol_crash_probe(exe):
    """One sphere rendered with a VolTree per algorithm, each in its own process, so that a crash of the
    VolTree path (former finding C04:vol-*-null-leaf, fixed by ebdd503) cannot take the whole run down.
    Returns {alg: (rc, program)} for the algorithms that do not survive."""
    b = gen_mesh.Builder()
    d2 = b.add(b.add(b.un("square", b.X), b.un("square", b.Y)), b.un("square", b.Z))
    root = b.sub(b.un("sqrt", d2), b.const(0.8))
    bad = {}
    for alg in ALGS:
        prog = ["case 0"] + b.lines + ["root %d" % root, "region -2 -2 -2 2 2 2", "render %s 0.3 1e-8 2 1 0" % alg, "end"]
        try:
            r = subprocess.run([exe], input="\n".join(prog) + "\n", stdout=subprocess.PIPE, stderr=subprocess.PIPE,
                               text=True, timeout=120)
            rc = r.returncode
            if rc == 0 and "endrender" not in r.stdout:
                rc = "no-output"
        except subprocess.TimeoutExpired:
            rc = "timeout"
        if rc != 0:
            bad[alg] = (rc, prog)
    return bad


def strip_vol(lines, algs):
    """turn the VolTree off in the render lines of the given algorithms"""
    out = []
    for ln in lines:
        w = ln.split()
        if w and w[0] == "render" and w[1] in algs and w[5] == "1":
            w[5] = "0"
            ln = " ".join(w)
        out.append(ln)
    return out


def gen_program(rng, tier):
    nshapes = 14 if tier == "quick" else 90
    levels = [2, 3, 3, 4, 4, 4, 5] if tier == "quick" else [2, 3, 4, 4, 5, 5, 6]
    lines, meta = [], {}
    k = 0
    while k < nshapes:
        sh = gen_mesh.gen_shape(rng)
        lo, hi = sh["region"]
        L = rng.choice(levels)
        mf = gen_mesh.min_feature_for_levels(rng, min(h - l for l, h in zip(lo, hi)), L)
        cid = str(k)
        hdr = ["case %s" % cid] + sh["lines"] + ["root %d" % sh["root"],
               "region %s %s" % (" ".join("%.9g" % c for c in lo), " ".join("%.9g" % c for c in hi))]
        renders = []
        for alg in ALGS:
            errs = ["1e-8", "-1"]
            if alg == "simplex" or rng.random() < 0.3:
                errs.insert(1, rng.choice(["1e-2", "1e-2", "1e-3", "3e-2"]))
            for me in errs:
                workers = rng.choice([1, 2, 4, 8, 16])
                vol = 1 if rng.random() < 0.3 else 0
                renders.append("render %s %.9g %s %d %d 1" % (alg, mf, me, workers, vol))
        lines += hdr + renders + ["end"]
        meta[cid] = {"header": hdr, "levels": L, "min_feature": mf, "prims": [p["kind"] for p in sh["prims"]],
                     "ops": sh["ops"], "nodes": sh["nodes"]}
        k += 1
    return lines, meta


def parse_renders(text):
    cur = None
    for ln in text.splitlines():
        w = ln.split()
        if not w:
            continue
        if w[0] == "render":
            cur = {"hdr": w, "t": [], "r": [], "q": [], "c": [], "v": [], "b": [], "w": []}
            if w[-1] == "null":
                cur["null"] = True
        elif w[0] == "endrender":
            yield cur
            cur = None
        elif cur is not None and w[0] in cur:
            cur[w[0]].append(w[1:])


def mesh_oracle(rd, manifold):
    """The property itself on the real output.  Returns list of (kind, detail)."""
    cnt = collections.Counter()
    nv = len(rd["v"])
    used = set()
    out = []
    for b in rd["b"]:
        i, j, k = int(b[0]), int(b[1]), int(b[2])
        if i == j or j == k or i == k:
            out.append(("repeated-vertex", b))
        for x in (i, j, k):
            if not (1 <= x < nv):
                out.append(("bad-index", b))
            used.add(x)
        cnt[(i, j)] += 1
        cnt[(j, k)] += 1
        cnt[(k, i)] += 1
    unpaired = [(e, c, cnt.get((e[1], e[0]), 0)) for e, c in cnt.items() if c != cnt.get((e[1], e[0]), 0)]
    if unpaired:
        out.append(("unpaired-edges", unpaired[:12] + [len(unpaired)]))
    if manifold:
        multi = [(e, c) for e, c in cnt.items() if c > 1]
        if multi:
            out.append(("edge-used-more-than-once-per-direction", multi[:12] + [len(multi)]))
    unref = [i for i in range(1, nv) if i not in used]
    if unref:
        out.append(("unreferenced-vertex", unref[:12] + [len(unref)]))
    return out


def run(rep, tier, seed, replay=None):
    rng = random.Random(seed * 7919 + 3)
    translate_meshtables.main()
    aud = common.audit("C03")
    exe = common.build_harness("mesh")
    prog, meta = gen_program(rng, tier)
    crashing = vol_crash_probe(exe)
    for alg, (rc, cprog) in crashing.items():
        rep.violation("Mesh::render with alg=%s and settings.vol set crashes (rc=%s)" % (alg, rc),
                      {"kind": "oracle", "program": cprog, "rc": rc,
                       "how": "write `program` to a file and run .build/plain/harness/mesh <file>"},
                      key="C04:vol-%s-null-leaf" % alg)
    if crashing:
        prog = strip_vol(prog, set(crashing))
    work = os.path.join(common.BUILD, "work")
    os.makedirs(work, exist_ok=True)
    pf = os.path.join(work, "c03-%d-%s.prog" % (seed, tier))
    with open(pf, "w") as f:
        f.write("\n".join(prog) + "\n")
    r = common.run_harness(exe, [pf], timeout=3000)
    if r.returncode != 0:
        rep.violation("mesh harness crashed rc=%d: %s" % (r.returncode, r.stderr[-500:]),
                      {"kind": "harness-crash", "program": pf, "stderr": r.stderr[-3000:]})
        return rep.finish("proof", common.proof_coverage(aud, {"evaluations": 0}), ASSUMPTIONS)

    renders = list(parse_renders(r.stdout))
    drv_in = []
    info = {}
    for n, rd in enumerate(renders):
        h = rd["hdr"]
        rid = "%s/%s/%s/%s/w%s/v%s#%d" % (h[1], h[2], h[3], h[4], h[5], h[6], n)
        rd["id"] = rid
        info[rid] = rd
        if rd.get("null"):
            continue
        drv_in.append("render %s %s" % (rid, h[2]))
        for tag in ("t", "r", "q", "c", "b"):
            for x in rd[tag]:
                drv_in.append(tag + " " + " ".join(x))
        drv_in.append("endrender")
    if not aud["ok"]:
        common.lake_build(["vd-c03"])      # the driver does not depend on the proofs; keep the search going
    try:
        verdicts = common.run_driver("c03", "\n".join(drv_in) + "\n", timeout=1200).splitlines()
    except Exception as e:                  # noqa: BLE001 - reported below through the audit failure
        common.log("driver vd-c03 unavailable: %r" % (e,))
        verdicts = []
        if aud["ok"]:
            raise
    ok, mism, hfail, unmatched = {}, {}, {}, collections.defaultdict(list)
    vfail = {}
    for v in verdicts:
        w = v.split()
        if w[0] == "ok":
            ok[w[1]] = v
        elif w[0] == "MISMATCH":
            mism[w[1]] = v
        elif w[0] == "H" and w[2] == "FAIL":
            hfail[w[1]] = int(w[3])
        elif w[0] == "V" and w[2] == "FAIL":
            vfail[w[1]] = int(w[3])
        elif w[0] == "unmatched":
            unmatched[w[1]].append([int(x) for x in w[2:]])

    def replay_of(rd):
        h = rd["hdr"]
        m = meta[h[1]]
        return {"program": m["header"] + ["render %s %s %s %s %s 1" % (h[2], h[3], h[4], h[5], h[6]), "end"],
                "how": "write `program` lines to a file and run .build/plain/harness/mesh <file>; "
                       "b-lines are the triangles, each directed edge must occur as often as its reverse",
                "levels": m["levels"], "prims": m["prims"], "ops": m["ops"]}

    # ---- property oracle on every real mesh
    stats = collections.Counter()
    oracle_bad = {}
    for rd in renders:
        h = rd["hdr"]
        alg = h[2]
        if rd.get("null"):
            rep.violation("Mesh::render returned null without cancellation: %s" % " ".join(h), replay_of(rd))
            continue
        stats["renders"] += 1
        stats["renders_" + alg] += 1
        if not rd["b"]:
            stats["empty_meshes"] += 1
        stats["triangles"] += len(rd["b"])
        stats["tets"] += len(rd["t"])
        stats["quads"] += len(rd["q"])
        stats["workers_" + h[5]] += 1
        if h[4] != "-1":
            stats["merging_on"] += 1
        if h[6] == "1":
            stats["with_vol_" + alg] += 1
        bad = mesh_oracle(rd, manifold=(alg != "dc"))
        if bad:
            oracle_bad[rd["id"]] = bad

    # the same shape with merging off (for the known-finding classification)
    by_shape = collections.defaultdict(dict)
    for rd in renders:
        h = rd["hdr"]
        by_shape[(h[1], h[2])][h[4]] = rd

    def known_key(rd, kinds):
        """mechanism of the recorded simplex defect: unmatched tet faces between a collapsed cell
        (leaf level > 0) and finer neighbours, and the same shape is fine with merging off"""
        h = rd["hdr"]
        rid = rd["id"]
        if h[2] != "simplex" or h[4] == "-1" or not set(kinds) <= {"unpaired-edges"}:
            return None
        um = unmatched.get(rid, [])
        if rid not in hfail or not um or not all(u[6] == 1 for u in um):
            return None
        off = by_shape[(h[1], h[2])].get("-1")
        if off is None or off["id"] in oracle_bad or off["id"] in hfail or off["id"] in mism:
            return None
        return "C03:simplex-merge-unmatched-faces"

    reported = set()
    for rid, bad in oracle_bad.items():
        rd = info[rid]
        h = rd["hdr"]
        kinds = [b[0] for b in bad]
        rp = replay_of(rd)
        rp.update({"kind": "oracle", "failures": bad, "unmatched_faces(a b c plus minus max-leaf-level touches-collapsed-cell)": unmatched.get(rid, [])[:20]})
        rep.violation("%s mesh violates the property (%s): case %s min_feature %s max_err %s workers %s"
                      % (h[2], ", ".join(kinds), h[1], h[3], h[4], h[5]), rp, key=known_key(rd, kinds))
        reported.add(rid)
    # hypothesis (H) failing although the mesh itself passed: the theorem does not apply to this complex
    for rid, n in hfail.items():
        if rid in reported:
            continue
        rd = info[rid]
        rp = replay_of(rd)
        rp.update({"kind": "hypothesis-H", "unmatched_faces(a b c plus minus max-leaf-level touches-collapsed-cell)": unmatched.get(rid, [])[:20], "count": n})
        rep.violation("hypothesis (H) of marching_closed fails on the dumped tet complex although the mesh is balanced: %s" % rid,
                      rp, key=known_key(rd, []), no_input=True)
        reported.add(rid)
    for rid, n in vfail.items():
        if rid in reported:
            continue
        rp = replay_of(info[rid])
        rp.update({"kind": "hypothesis-TetSetsDistinct", "count": n})
        rep.violation("%d dumped tets repeat the vertex set of another tet (hypothesis of the edge-manifold clause "
                      "marching_manifold) although the mesh passed the oracle: %s" % (n, rid), rp, no_input=True)
        reported.add(rid)
    for rid, m in mism.items():
        if rid in reported:
            continue
        rd = info[rid]
        rp = replay_of(rd)
        rp.update({"kind": "correspondence", "stream": "C03.marchTets / dcQuad (LibfiveModel/Marching.lean)", "verdict": m,
                   "theorems_affected": ["Libfive.C03.marching_closed", "Libfive.C03.dc_quad_boundary"]})
        rep.violation("model/implementation correspondence broken: %s" % m[:300], rp, no_input=True)
    if not aud["ok"]:
        if reported:
            common.log("audit failed; concrete failing inputs were found and reported: %s" % str(aud["problems"])[:400])
        else:
            common.report_broken_proof(rep, aud)

    nontrivial = {(rd["hdr"][1], rd["hdr"][2], rd["hdr"][4]) for rd in renders if rd["b"]}
    cov = common.proof_coverage(aud, {
        "evaluations": stats["renders"], "distinct_nontrivial": len(nontrivial),
        "rule": "seeded CSG solids (2-4 rotated/translated spheres, boxes, cylinders, tori; union/intersection/difference, "
                "smooth blends) strictly inside the region; 2-6 octree levels; dc/simplex/hybrid; max_err default, larger, -1; "
                "workers 1..16; non-trivial = non-empty mesh with distinct (shape, algorithm, max_err)",
        "correspondence": {"verdicts_ok": len(ok), "mismatch": len(mism), "hypothesis_H_failures": len(hfail), "tet_sets_distinct_failures": len(vfail),
                           **{k: v for k, v in sorted(stats.items())}},
        "distribution": {"levels": collections.Counter(str(m["levels"]) for m in meta.values()),
                         "prims": collections.Counter(p[0] for m in meta.values() for p in m["prims"]),
                         "ops": collections.Counter(o for m in meta.values() for o in m["ops"])},
        "samples": [" ".join(rd["hdr"]) for rd in renders[:4]],
        "oracle_failures": len(oracle_bad),
    })
    return rep.finish("proof", cov, ASSUMPTIONS)
