"""C10 — 2D contours are closed loops that bound the slice."""
import math
import os
import struct

import common
import gen_c10

# Thresholds of the property oracle, in units of the feature size h (= largest leaf-cell edge).
# Measured on the unchanged tree over ~45,000 generated solids (seeds 100..120, 200..280, 300..315 of
# the exploration scripts, thorough-tier distribution): the farthest contour vertex was 3.33 h from
# the zero set (unclamped dual-contouring QEF vertex of an under-resolved wedge); 99.9 % are within
# 1 h.  K_VERT = 8 keeps a 2.4x margin.  No winding anomaly was seen at 3 h in 1.8e6 judged points;
# the per-case threshold is max(K_WIND, worst vertex distance of that case + 2) feature sizes.
K_WIND = 3.0      # winding number is judged at sample points with |f| > max(K_WIND, worst_vertex + 2) * h
K_VERT = 8.0      # every contour vertex must have a zero of f within K_VERT * h
BORDER_MARGIN = 2.0   # the solid must stay this many h (and >= 0.1) inside the region, else the case is skipped

ASSUMPTIONS = [
    "Theorems are about the Lean model of Contours::collect (LibfiveModel/Contours.lean) for every finite segment list, "
    "and about MarchingTable<2> / the DCContourer winding rule as regenerated from the running library "
    "(lean/Generated/Marching2.lean) on every run.",
    "Tie: the model is run on every segment list the real Contours::collect received in this run (hand-built "
    "PerThreadBRep<2> objects and the per-thread b-reps captured from real renders) and must return the same polylines.",
    "That the real quadtree produces, for every cell patch, exactly one incoming and one outgoing segment is observed "
    "per run on the captured segments (degree check), not proved: it depends on consistent corner signs between "
    "neighbouring cells (float evaluation) and on the manifoldness test of merged cells.",
    "Winding number and vertex-distance clauses are oracle-only (float geometry): generated fields are 1-Lipschitz "
    "CSG of circles/spheres, rectangles/boxes, polygons and half planes, so |f| bounds the distance to the zero set; "
    "K_WIND=%.1f, K_VERT=%.1f feature sizes." % (K_WIND, K_VERT),
]


def unhex(h):
    return struct.unpack("<f", struct.pack("<I", int(h, 16)))[0]


def parse_polys(tokens):
    """<k> {<len> xhex yhex ...} -> list of list of (x, y, xbits, ybits)"""
    k = int(tokens[0])
    pos = 1
    polys = []
    for _ in range(k):
        n = int(tokens[pos])
        pos += 1
        pts = []
        for j in range(n):
            pts.append((unhex(tokens[pos]), unhex(tokens[pos + 1]), tokens[pos], tokens[pos + 1]))
            pos += 2
        polys.append(pts)
    return polys


def winding_angle(polys, x, y):
    """independent re-computation (angle sum) of the winding number, used on a subset"""
    tot = 0.0
    for p in polys:
        n = len(p)
        for i in range(n):
            ax, ay = p[i][0] - x, p[i][1] - y
            bx, by = p[(i + 1) % n][0] - x, p[(i + 1) % n][1] - y
            tot += math.atan2(ax * by - ay * bx, ax * bx + ay * by)
    return int(round(tot / (2 * math.pi)))


def degree_report(tokens):
    """tokens after 'in': <n> a b ... 'out' ...  -> (nsegs, list of bad vertices)"""
    n = int(tokens[0])
    nums = [int(t) for t in tokens[1:1 + 2 * n]]
    outd, ind = {}, {}
    for i in range(n):
        a, b = nums[2 * i], nums[2 * i + 1]
        outd[a] = outd.get(a, 0) + 1
        ind[b] = ind.get(b, 0) + 1
    bad = [v for v in set(outd) | set(ind) if outd.get(v, 0) != 1 or ind.get(v, 0) != 1]
    return n, sorted(bad), len(set(outd) | set(ind))


def run(rep, tier, seed, replay=None):
    import random
    import translate_marching2
    rng = random.Random(seed * 104729 + 10)
    exe = common.build_harness("contours")
    tables = translate_marching2.main(exe)
    aud = common.audit("C10")

    n_seg = 600 if tier == "quick" else 20000
    n_seg_big = 6 if tier == "quick" else 200
    n_solid = 300 if tier == "quick" else 12000
    npts = 400 if tier == "quick" else 900

    lines, seg_meta, solid_meta = [], {}, {}
    corpus_dir = os.path.join(common.VERIF, "corpus", "C10")
    if os.path.isdir(corpus_dir):
        for f in sorted(os.listdir(corpus_dir)):
            lines += [l.rstrip("\n") for l in open(os.path.join(corpus_dir, f))]
    n_seg_huge = 1 if tier == "quick" else 4
    for k in range(n_seg + n_seg_big + n_seg_huge):
        c = gen_c10.seg_case(rng, big=("huge" if k >= n_seg + n_seg_big else (k >= n_seg)))
        cid = "s%d" % k
        seg_meta[cid] = c
        lines.append(gen_c10.seg_line(cid, c))
    solid_prog = {}
    for k in range(n_solid):
        c = gen_c10.solid_case(rng, tier)
        cid = "r%d" % k
        solid_meta[cid] = c
        solid_prog[cid] = gen_c10.solid_lines(cid, c, rng, npts)
        lines += solid_prog[cid]
    work = os.path.join(common.BUILD, "work")
    os.makedirs(work, exist_ok=True)
    pf = os.path.join(work, "c10-%d-%s.prog" % (seed, tier))
    with open(pf, "w") as f:
        f.write("\n".join(lines) + "\n")
    import time
    t0 = time.time()
    r = common.run_harness(exe, [pf], timeout=1500)
    t_harness = time.time() - t0
    common.log("contours harness: %.1fs" % t_harness)
    if r.returncode != 0:
        rep.violation("contours harness crashed rc=%d: %s" % (r.returncode, r.stderr[-800:]),
                      {"kind": "harness-crash", "program": pf, "stderr": r.stderr[-4000:]})
        return rep.finish("proof", common.proof_coverage(aud, {"evaluations": 0}), ASSUMPTIONS)
    out = r.stdout.splitlines()

    # ------------------------------------------------------------ correspondence: model vs real collect
    collect_lines = [l for l in out if l.startswith("collect ")]
    # exhaustive stream: the real DCContourer::load<A> on every consistent pair of hand-built leaf cells
    rl = common.run_harness(exe, ["--loads"], timeout=120)
    load_lines = [l for l in rl.stdout.splitlines() if l.startswith("load ")]
    if rl.returncode != 0 or len(load_lines) != 128:
        rep.violation("contours --loads failed: rc=%d, %d lines (expected 128) %s" % (rl.returncode, len(load_lines), rl.stderr[-300:]),
                      {"kind": "harness-crash", "stderr": rl.stderr[-2000:]}, no_input=True)
    load_verdicts = common.run_driver("c10", "\n".join(load_lines) + "\n", timeout=120).splitlines()
    load_ok = sum(1 for v in load_verdicts if v.startswith("ok load"))
    load_segments = sum(1 for l in load_lines if not l.endswith("none"))
    for v in [v for v in load_verdicts if not v.startswith("ok load")][:5]:
        rep.violation("model/implementation correspondence broken (stream C10.load): %s" % v[:300],
                      {"kind": "correspondence", "stream": "C10.load (LibfiveModel/Contours.lean: Marching2.load vs DCContourer::load<A>)",
                       "verdict": v, "how": ".build/plain/harness/contours --loads | lean/.lake/build/bin/vd-c10",
                       "theorems_affected": ["Libfive.C10.contour_winding_rule", "Libfive.C10.patch_vertex_in_out"]},
                      no_input=True)
    t0 = time.time()
    verdicts = common.run_driver("c10", "\n".join(collect_lines) + "\n", timeout=600).splitlines()
    t_driver = time.time() - t0
    common.log("vd-c10 driver: %.1fs" % t_driver)
    vstat = {"exact": 0, "cyclic": 0, "judged_only_huge": 0, "mismatch": 0, "skip": 0, "pre1": 0, "pre0": 0, "theorem_instances": 0}
    mism = []
    for v in verdicts:
        w = v.split()
        if v.startswith("ok exact"):
            vstat["exact"] += 1
        elif v.startswith("ok cyclic"):
            vstat["cyclic"] += 1
        elif v.startswith("ok judged-only"):
            vstat["judged_only_huge"] += 1
        elif v.startswith("skip"):
            vstat["skip"] += 1
        else:
            vstat["mismatch"] += 1
            mism.append(v)
            continue
        kv = dict(t.split("=") for t in w if "=" in t)
        cid = w[w.index("case") + 1]
        if kv.get("pre") == "1":
            vstat["pre1"] += 1
            vstat["theorem_instances"] += 1
            # conclusion of collect_closed on the REAL output
            if kv.get("closed") != "1" or kv.get("part") != "1":
                src = next((l for l in collect_lines if l.split()[1] == cid), "")
                rep.violation("Contours::collect left an open polyline / lost a segment although every vertex has "
                              "in-degree = out-degree = 1: %s" % v,
                              {"kind": "oracle", "case": cid, "harness_line": src[:4000],
                               "input": seg_meta.get(cid) or solid_prog.get(cid), "verdict": v})
        else:
            vstat["pre0"] += 1
            if kv.get("part") != "1":
                src = next((l for l in collect_lines if l.split()[1] == cid), "")
                rep.violation("Contours::collect output is not a partition of the input segments: %s" % v,
                              {"kind": "oracle", "case": cid, "harness_line": src[:4000],
                               "input": seg_meta.get(cid) or solid_prog.get(cid), "verdict": v})
    if len(verdicts) != len(collect_lines):
        rep.violation("driver answered %d of %d collect lines" % (len(verdicts), len(collect_lines)),
                      {"kind": "correspondence", "stream": "C10.collect"}, no_input=True)

    # ------------------------------------------------------------ property oracle on rendered slices
    cur = None
    cases = {}
    for ln in out:
        w = ln.split()
        if not w:
            continue
        if w[0] == "rcase":
            cur = cases.setdefault(w[1], {"wn": [], "bf": [], "h": float(w[5]), "level": int(w[3])})
        elif w[0] in ("render", "capture") and len(w) > 2 and w[2] != "null":
            cases[w[1]][w[0]] = parse_polys(w[2:])
        elif w[0] == "collect" and w[1] in cases:
            cases[w[1]]["collect"] = w[3:]
        elif w[0] == "vdist":
            cases[w[1]]["vdist"] = {"n": int(w[3]), "worst": float(w[5]), "at": (float(w[7]), float(w[8])),
                                    "f": float(w[10]), "maxabsf_over_h": float(w[12]), "hist": [int(t) for t in w[14:]]}
        elif w[0] == "wn":
            cases[w[1]]["wn"].append((float(w[2]), float(w[3]), float(w[4]), int(w[5])))
        elif w[0] == "bf":
            cases[w[1]]["bf"].append(float(w[2]))
    st = {"rendered": 0, "skipped_border": 0, "empty_output": 0, "contours": 0, "vertices": 0, "segments": 0,
          "wn_points_judged": 0, "wn_points_near_surface": 0, "wn_inside": 0, "wn_outside": 0,
          "worst_vertex_radius_h": 0.0, "max_vertex_absf_over_h": 0.0, "python_wn_crosschecks": 0,
          "three_d": 0, "workers": {}, "levels": {}, "max_err": {}, "vdist_hist": []}
    samples = []
    for cid, c in cases.items():
        meta = solid_meta.get(cid, {})
        h = c["h"]
        replay_base = {"case": cid, "program": solid_prog.get(cid, [])[:200], "settings": {
            k: meta.get(k) for k in ("lo", "hi", "z", "min_feature", "max_err", "workers", "three_d")},
            "how": "write the program lines to a file and run .build/plain/harness/contours <file>"}
        if "render" not in c:
            rep.violation("Contours::render returned null without cancellation (case %s)" % cid,
                          dict(replay_base, kind="oracle"))
            continue
        st["rendered"] += 1
        st["three_d"] += 1 if meta.get("three_d") else 0
        st["workers"][meta.get("workers")] = st["workers"].get(meta.get("workers"), 0) + 1
        st["levels"][c["level"]] = st["levels"].get(c["level"], 0) + 1
        st["max_err"][str(meta.get("max_err"))] = st["max_err"].get(str(meta.get("max_err")), 0) + 1
        margin = max(BORDER_MARGIN * h, 0.1)
        if c["bf"] and min(c["bf"]) <= margin:
            st["skipped_border"] += 1
            continue
        # (1) closedness of every returned contour, both runs (official entry point and captured run)
        for which in ("render", "capture"):
            polys = c.get(which, [])
            for pi, p in enumerate(polys):
                if len(p) < 2 or (p[0][2], p[0][3]) != (p[-1][2], p[-1][3]):
                    rep.violation("open contour returned by Contours::%s (case %s, contour %d of %d, %d points, "
                                  "first=(%g,%g) last=(%g,%g))" % (which, cid, pi, len(polys), len(p), p[0][0], p[0][1],
                                                                  p[-1][0], p[-1][1]) if p else "empty contour",
                                  dict(replay_base, kind="oracle", which=which, contour=pi))
                    break
        # (2) no dangling end points: degrees of the real segments captured before Contours::collect
        if "collect" in c:
            nseg, bad, nv = degree_report(c["collect"])
            st["segments"] += nseg
            if bad:
                rep.violation("DCContourer emitted segments with dangling / branching end points: vertices %s "
                              "(case %s, %d segments)" % (bad[:6], cid, nseg),
                              dict(replay_base, kind="oracle", bad_vertices=bad[:50]))
            tot_pts = sum(len(p) - 1 for p in c.get("capture", []))
            if tot_pts != nseg:
                rep.violation("contours use %d segments, %d were emitted (case %s)" % (tot_pts, nseg, cid),
                              dict(replay_base, kind="oracle"))
        polys = c["render"]
        st["contours"] += len(polys)
        st["vertices"] += sum(len(p) for p in polys)
        if not polys:
            st["empty_output"] += 1
        # (3) winding number at far sample points
        inside_vals = {}
        bad_out = []
        kw = max(K_WIND, min(c.get("vdist", {}).get("worst", 0.0), K_VERT) + 2.0)
        for (x, y, f, wn) in c["wn"]:
            if abs(f) <= kw * h or f != f:
                st["wn_points_near_surface"] += 1
                continue
            st["wn_points_judged"] += 1
            if f > 0:
                st["wn_outside"] += 1
                if wn != 0:
                    bad_out.append((x, y, f, wn))
            else:
                st["wn_inside"] += 1
                inside_vals.setdefault(wn, []).append((x, y, f))
        if bad_out:
            x, y, f, wn = bad_out[0]
            rep.violation("winding number %d at (%g,%g) where the field is %g > %g h (case %s, h=%g; %d such points)"
                          % (wn, x, y, f, kw, cid, h, len(bad_out)),
                          dict(replay_base, kind="oracle", points=bad_out[:10]))
        if len(inside_vals) > 1 or any(k not in (1, -1) for k in inside_vals):
            desc = {k: v[:3] for k, v in inside_vals.items()}
            rep.violation("winding number at interior points (field < -%g h) is not one common value of +-1: %s "
                          "(case %s, h=%g)" % (kw, {k: len(v) for k, v in inside_vals.items()}, cid, h),
                          dict(replay_base, kind="oracle", points=desc))
        # independent recomputation of a few winding numbers in Python
        if st["python_wn_crosschecks"] < 300:
            for (x, y, f, wn) in c["wn"][:: max(1, len(c["wn"]) // 6)]:
                if abs(f) <= kw * h:
                    continue
                st["python_wn_crosschecks"] += 1
                if winding_angle(polys, x, y) != wn:
                    rep.violation("harness winding number %d != angle-sum winding %d at (%g,%g) (case %s)"
                                  % (wn, winding_angle(polys, x, y), x, y, cid),
                                  dict(replay_base, kind="oracle-selfcheck"), no_input=True)
        # (4) every vertex near the zero set
        vd = c.get("vdist")
        if vd and vd["n"]:
            st["worst_vertex_radius_h"] = max(st["worst_vertex_radius_h"], min(vd["worst"], 99.0))
            st["max_vertex_absf_over_h"] = max(st["max_vertex_absf_over_h"], vd["maxabsf_over_h"])
            if not st["vdist_hist"]:
                st["vdist_hist"] = [0] * len(vd["hist"])
            st["vdist_hist"] = [a + b for a, b in zip(st["vdist_hist"], vd["hist"])]
            if vd["worst"] > K_VERT:
                rep.violation("contour vertex (%g,%g) has no zero of the field within %g h (field there %g, h=%g, "
                              "first sign change at %s h; case %s)" % (vd["at"][0], vd["at"][1], K_VERT, vd["f"], h,
                                                                       "none<=16" if vd["worst"] > 100 else vd["worst"], cid),
                              dict(replay_base, kind="oracle", vdist=vd))
        if len(samples) < 3 and polys:
            samples.append({"case": cid, "settings": replay_base["settings"], "prims": meta.get("prims"),
                            "contours": len(polys), "vertices": sum(len(p) for p in polys), "h": h})

    # ------------------------------------------------------------ broken tie / proof
    for m in mism[:10]:
        w = m.split()
        cid = w[w.index("case") + 1] if "case" in w else "?"
        rep.violation("model/implementation correspondence broken (stream C10.collect): %s" % m[:300],
                      {"kind": "correspondence", "stream": "C10.collect (LibfiveModel/Contours.lean: step, weldLoop, collect)",
                       "case": cid, "input": seg_meta.get(cid) or solid_prog.get(cid), "verdict": m[:2000],
                       "theorems_affected": ["Libfive.C10.collect_closed", "Libfive.C10.collect_partition"]},
                      no_input=True)
    if not aud["ok"]:
        common.report_broken_proof(rep, aud)

    kinds = {}
    for c in seg_meta.values():
        kinds[c["kind"]] = kinds.get(c["kind"], 0) + 1
    nontrivial = sum(1 for c in seg_meta.values() if sum(len(ch) for ch in c["children"]) >= 3)
    cov = common.proof_coverage(aud, {
        "evaluations": len(collect_lines) + st["rendered"],
        "distinct_nontrivial": nontrivial + sum(1 for c in cases.values() if c.get("render")),
        "rule": "segment lists: random permutations split into cycles (in=out=1), the same with 1-3 mutations, open paths, "
                "random multigraphs, dense multigraphs on <=6 vertices, self loops; 1..16 children; non-trivial = >=3 segments. "
                "Solids: random CSG (depth<=3) of circles/rectangles/polygons (2D) or spheres/boxes/polytopes sliced at "
                "random z (3D), half-plane cuts, offsets, shells; random region offset/size/aspect, min_feature, max_err, "
                "workers 1..16; non-trivial = non-empty contour set",
        "correspondence": {"collect_lines": len(collect_lines), **vstat,
                           "load_pairs_exhaustive": len(load_lines), "load_ok": load_ok, "load_pairs_with_segment": load_segments,
                           "segment_case_kinds": kinds,
                           "captured_from_renders": sum(1 for c in cases.values() if "collect" in c)},
        "oracle": {**{k: v for k, v in st.items()}, "K_WIND": K_WIND, "K_VERT": K_VERT,
                   "vdist_ladder_h": [0, 0.125, 0.25, 0.5, 1, 1.5, 2, 3, 4, 6, 8, 12, 16, "none"]},
        "tables": tables,
        "timing_s": {"harness": round(t_harness, 1), "driver": round(t_driver, 1)},
        "samples": samples,
    })
    return rep.finish("proof", cov, ASSUMPTIONS)
