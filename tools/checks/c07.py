"""C07 — tree rewriting never changes the function."""
from checks import exprcheck

ASSUMPTIONS = [
    "Theorems: over any field with a lawful interpretation (field arithmetic for + - * / neg square, idempotence of abs/min/max, exact constant folding; all other opcodes uninterpreted) the model's Tree::unary/binary/remap/apply/flatten/optimized preserve the denotation.",
    "Pointer identity of the C++ is modelled by structural equality; model and implementation are compared after AC-canonicalisation (the optimiser orders commutative operands by pointer).",
    "Float coefficient rounding in the optimiser and constant folding is the only slack; the numeric oracle compares the real evaluator with a double-precision reference of the UNREWRITTEN expression within a forward single-precision error bound, at stable points only.",
    "Oracle nodes under remap (TransformedOracle) are covered by C16.",
]


def run(rep, tier, seed, replay=None):
    return exprcheck.run(rep, tier, seed, "C07", ASSUMPTIONS,
                         "C07.rewrite (LibfiveModel/Expr.lean mkUnary/mkBinary/mkRemap/flatten, Optimize.lean optimize)")
