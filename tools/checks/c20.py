"""C20 — progress reports are monotone and complete."""
import os
import random
import subprocess

import common

ASSUMPTIONS = [
    "Theorems are about the Lean model of the tick accounting (LibfiveModel/Progress.lean): WorkerPool::build/run, "
    "Dual::walk_/run, Root::reset/ObjectPool::reset and ProgressHandler's fraction and start/finish state machine.",
    "Tie (trace refinement, free mode): every render of the run is replayed: the build-time octree shape is rebuilt from the "
    "pool hook events (push/eval), the model's per-cell credits must equal the real tick events as multisets, totals/counters "
    "are read from the handler's protected members, the final tree is dumped at the start of the dual walk, the pool chain "
    "(clamped workers, allocated/fresh blocks per level) is reported by the reset hook.",
    "Ticks are atomic fetch-adds (std::atomic<uint64_t>::operator+=); the model treats them as commutative increments. "
    "uint64 overflow of the announced total (level*N >= 64) is not modelled.",
    "The float32 rounding of the reported fraction is not covered by progress_monotone (ordered field); the driver "
    "re-computes the fraction in Float32 on sampled handler states and checks monotonicity/[0,1] there.",
    "Tie of the pool model to the tick rule (controlled mode): extra renders run under the cooperative scheduler of "
    "harness/poolhook.hpp (one worker at a time, the hook log is the real total order of the segments); the build-phase "
    "trace with the real SITE_POOL_TICK payloads interleaved is replayed through Pool.step, and Pool.tickOf "
    "(LibfiveModel/PoolTicks.lean, the definition pool_ticks_complete / pool_ticks_monotone_bounded are about) must give, "
    "event by event and per worker, exactly the payload of that worker's next real tick; the sum must be the announced total.",
    "Handler state machine: std::async/std::future/timed_mutex are modelled (thread creation, join, ownership); the "
    "unlock of a mutex not owned by the caller on every second finish() is recorded (second_finish_unlocks_foreign) "
    "but is not observable as a crash or deadlock on glibc.",
]

KEY_RESET = "C20:pool-reset-clamped-workers-passed-down"


# --------------------------------------------------------------------------- generation

def gen_shape(rng, depth=0):
    r = rng.random()
    if depth >= 2 or r < 0.45:
        k = rng.choice(["S", "S", "B", "T", "C", "G", "E", "F"])
        if k == "S":
            return "S %.3f %.3f %.3f %.3f" % (rng.uniform(0.3, 1.8), rng.uniform(-0.6, 0.6), rng.uniform(-0.6, 0.6), rng.uniform(-0.6, 0.6))
        if k == "B":
            a = [rng.uniform(-1.6, -0.1) for _ in range(3)]
            b = [rng.uniform(0.1, 1.6) for _ in range(3)]
            return "B %.3f %.3f %.3f %.3f %.3f %.3f" % tuple(a + b)
        if k == "T":
            return "T %.3f %.3f" % (rng.uniform(0.7, 1.3), rng.uniform(0.15, 0.5))
        if k == "C":
            return "C %.3f %.3f %.3f" % (rng.uniform(0.2, 1.2), rng.uniform(-0.5, 0.5), rng.uniform(-0.5, 0.5))
        if k == "G":
            return "I B -1.5 -1.5 -1.5 1.5 1.5 1.5 G %.3f %.3f" % (rng.uniform(1.5, 4.0), rng.uniform(-0.3, 0.6))
        return k
    k = rng.choice(["U", "I", "D", "H", "O"])
    if k in "UID":
        return "%s %s %s" % (k, gen_shape(rng, depth + 1), gen_shape(rng, depth + 1))
    if k == "H":
        return "H %.3f %s" % (rng.uniform(0.05, 0.3), gen_shape(rng, depth + 1))
    return "O %.3f %s" % (rng.uniform(-0.2, 0.3), gen_shape(rng, depth + 1))


def gen_cases(rng, n, tier):
    cases = []
    fixed = [
        # single-cell roots (level 0), empty and full regions, for each algorithm
        ("dc", 3, 0, "S 1.3 0.1 0.2 0.05"), ("simplex", 3, 0, "S 1.3 0.1 0.2 0.05"), ("hybrid", 3, 0, "S 1.3 0.1 0.2 0.05"),
        ("dc", 3, 3, "E"), ("simplex", 3, 3, "E"), ("hybrid", 3, 3, "F"), ("dc", 3, 2, "F"),
        ("dc", 2, 0, "S 1.0 0 0 0"), ("simplex", 2, 0, "S 1.0 0 0 0"), ("dc", 2, 4, "E"), ("hybrid", 2, 3, "S 1.0 0 0 0"),
        # deep octrees that stay cheap (a pruned root / a tiny solid in a big region): the per-level credit
        # arithmetic (cells of a full sub-tree of 10..16 levels: beyond 2^31) is only exercised here
        ("dc", 3, 10, "E"), ("simplex", 3, 11, "E"), ("hybrid", 3, 12, "F"), ("dc", 3, 16, "E"), ("dc", 2, 15, "E"),
        ("simplex", 2, 20, "F"), ("dc", 3, 10, "S 0.004 0.3111 -0.2222 0.1333"), ("hybrid", 3, 11, "S 0.002 0.3111 -0.2222 0.1333"),
        ("simplex", 3, 10, "S 0.004 -0.4111 0.2222 0.3333"), ("dc", 2, 16, "S 0.0002 0.3111 -0.2222 0"),
        # long renders: intermediate progress values
        ("dc", 3, 6, "D S 1.7 0 0 0 G 3.1 0.2"), ("simplex", 3, 5, "S 1.5 0.1 0 0"), ("hybrid", 3, 5, "U S 1.0 0.3 0 0 B -1 -1 -1 0.2 0.3 0.4"),
    ]
    for alg, dim, lvl, shape in fixed:
        cases.append(dict(alg=alg, dim=dim, level=lvl, shape=shape))
    while len(cases) < n:
        dim = 2 if rng.random() < 0.25 else 3
        alg = rng.choice(["dc", "simplex", "hybrid"])
        lvl = rng.choice([0, 1, 2, 3, 3, 4, 4, 5]) if dim == 3 else rng.choice([0, 1, 2, 3, 4, 5, 6, 7])
        if alg != "dc" and dim == 3 and lvl == 5 and rng.random() < 0.5:
            lvl = 4
        cases.append(dict(alg=alg, dim=dim, level=lvl, shape=gen_shape(rng)))
    lines = []
    for i, c in enumerate(cases):
        half = rng.choice([2.0, 2.0, 2.5, 1.75])
        off = [rng.uniform(-0.3, 0.3) for _ in range(3)]
        lo = [off[k] - half for k in range(3)]
        hi = [off[k] + half for k in range(3)]
        if rng.random() < 0.15:     # non-cubic region
            hi[rng.randrange(3)] += rng.uniform(0.5, 2.0)
        if c["dim"] == 2:
            lo[2] = hi[2] = 0.0
        # Region::withResolution subdivides until the smallest edge is below min_feature
        minfeat = (2 * half) / (2 ** c["level"]) * rng.uniform(1.01, 1.9) if c["level"] > 0 else 100.0
        c.update(id=i, workers=rng.choice([1, 1, 2, 3, 4, 5, 8, 8, 12, 16]), minfeat=minfeat,
                 maxerr=rng.choice([1e-8, 1e-8, -1, 1e-2]), seed=rng.randrange(1, 10 ** 6),
                 yield_p=rng.choice([0.0, 0.05, 0.3]), region=lo + hi)
        lines.append("case %d dim %d alg %s workers %d minfeat %.6f maxerr %g seed %d yield %g region %s shape %s" % (
            i, c["dim"], c["alg"], c["workers"], minfeat, c["maxerr"], c["seed"], c["yield_p"],
            " ".join("%.4f" % v for v in c["region"]), c["shape"]))
    return cases, lines


def gen_controlled(rng, n, first_id):
    """extra renders under the cooperative scheduler (pool trace + tick payloads -> Pool.step / Pool.tickOf)"""
    cases, lines = [], []
    fixed = [("dc", 3, 2, "S 1.3 0.1 0.2 0.05", 2), ("simplex", 3, 1, "S 1.3 0.1 0.2 0.05", 1), ("hybrid", 3, 2, "T 1.1 0.4", 3),
             ("dc", 2, 3, "S 1.0 0.1 0.2 0", 2), ("dc", 3, 3, "D S 1.5 0 0 0 S 0.9 0.3 0.2 0.1", 4), ("hybrid", 2, 4, "S 1.2 0 0 0", 8),
             ("dc", 3, 2, "E", 2), ("simplex", 3, 0, "S 1.0 0 0 0", 2)]
    for k in range(n):
        if k < len(fixed):
            alg, dim, lvl, shape, workers = fixed[k]
        else:
            dim = 2 if rng.random() < 0.3 else 3
            alg = rng.choice(["dc", "simplex", "hybrid"])
            lvl = rng.choice([1, 2, 2, 3]) if dim == 3 else rng.choice([1, 2, 3, 4, 5])
            if alg != "dc" and dim == 3 and lvl == 3:
                lvl = 2
            shape = gen_shape(rng)
            workers = rng.choice([1, 2, 3, 4, 8])
        half = 2.0
        off = [rng.uniform(-0.3, 0.3) for _ in range(3)]
        lo = [off[j] - half for j in range(3)]
        hi = [off[j] + half for j in range(3)]
        if dim == 2:
            lo[2] = hi[2] = 0.0
        minfeat = (2 * half) / (2 ** lvl) * rng.uniform(1.01, 1.9) if lvl > 0 else 100.0
        c = dict(alg=alg, dim=dim, level=lvl, shape=shape, id=first_id + k, workers=workers, minfeat=minfeat,
                 maxerr=rng.choice([1e-8, -1, 1e-2]), seed=rng.randrange(1, 10 ** 6), yield_p=0.0, region=lo + hi, mode="controlled")
        cases.append(c)
        lines.append("case %d dim %d alg %s workers %d minfeat %.6f maxerr %g seed %d yield 0 mode controlled region %s shape %s" % (
            c["id"], dim, alg, workers, minfeat, c["maxerr"], c["seed"], " ".join("%.4f" % v for v in c["region"]), shape))
    return cases, lines


def pool_tokens(ev):
    """build-phase hook events of a controlled-mode render -> tokens of Driver/C11.lean's pool vocabulary, plus
    t<w>:<payload> for every real tick (same digestion as tools/checks/c11.py, phase 1)"""
    wmap, toks, pend_push, nticks = {}, [], {}, 0
    for w in ev:
        tid, site, a, b, cid = int(w[1]), w[2], int(w[3]), int(w[4]), int(w[5])
        if not site.startswith("pool-") or site == "pool-announce":
            continue
        wi = wmap.setdefault(tid, len(wmap))
        if wi in pend_push and site != "pool-push-local":
            toks.append("u%d:%d:0" % (wi, pend_push.pop(wi)))
        if site == "pool-loop":
            toks.append("l%d" % wi)
        elif site == "pool-pop":
            toks.append("p%d:%d" % (wi, cid))
        elif site == "pool-push":
            pend_push[wi] = cid
        elif site == "pool-push-local":
            toks.append("u%d:%d:1" % (wi, pend_push.pop(wi)))
        elif site == "pool-eval":
            toks.append("e%d:%s" % (wi, "atf"[b]))
        elif site == "pool-collect":
            toks.append("c%d:%d" % (wi, a))
        elif site == "pool-tick":
            toks.append("t%d:%d" % (wi, a)); nticks += 1
        elif site == "pool-exit":
            toks.append("x%d" % wi)
    return toks, nticks


def gen_life(rng, n):
    fixed = ["start next5 tick5 finish finish destroy", "start destroy", "start next5 tick2 destroy", "destroy",
             "start next3 tick3 next2 tick2 next1 tick1 finish finish finish", "start finish finish",
             "start next4 sleep tick1 finish next2 tick2 finish destroy", "start next1 destroy"]
    out = list(fixed)
    while len(out) < n:
        ops = ["start"]
        phases = 0
        for _ in range(rng.randint(0, 8)):
            r = rng.random()
            if r < 0.3 and phases < 3:
                ops.append("next%d" % rng.randint(0, 6)); phases += 1
            elif r < 0.5 and phases > 0:
                ops.append("tick%d" % rng.randint(1, 3))
            elif r < 0.8:
                ops.append("finish")
            elif r < 0.9:
                ops.append("sleep")
            else:
                ops.append("destroy"); break
        out.append(" ".join(ops))
    return ["life %d %s" % (i, o) for i, o in enumerate(out)]


# --------------------------------------------------------------------------- digesting harness output

def split_cases(text):
    cur = None
    for ln in text.splitlines():
        if ln.startswith("case ") or ln.startswith("life "):
            if cur is not None:
                yield cur
            cur = [ln]
        elif cur is not None:
            cur.append(ln)
    if cur is not None:
        yield cur


def digest_case(lines):
    """-> (driver lines, info dict)"""
    head = lines[0].split()
    cid, dim, alg, workers = head[1], int(head[3]), head[5], int(head[7])
    ev = [l.split() for l in lines if l.startswith("e ")]
    info = {"id": cid, "dim": dim, "alg": alg, "workers": workers, "events": len(ev), "complete": lines[-1] == "end"}
    info["mode"] = head[9] if len(head) > 9 else "free"
    kids, kind, level = {}, {}, {}
    root = L = ann = None
    ticks, walk_ticks, walk_ann = [], 0, None
    pools, reset_ann, reset_ticks, in_reset = [], None, 0, False
    for w in ev:
        site, a, b, cid_, par = w[2], int(w[3]), int(w[4]), int(w[5]), int(w[6])
        if site == "pool-announce":
            root, L, ann = cid_, b, a
        elif site == "pool-push":
            kids.setdefault(par, {})[b] = cid_
        elif site == "pool-eval":
            kind[cid_], level[cid_] = b, a
        elif site == "pool-tick":
            ticks.append((a, b, cid_))
        elif site == "dual-tick":
            walk_ticks += 1
        elif site == "dual-announce":
            walk_ann = a
        elif site == "reset-announce":
            in_reset = (b == 1)
            if b == 1:
                reset_ann = a
        elif site == "reset-pool" and in_reset:
            pools.append((a, b >> 32, b & 0xffffffff))
        elif site == "reset-tick" and in_reset:
            reset_ticks += 1
    N = dim
    out = ["case %s N %d L %d workers %d" % (cid, N, L if L is not None else 0, workers)]
    toks, stats = [], {"leaf": 0, "terminal": 0, "branch": 0, "depths": set()}

    def emit(c, lvl):
        k = kind.get(c)
        if level.get(c) != lvl:
            toks.append("X")          # level inconsistency -> unparsable -> MISMATCH
        if k == 2:
            toks.append("L"); stats["leaf"] += 1
        elif k == 1:
            toks.append("T"); stats["terminal"] += 1; stats["depths"].add(lvl)
        elif k == 0:
            ch = kids.get(c, {})
            toks.append("B"); toks.append(str(len(ch))); stats["branch"] += 1
            for i in sorted(ch):
                emit(ch[i], lvl - 1)
        else:
            toks.append("X")
    if root is not None:
        emit(root, L)
    out.append("shape " + " ".join(toks))
    out.append("ticks %d %s" % (len(ticks), " ".join("%d %d %d" % (a, level.get(c, 0), b) for a, b, c in ticks)))
    if info["mode"] == "controlled" and lines[-1] == "end":
        ptoks, pticks = pool_tokens(ev)
        info.update(pool_tokens=len(ptoks), pool_ticks=pticks)
        if ptoks and len(ptoks) <= 60000:
            out.append("pooltrace " + " ".join(ptoks))
            info["pool_replayed"] = True
    ph = [l for l in lines if l.startswith("phases ")]
    phases = []
    if ph:
        w = ph[0].split()
        phases = [(int(w[2 + 3 * i]), int(w[3 + 3 * i]), int(w[4 + 3 * i])) for i in range(int(w[1]))]
    if phases:
        out.append("build %d %d" % (phases[0][1], phases[0][2]))
    fin = [l for l in lines if l.startswith("final")]
    final = fin[0][5:].strip() if fin else ""
    out.append("final " + final)
    if final and len(phases) > 1:
        out.append("walk %d %d %d" % (walk_ticks, phases[1][1], phases[1][2]))
    if len(phases) > 2:
        out.append("pools %d %s" % (len(pools), " ".join("%d %d %d" % p for p in pools)))
        out.append("reset %d %d %d %d" % (reset_ann if reset_ann is not None else -1, reset_ticks, phases[2][1], phases[2][2]))
    out += [l for l in lines if l.startswith("snap ")]
    out.append("end")
    vals = [l for l in lines if l.startswith("values ")]
    values = [float(x) for x in vals[0].split()[2:]] if vals else []
    ret = [l for l in lines if l.startswith("ret ")]
    info.update(level=L, announced=ann, phases=phases, values=values, pools=pools, walk_announced=walk_ann,
                ret=ret[0].split()[1:] if ret else None, shape_stats={k: (sorted(v) if isinstance(v, set) else v) for k, v in stats.items()},
                snaps=sum(1 for l in lines if l.startswith("snap ")))
    return out, info


def digest_life(lines):
    head = lines[0].split()
    ops = head[2:]
    flags = [l.split()[4] for l in lines if l.startswith("e ") and l.split()[2] == "progress" and l.split()[3] == "3"]
    end = [l for l in lines if l.startswith("life-end")]
    return "life %s %s | %s" % (head[1], " ".join(ops), " ".join(flags)), {"id": head[1], "ops": ops, "end": end[0] if end else "life-end missing"}


# --------------------------------------------------------------------------- the check

def run(rep, tier, seed, replay=None):
    rng = random.Random(seed * 104729 + 20)
    aud = common.audit("C20")
    exe = common.build_harness("progress")
    n = 70 if tier == "quick" else 600
    cases, lines = gen_cases(rng, n, tier)
    life = gen_life(rng, 24 if tier == "quick" else 200)
    # controlled-mode renders for the pool/tick tie; drawn after everything else so that the cases above are unchanged
    ccases, clines = gen_controlled(rng, 28 if tier == "quick" else 240, len(cases))
    cases, lines = cases + ccases, lines + clines
    work = os.path.join(common.BUILD, "work")
    os.makedirs(work, exist_ok=True)
    pf = os.path.join(work, "c20-%d-%s.cases" % (seed, tier))
    with open(pf, "w") as f:
        f.write("\n".join(lines + life) + "\n")
    try:
        r = common.run_harness(exe, [pf], timeout=600 if tier == "quick" else 3000)
        out, rc, err = r.stdout, r.returncode, r.stderr
    except subprocess.TimeoutExpired as e:
        out = (e.stdout or b"").decode() if isinstance(e.stdout, bytes) else (e.stdout or "")
        rc, err = -9, "timeout"
    blocks = list(split_cases(out))
    by_line = {l.split()[1]: l for l in lines}
    if rc != 0:
        last = blocks[-1][0] if blocks else "(none)"
        rep.violation("progress harness died / hung rc=%s in: %s" % (rc, last[:200]),
                      {"kind": "harness-crash", "cases": pf, "last_case": last, "stderr": err[-2000:]})
    drv_in, infos, lifes, drv_by_case = [], [], [], {}
    for b in blocks:
        if b[0].startswith("case "):
            d, info = digest_case(b)
            drv_in += d
            drv_by_case[info["id"]] = [x[:2000] for x in d if not x.startswith("snap ")]
            infos.append(info)
        else:
            d, info = digest_life(b)
            drv_in.append(d)
            lifes.append(info)
    verdicts = common.run_driver("c20", "\n".join(drv_in) + "\n").splitlines()

    # ---- property oracle on the real code (independent of the model)
    found = set()
    n_inter = 0
    for info in infos:
        cid = info["id"]
        how = {"case_line": by_line.get(cid), "how": "put the case line into a file and run .build/plain/harness/progress <file>"}
        if not info["complete"]:
            continue
        v = info["values"]
        n_inter += sum(1 for x in v if 0.0 < x < 1.0)
        bad = [x for x in v if not (0.0 <= x <= 1.0)]
        dec = [(a, b) for a, b in zip(v, v[1:]) if b < a]
        if bad or dec:
            found.add(cid)
            rep.violation("progress values not monotone within [0,1]: out-of-range %s decreasing %s" % (bad[:3], dec[:3]),
                          dict(how, kind="oracle", values=v))
        if info["ret"] and info["ret"][0] != "-1" or info["dim"] == 2:
            for k, (w, total, counter) in enumerate(info["phases"]):
                if counter != total:
                    found.add(cid)
                    pools = info["pools"]
                    # the known mechanism: an empty pool level precedes a non-empty one, so workers=0 is passed down
                    first_empty = next((i for i, p in enumerate(pools) if p[1] + p[2] == 0), None)
                    mech = (k == 2 and first_empty is not None and counter < total
                            and any(p[1] + p[2] > 0 for p in pools[first_empty + 1:])
                            and counter == sum(p[1] + p[2] for p in pools[:first_empty]))
                    rep.violation("phase %d of an uncancelled render received %d of %d announced ticks (%s, %dD, level %s, pools %s)"
                                  % (k, counter, total, info["alg"], info["dim"], info["level"], pools),
                                  dict(how, kind="oracle", phases=info["phases"], pools=pools),
                                  key=KEY_RESET if mech else None)
    for lf in lifes:
        if lf["end"] != "life-end ok":
            found.add("life-" + lf["id"])
            rep.violation("handler life-cycle scenario did not end normally (%s): %s" % (lf["end"], " ".join(lf["ops"])),
                          {"kind": "oracle", "ops": lf["ops"], "end": lf["end"],
                           "how": "life <id> <ops> line into a file; .build/plain/harness/progress <file>"})

    # ---- correspondence verdicts
    mism = [v for v in verdicts if v.startswith("MISMATCH")]
    for m in mism[:10]:
        w = m.split()
        cid = w[2] if len(w) > 2 else "?"
        if cid in found:
            continue
        found.add(cid)
        if " poolticks" in m:
            rep.violation("model/implementation correspondence broken (stream C20.poolticks): %s" % m[:300],
                          {"kind": "correspondence", "stream": "C20 pool trace + tick payloads (LibfiveModel/Pool.lean, PoolTicks.lean: Pool.step / Pool.tickOf)",
                           "verdict": m, "driver_input": drv_by_case.get(cid), "case_line": by_line.get(cid),
                           "how": "put the case line into a file and run .build/plain/harness/progress <file>",
                           "theorems_affected": ["Libfive.C20.pool_ticks_complete", "Libfive.C20.pool_ticks_monotone_bounded",
                                                 "Libfive.C20.pool_ticks_accounting"]},
                          no_input=True)
            continue
        rep.violation("model/implementation correspondence broken (stream C20.ticks): %s" % m[:300],
                      {"kind": "correspondence", "stream": "C20 tick accounting (LibfiveModel/Progress.lean)", "verdict": m,
                       "driver_input": drv_by_case.get(cid),
                       "case_line": by_line.get(cid), "theorems_affected": ["Libfive.C20.ticks_eq_total", "Libfive.C20.walk_ticks", "Libfive.C20.reset_ticks"]},
                      no_input=True)
    if not aud["ok"]:
        common.report_broken_proof(rep, aud)

    done = [i for i in infos if i["complete"]]
    cov = common.proof_coverage(aud, {
        "evaluations": len(done) + len(lifes),
        "distinct_nontrivial": sum(1 for i in done if i["shape_stats"]["branch"] > 0),
        "rule": "random CSG shapes x {dc, simplex, hybrid} x {2D, 3D} x levels 0..7 x workers 1..16 x max_err {1e-8,-1,1e-2} "
                "x seeded random yields at the hook points; non-trivial = the octree has at least one branch",
        "correspondence": {
            "verdicts_ok": sum(1 for v in verdicts if v.startswith("ok")), "mismatch": len(mism),
            "agree_defect": sum(1 for v in verdicts if v.startswith("agree-defect")),
            "events_replayed": sum(i["events"] for i in done),
            "state_samples": sum(i["snaps"] for i in done),
            "intermediate_progress_values": n_inter,
            "algs": {a: sum(1 for i in done if i["alg"] == a) for a in ("dc", "simplex", "hybrid")},
            "dims": {d: sum(1 for i in done if i["dim"] == d) for d in (2, 3)},
            "levels": {str(l): sum(1 for i in done if i["level"] == l) for l in sorted({i["level"] for i in done if i["level"] is not None})},
            "workers": sorted({i["workers"] for i in done}),
            "terminal_depths_seen": sorted({d for i in done for d in i["shape_stats"]["depths"]}),
            "single_cell_roots": sum(1 for i in done if i["shape_stats"]["branch"] == 0),
            "life_scenarios": len(lifes),
            "pool_tick_tie": {
                "controlled_renders": sum(1 for i in done if i.get("mode") == "controlled"),
                "pool_traces_replayed": sum(1 for i in done if i.get("pool_replayed")),
                "pool_tokens_replayed": sum(i.get("pool_tokens", 0) for i in done if i.get("pool_replayed")),
                "tick_events_compared": sum(i.get("pool_ticks", 0) for i in done if i.get("pool_replayed")),
                "verdicts_ok": sum(1 for v in verdicts if v.startswith("ok") and " poolticks" in v),
                "verdicts_mismatch": sum(1 for v in mism if " poolticks" in v),
                "traces_with_pruned_cells": sum(1 for i in done if i.get("pool_replayed") and i["shape_stats"]["terminal"] > 0 and i["shape_stats"]["branch"] > 0),
                "workers": sorted({i["workers"] for i in done if i.get("pool_replayed")}),
                "levels": sorted({i["level"] for i in done if i.get("pool_replayed") and i["level"] is not None}),
                "dims": sorted({i["dim"] for i in done if i.get("pool_replayed")}),
            },
        },
        "trace_refinement": {"traces": len(done), "events": sum(i["events"] for i in done), "mode": "free (seeded yields)"},
        "samples": lines[:2] + life[:2],
    })
    return rep.finish("proof", cov, ASSUMPTIONS)
