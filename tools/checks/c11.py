"""C11 — cancellation yields nothing or a complete result, and always terminates."""
import os
import random
import subprocess

import common

ASSUMPTIONS = [
    "Theorems are about two Lean models: the control flow of Mesh::render over a clock of cancellation points "
    "(LibfiveModel/Render.lean) and the worker-pool transition system + branch counter protocol (LibfiveModel/Pool.lean).",
    "Tie (trace refinement): the real code raises cancel at the k-th visit of a hook site. Controlled mode: a cooperative "
    "scheduler in the hook lets one worker run at a time, the event log is the real total order and is replayed event by "
    "event through Pool.step; free mode: real parallelism with seeded yields, only order-insensitive consequences are "
    "checked (per-branch pending flags: exactly one 'saw 0' among exactly the expected arrivals; pushed = popped; counts).",
    "Render-level replay: the number of loop-head reads of the flag per phase and the position of the raise are taken from "
    "the trace and fed to Render.render, whose answer (null / complete / partial) must equal what the call returned.",
    "boost::lockfree::stack is modelled as a linearizable bag of capacity `workers`; std::atomic RMW as atomic steps; "
    "std::async/future as thread creation/join. Wall-clock bounds are not modelled: the watchdog is 60 s per call.",
    "'Complete' for a returned mesh means: no more unpaired directed edges than the uncancelled render of the same input (0 for "
    "the shapes used), all indices valid, and - when the hook trace shows that the index or walk phase did not reach its root - "
    "the same triangle/vertex counts as the uncancelled render (HYBRID output is schedule dependent, so counts alone are not used).",
    "worker_progress is proved only partially (worker_progress_partial): once cancel or done is set the loop-head step is "
    "rejected and the exit step enabled; a worker at the loop head, picking a task or walking up the tree always has an enabled "
    "step; exited workers take no step. The global termination measure and the enabledness of the eval/split states are NOT "
    "proved: termination without cancel rests on the replayed traces (every accepted uncancelled trace ends with the root "
    "collected, all tasks popped, all workers out of their loops) and on the watchdog oracle. Fairness of the OS scheduler is assumed.",
    "The dual walk is replayed through Pool.step for trees without singletons (simplex, hybrid); for DC and for "
    "assignIndices only the per-branch counter protocol is checked.",
]

KEY_LATE = "C11:no-cancel-check-after-assignIndices-or-walk"

SHAPES = [
    "S 1.3 0.1 0.2 0.05",
    "D S 1.5 0 0 0 S 0.9 0.3 0.2 0.1",
    "U S 0.9 -0.5 0 0 B -0.2 -0.7 -0.6 1.2 0.6 0.7",
    "T 1.1 0.4",
    "I B -1.5 -1.5 -1.5 1.5 1.5 1.5 G 2.1 0.1",
]
SITES = [  # (site, a, b, which algs)
    ("pool-pop", -1, -1, None), ("pool-collect", 1, -1, None), ("pool-eval", -1, -1, None), ("pool-loop", -1, -1, None),
    ("index-pop", -1, -1, ("simplex",)), ("index-pending", 1, -1, ("simplex",)), ("index-loop", -1, -1, ("simplex",)),
    ("dual-pop", -1, -1, None), ("dual-pending", 1, -1, None), ("dual-leaf", -1, -1, None), ("dual-loop", -1, -1, None),
    ("pool-exit", -1, -1, None), ("dual-exit", -1, -1, None),
    ("phase", 1, 0, None), ("phase", 1, 1, None), ("phase", 2, 0, ("simplex", "hybrid")), ("phase", 2, 1, ("simplex", "hybrid")),
    ("phase", 3, 0, None), ("phase", 4, 0, ("simplex", "hybrid")), ("phase", 5, 0, None), ("phase", 3, 1, None),
    ("phase", 6, 0, None), ("phase", 6, 1, None),
]
KS = [1, 2, 3, 4, 5, 6, 8, 11, 15, 21, 30, 44, 65, 97, 150, 230, 400]


def gen_cases(rng, n, tier):
    cases = []
    combos = [(sh, alg) for sh in SHAPES for alg in ("dc", "simplex", "hybrid")]
    rng.shuffle(combos)
    # uncancelled runs for every combination, both modes
    for sh, alg in combos:
        for mode in ("controlled", "free"):
            cases.append(dict(shape=sh, alg=alg, mode=mode, site="none", a=-1, b=-1, k=0))
    # every site at k = 1 and at a few larger k, spread over the combinations
    i = 0
    while len(cases) < n:
        sh, alg = combos[i % len(combos)]
        i += 1
        site, a, b, algs = rng.choice(SITES)
        if algs and alg not in algs:
            continue
        k = 1 if site == "phase" else rng.choice(KS)
        mode = "controlled" if rng.random() < 0.5 else "free"
        cases.append(dict(shape=sh, alg=alg, mode=mode, site=site, a=a, b=b, k=k))
    lines = []
    for j, c in enumerate(cases):
        ctl = c["mode"] == "controlled"
        lvl = rng.choice([1, 2, 2]) if ctl else rng.choice([2, 3, 3, 4 if c["alg"] == "dc" else 3])
        c.update(id=j, workers=rng.choice([1, 2, 3, 4, 8] if ctl else [1, 2, 4, 8, 8]), level=lvl,
                 minfeat=4.0 / (2 ** lvl) * 1.2, seed=rng.randrange(1, 10 ** 6), yield_p=0 if ctl else rng.choice([0.0, 0.1, 0.4]),
                 maxerr=rng.choice([1e-8, 1e-8, -1]))
        lines.append("case %d alg %s workers %d minfeat %.5f maxerr %g seed %d mode %s yield %g site %s a %d b %d k %d log 1 "
                     "region -2 -2 -2 2 2 2 shape %s" % (j, c["alg"], c["workers"], c["minfeat"], c["maxerr"], c["seed"], c["mode"],
                                                         c["yield_p"], c["site"], c["a"], c["b"], c["k"], c["shape"]))
    return cases, lines


def split_cases(text):
    cur = None
    for ln in text.splitlines():
        if ln.startswith("case ") or ln.startswith("hang "):
            if cur is not None:
                yield cur
            cur = [ln]
        elif cur is not None:
            cur.append(ln)
    if cur is not None:
        yield cur


def digest(lines, case):
    """-> (driver lines, info)"""
    ev = [l.split() for l in lines if l.startswith("e ")]
    alg, workers, ctl = case["alg"], case["workers"], case["mode"] == "controlled"
    info = {"id": str(case["id"]), "events": len(ev), "complete_output": lines[-1] == "end"}
    for l in lines:
        w = l.split()
        if w[0] == "ret":
            info["ret"] = (w[1], [int(x) for x in w[2:]])
        elif w[0] == "ref":
            info["ref"] = [int(x) for x in w[1:]]
        elif w[0] == "raised":
            info.update(raised=w[1] == "1", visits=int(w[3]), elapsed_ms=int(w[5]))
    if "ret" not in info:
        return [], info
    root = L = None
    wmap = {}
    toks, pend_push = [], {}
    wtoks, wpend, wlevel = [], {}, {}
    phase = None
    reads, raise_clock = 0, None
    loops = {1: 0, 2: 0, 3: 0}
    complete = {1: False, 2: alg != "simplex", 3: False}
    need_mesh_check = False
    amb = coll = last = pushed = popped = 0
    pend = {2: {}, 3: {}}       # phase -> branch id -> flags
    kids3, nonsingle = {}, set()
    synthetic = not ctl
    pending_loop = None
    # A worker's first `while (!done && !cancel)` is evaluated before it reaches its first hook point, at an unknown
    # moment after thread creation; the flag only goes up, so a first read that passed is counted at the phase start
    # (same argument as Driver.C11.hoistFirstLoops).
    LOOP_PHASE = {"pool-loop": 1, "index-loop": 2, "dual-loop": 3}
    first_loop, hoisted = set(), {1: 0, 2: 0, 3: 0}
    seen_tid = set()
    for idx, w in enumerate(ev):
        if w[2] in LOOP_PHASE and int(w[1]) not in seen_tid:
            first_loop.add(idx); hoisted[LOOP_PHASE[w[2]]] += 1
        if w[2] not in ("phase", "cancel"):
            seen_tid.add(int(w[1]))
    for idx, w in enumerate(ev):
        tid, site, a, b, cid, par = int(w[1]), w[2], int(w[3]), int(w[4]), int(w[5]), int(w[6])
        if pending_loop is not None and site != "cancel":
            loops[pending_loop] += 1
            reads += 1
            pending_loop = None
        if need_mesh_check and site != "cancel":
            reads += 1          # mesh.cpp: `if (settings.cancel.load() || t.get() == nullptr)`
            need_mesh_check = False
        if site == "phase":
            if b == 0 and a in (1, 2, 3):
                phase = a
                if ctl:
                    loops[a] += hoisted[a]; reads += hoisted[a]
                if synthetic and (a != 2 or alg == "simplex"):
                    pending_loop = a      # free mode: one synthetic loop-head read right after the phase begins
            elif b == 1 and a in (1, 2, 3):
                phase = None
            if a == 1 and b == 1:
                reads += 1      # end of WorkerPool::build: `if (settings.cancel.load())`
                need_mesh_check = True
            if (a == 2 or a == 3) and b == 1:
                need_mesh_check = True   # mesh.cpp: `if (settings.cancel.load())` after assignIndices / after the walk
            continue
        if site == "cancel":
            # in free mode only main-thread raises are ordered; the synthetic loop read of the phase just begun comes after
            raise_clock = reads + (0 if ctl else 0)
            if phase == 1 and ctl:
                toks.append("X")
            if phase == 3 and ctl and alg != "dc":
                wtoks.append("X")
            info["raise_phase"] = phase
            continue
        if site == "pool-announce":
            root, L = cid, b
            continue
        wi = wmap.setdefault(tid, len(wmap))
        if site.endswith("-loop") and idx not in first_loop:
            loops[LOOP_PHASE[site]] += 1
            reads += 1
        if phase == 1 and site.startswith("pool-"):
            if wi in pend_push and site != "pool-push-local":
                toks.append("u%d:%d:0" % (wi, pend_push.pop(wi)))
            if site == "pool-loop":
                toks.append("l%d" % wi)
            elif site == "pool-pop":
                toks.append("p%d:%d" % (wi, cid)); popped += 1
            elif site == "pool-push":
                pend_push[wi] = cid; pushed += 1
            elif site == "pool-push-local":
                toks.append("u%d:%d:1" % (wi, pend_push.pop(wi)))
            elif site == "pool-eval":
                toks.append("e%d:%s" % (wi, "atf"[b]))
                if b == 0:
                    amb += 1
                elif cid == root:
                    complete[1] = True
            elif site == "pool-collect":
                toks.append("c%d:%d" % (wi, a)); coll += 1; last += a
                if a == 1 and cid == root:
                    complete[1] = True
            elif site == "pool-exit":
                toks.append("x%d" % wi)
        elif phase == 3 and site.startswith("dual-") and ctl and alg != "dc":
            # the dual walk of a tree without singletons, in the vocabulary of Pool.step
            if wi in wpend and site != "dual-push-local":
                wtoks.append("u%d:%d:0" % (wi, wpend.pop(wi)))
            if site == "dual-loop":
                wtoks.append("l%d" % wi)
            elif site == "dual-pop":
                wtoks.append("p%d:%d" % (wi, cid))
                if cid == root:
                    wlevel[cid] = L
                if a == 1:
                    wtoks.append("e%d:a" % wi)
            elif site == "dual-push":
                wpend[wi] = cid
                wlevel[cid] = wlevel.get(par, 0) - 1
            elif site == "dual-push-local":
                wtoks.append("u%d:%d:1" % (wi, wpend.pop(wi)))
            elif site == "dual-leaf":
                wtoks.append("e%d:%s" % (wi, "f" if wlevel.get(cid, 0) == 0 else "t"))
            elif site == "dual-exit":
                wtoks.append("x%d" % wi)
            if site == "dual-pending":
                wtoks.append("c%d:%d" % (wi, a))
                pend[3].setdefault(cid, []).append(a)
                if a == 1 and cid == root:
                    complete[3] = True
            elif site == "dual-push":
                kids3.setdefault(par, set()).add(cid)
            elif site == "dual-leaf":
                nonsingle.add(cid)
                if cid == root:
                    complete[3] = True
            elif site == "dual-pop" and a == 1:
                nonsingle.add(cid)
        elif site == "index-pending":
            pend[2].setdefault(cid, []).append(a)
            if a == 1 and cid == root:
                complete[2] = True
        elif site == "index-leaf" and cid == root:
            complete[2] = True
        elif site == "dual-pending":
            pend[3].setdefault(cid, []).append(a)
            if a == 1 and cid == root:
                complete[3] = True
        elif site == "dual-push":
            kids3.setdefault(par, set()).add(cid)
        elif site == "dual-leaf":
            nonsingle.add(cid)
            if cid == root:
                complete[3] = True
        elif site == "dual-pop" and a == 1:
            nonsingle.add(cid)
    if need_mesh_check:
        reads += 1
    def hoist_root_exit(ts):
        """The worker that collects the root leaves its loop and stores `done = true` BEFORE it reaches its exit hook
        (the hook sits after the store), and under the cooperative scheduler its exit event is only logged when that
        worker is picked again; a worker that runs in between already sees `done` and logs its own exit first.  The
        model's exitRoot step sets `done` when the root collector's exit token is replayed, so exit tokens of OTHER
        workers that were logged between the root-collect token and the root collector's exit token are moved to
        directly after it (loop-head tokens stay where they are; no pool state changes in between)."""
        last = max((i for i, t in enumerate(ts) if t[0] == "c" and t.endswith(":1")), default=None)
        if last is None:
            return ts
        w = ts[last][1:].split(":")[0]
        for j in range(last + 1, len(ts)):
            if ts[j] == "x" + w:
                between = ts[last + 1:j]
                if all(t[0] in "lx" for t in between) and any(t[0] == "x" for t in between):
                    early = [t for t in between if t[0] == "x"]
                    rest = [t for t in between if t[0] != "x"]
                    ts = ts[:last + 1] + rest + [ts[j]] + early + ts[j + 1:]
                break
        return ts

    toks, wtoks = hoist_root_exit(toks), hoist_root_exit(wtoks)
    out = ["case %s alg %s n 8 workers %d L %d mode %s" % (case["id"], alg, workers, L or 0, case["mode"])]
    if ctl and toks and len(toks) <= 60000:
        out.append("pool " + " ".join(toks))
    if ctl and wtoks and len(wtoks) <= 60000:
        out.append("walkpool " + " ".join(wtoks))
    nbranch = 0
    if complete[2] and alg == "simplex":
        for p, flags in pend[2].items():
            out.append("branch index %d 8 %s" % (1 if ctl else 0, " ".join(map(str, flags)))); nbranch += 1
    if complete[3]:
        for p, flags in pend[3].items():
            exp = len([c for c in kids3.get(p, ()) if c in nonsingle])
            out.append("branch walk %d %d %s" % (1 if ctl else 0, exp, " ".join(map(str, flags)))); nbranch += 1
    if complete[1] and not (info.get("raised") and info.get("raise_phase") == 1):
        out.append("counts %d %d %d %d %d" % (amb, coll, last, pushed + 1, popped))
    ret, ref = info["ret"], info["ref"]
    # "complete" for the oracle: closed like the reference, valid indices, and not the visibly truncated product of an
    # interrupted phase.  Triangle counts alone cannot be used: HYBRID output depends on the schedule (4000 vs 4032
    # triangles for the same torus, both closed), so equality with the reference is only required when a phase was cut short.
    if ret[0] == "null":
        real = "null"
    elif ret[1][2] > ref[2] or ret[1][3] > 0 or (not all(complete.values()) and ret[1][:2] != ref[:2]):
        real = "partial"
    else:
        real = "complete"
    info["real"] = real
    info["same_as_ref"] = ret[0] != "null" and ret[1][:2] == ref[:2]
    main_site = case["site"] in ("phase", "none")
    if ctl or main_site or not info.get("raised"):
        n = {p: loops[p] + (0 if complete[p] else 1) for p in (1, 2, 3)}
        # for the model, "complete" is a fact about the trace (every phase reached its root); a mesh that merely
        # coincides with the reference (e.g. nothing to mesh at this resolution) is still "partial" there
        real_m = "null" if real == "null" else ("complete" if all(complete.values()) else "partial")
        out.append("render %d %d %d %s %s" % (n[1], n[2] if alg == "simplex" else 0, n[3],
                                              raise_clock if raise_clock is not None else "none", real_m))
    out.append("end")
    info.update(L=L, complete=complete, branches=nbranch, pool_tokens=(len(toks) + len(wtoks)) if ctl else 0, walk_tokens=len(wtoks), loops=loops, raise_clock=raise_clock)
    return out, info


def run(rep, tier, seed, replay=None):
    rng = random.Random(seed * 15485863 + 11)
    aud = common.audit("C11")
    exe = common.build_harness("cancel")
    n = 230 if tier == "quick" else 2500
    cases, lines = gen_cases(rng, n, tier)
    work = os.path.join(common.BUILD, "work")
    os.makedirs(work, exist_ok=True)
    pf = os.path.join(work, "c11-%d-%s.cases" % (seed, tier))
    with open(pf, "w") as f:
        f.write("\n".join(lines) + "\n")
    try:
        r = common.run_harness(exe, [pf], timeout=900 if tier == "quick" else 6000)
        out, rc, err = r.stdout, r.returncode, r.stderr
    except subprocess.TimeoutExpired as e:
        out = e.stdout.decode() if isinstance(e.stdout, bytes) else (e.stdout or "")
        rc, err = -9, "timeout"
    blocks = list(split_cases(out))
    found = set()
    if rc != 0:
        hang = [b[0] for b in blocks if b[0].startswith("hang ")]
        lastcase = [b[0] for b in blocks if b[0].startswith("case ")][-1:] or ["(none)"]
        cid = lastcase[0].split()[1] if lastcase[0].startswith("case") else "?"
        found.add(cid)
        line = lines[int(cid)] if cid.isdigit() and int(cid) < len(lines) else None
        rep.violation("render did not return within the watchdog / harness died (rc=%s): %s" % (rc, (hang or lastcase)[0][:200]),
                      {"kind": "oracle-termination", "case_line": line, "cases": pf, "stderr": err[-1500:],
                       "how": "put the case line into a file and run .build/plain/harness/cancel <file>"})
    drv_in, infos = [], []
    drv_by_case = {}
    for b in blocks:
        if not b[0].startswith("case "):
            continue
        cid = int(b[0].split()[1])
        d, info = digest(b, cases[cid])
        info["case"] = cases[cid]
        drv_in += d
        drv_by_case[str(cid)] = [x[:3000] for x in d]
        infos.append(info)
    verdicts = common.run_driver("c11", "\n".join(drv_in) + "\n", timeout=600).splitlines()

    # ---- property oracle on the real code
    stats = {"null": 0, "complete": 0, "partial": 0, "raised": 0, "not_reached": 0}
    for info in infos:
        if "ret" not in info:
            continue
        c, cid = info["case"], info["id"]
        how = {"case_line": lines[int(cid)], "how": "put the case line into a file and run .build/plain/harness/cancel <file>",
               "ret": info["ret"], "ref": info["ref"], "raised": info.get("raised"), "visits": info.get("visits")}
        stats[info["real"]] += 1
        stats["raised" if info.get("raised") else "not_reached"] += 1
        ret = info["ret"]
        if ret[0] == "mesh" and ret[1][3] > 0:
            found.add(cid)
            rep.violation("returned mesh has %d invalid vertex indices" % ret[1][3], dict(how, kind="oracle"))
        if not info.get("raised"):
            if info["real"] != "complete":
                found.add(cid)
                rep.violation("render without cancellation returned %s (expected the reference mesh)" % info["real"],
                              dict(how, kind="oracle"))
            continue
        if info["real"] == "partial":
            found.add(cid)
            late = (c["site"].startswith("index-") or c["site"].startswith("dual-")
                    or (c["site"] == "phase" and (c["a"], c["b"]) in ((2, 0), (2, 1), (3, 0))))
            rep.violation("cancel raised at visit %d of %s(a=%d,b=%d) [%s, %d workers, %s mode]: non-null PARTIAL mesh returned: "
                          "%d triangles / %d unpaired directed edges, the uncancelled render has %d / %d"
                          % (c["k"], c["site"], c["a"], c["b"], c["alg"], c["workers"], c["mode"], ret[1][0], ret[1][2],
                             info["ref"][0], info["ref"][2]),
                          dict(how, kind="oracle"), key=KEY_LATE if late else None)
    # ---- correspondence
    mism = [v for v in verdicts if v.startswith("MISMATCH")]
    for m in mism[:10]:
        w = m.split()
        cid = w[2] if len(w) > 2 else "?"
        if cid in found:
            continue
        found.add(cid)
        rep.violation("model/implementation correspondence broken (stream C11.trace): %s" % m[:300],
                      {"kind": "correspondence", "stream": "C11 pool trace / render flow (LibfiveModel/Pool.lean, Render.lean)",
                       "verdict": m, "case_line": lines[int(cid)] if cid.isdigit() else None,
                       "driver_input": drv_by_case.get(cid),
                       "theorems_affected": ["Libfive.C11.render_repaired", "Libfive.C11.no_lost_task", "Libfive.C11.last_arriver"]},
                      no_input=True)
    if not aud["ok"]:
        common.report_broken_proof(rep, aud)
    done = [i for i in infos if "ret" in i]
    cov = common.proof_coverage(aud, {
        "evaluations": len(done),
        "distinct_nontrivial": len({(i["case"]["shape"], i["case"]["alg"], i["case"]["site"], i["case"]["a"], i["case"]["b"], i["case"]["k"],
                                     i["case"]["mode"], i["case"]["workers"]) for i in done if i.get("raised")}),
        "rule": "5 CSG shapes x {dc, simplex, hybrid} x workers 1..8 x levels 1..4 x {controlled, free} x cancel raised at the k-th visit "
                "of every hook site (pool loop/pop/eval/collect/exit, index pop/pending, dual pop/leaf/pending/exit, all phase boundaries); "
                "non-trivial = the flag was actually raised",
        "correspondence": {
            "verdicts_ok": sum(1 for v in verdicts if v.startswith("ok")), "mismatch": len(mism),
            "agree_defect": sum(1 for v in verdicts if v.startswith("agree-defect")),
            "results": stats,
            "sites": {s: sum(1 for i in done if i["case"]["site"] == s) for s in sorted({i["case"]["site"] for i in done})},
            "modes": {m: sum(1 for i in done if i["case"]["mode"] == m) for m in ("controlled", "free")},
            "algs": {a: sum(1 for i in done if i["case"]["alg"] == a) for a in ("dc", "simplex", "hybrid")},
            "max_elapsed_ms": max([i.get("elapsed_ms", 0) for i in done] or [0]),
        },
        "trace_refinement": {"traces": sum(1 for i in done if i.get("pool_tokens")), "events": sum(i["events"] for i in done),
                             "pool_tokens_replayed": sum(i.get("pool_tokens", 0) for i in done),
                             "of_which_dual_walk_tokens": sum(i.get("walk_tokens", 0) for i in done),
                             "branch_protocols_checked": sum(i.get("branches", 0) for i in done),
                             "schedules": "controlled: seeded cooperative scheduler; free: seeded yields"},
        "samples": lines[:2] + lines[-2:],
    })
    return rep.finish("proof", cov, ASSUMPTIONS)
