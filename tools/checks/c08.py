"""C08 — saved shapes load back as the same shapes; the opcode numbering is pinned."""
import os
import random

import common
import gen_c08
import translate_opcodes

ASSUMPTIONS = [
    "Theorems are about the Lean model of Serializer / Deserializer / Tree::walk / Tree::nullary,unary,binary "
    "(LibfiveModel/Serialize.lean): byte-level, for every archive (any number of shapes, any byte strings, shared "
    "roots, shared sub-expressions). Constants are bit patterns; load-time constant folding is an uninterpreted parameter.",
    "The format has no remap/apply: the model takes the flattening as a parameter (serializeFlat); the harness supplies "
    "t.flatten() and the run checks that the real serializer writes exactly the model's bytes for it; that flatten "
    "preserves the function is C07 (flatten_sound).",
    "Tie: (T) opcode table, args/commutative/idempotent switches, END_OF_ITEM, tags regenerated from the source on every "
    "run and compared with the pinned tables by `decide`; (C) real walk order, real bytes, real loaded archive, cerr "
    "classes and exceptions compared with the model on generated archives and on malformed streams.",
    "ORACLE clauses (plug-in serializers) are outside the model; streams containing opcode 32 are only compared up to "
    "the loader's early return.",
    "Where the C++ continues on an uninitialised object (short read of a word, variable index not found) the model "
    "stops with `indeterminate` and only the messages printed before that point are compared.",
]



def split_cases(text):
    out, cur = {}, None
    for ln in text.splitlines():
        w = ln.split()
        if not w:
            continue
        if w[0] == "case":
            cur = out.setdefault(w[1], [])
        if cur is not None:
            cur.append(ln)
    return out


def prog_cases(lines):
    out, cur = {}, None
    for ln in lines:
        if ln.startswith("case "):
            cur = out.setdefault(ln.split()[1], [])
        if cur is not None:
            cur.append(ln)
    return out


def is_nan_bits(h):
    v = int(h, 16)
    return (v >> 23) & 0xff == 0xff and v & 0x7fffff != 0


def oracle_case(inp, obs):
    """Property oracle on one archive case: what went in (program lines) vs what the real library loaded.
    Returns a list of (kind, detail)."""
    fails = []
    shapes_in = [l.split() for l in inp if l.startswith("shape ")]
    o = {}
    for l in obs:
        w = l.split()
        o.setdefault(w[0], []).append(w)
    if "crash" in o:
        return [("crash", " ".join(o["crash"][0]))]
    if o.get("serexc", [["", "none"]])[0][1] != "none":
        fails.append(("serialize-threw", o["serexc"][0][1]))
    if o.get("exc", [["", "none"]])[0][1] != "none":
        fails.append(("deserialize-threw", o["exc"][0][1]))
        return fails
    if "log" in o and o["log"][0][1] != "0":
        fails.append(("loader-complained", " ".join(o["log"][0][1:8])))
    ls = o.get("lshape", [])
    if len(ls) != len(shapes_in):
        fails.append(("shape-count", "%d in, %d out" % (len(shapes_in), len(ls))))
        return fails
    wants = named_per_shape(obs)
    for i, (si, lo) in enumerate(zip(shapes_in, ls)):
        name, doc = si[2], si[3]
        lname, ldoc = lo[lo.index("name") + 1], lo[lo.index("doc") + 1]
        if name != lname:
            fails.append(("name", "shape %d: %s -> %s" % (i, name, lname)))
        if doc != ldoc:
            fails.append(("doc", "shape %d: %s -> %s" % (i, doc, ldoc)))
        # variable names: every named variable that occurs in the tree must come back, under its name
        want = sorted(wants[i]) if i < len(wants) else []
        k = lo.index("vars")
        got = sorted(lo[k + 3::2]) if int(lo[k + 1]) else []
        unreach = int(lo[lo.index("unreach") + 1])
        if want != got or unreach:
            fails.append(("var-names", "shape %d: want %s got %s (+%d bound to nothing in the tree)" % (i, want, got, unreach)))
    for w in o.get("evalexc", []):
        fails.append(("reloaded-tree-unusable", " ".join(w)))
    for w in o.get("eval", []):
        a, b = w[3], w[4]
        if a != b and not (is_nan_bits(a) and is_nan_bits(b)):
            fails.append(("value", "shape %s point %s: original %s reloaded %s" % (w[1], w[2], a, b)))
    n_eval = len(o.get("eval", []))
    if not o.get("evalexc") and n_eval == 0 and "nshapes" in o:
        fails.append(("no-evaluation", "oracle did not evaluate"))
    return fails


def reachable_named(shape_words, stored):
    """names of the shape's variables whose node is in the id table when the shape's variable section is
    written (`stored` = dag ids walked so far, this shape included): those are the ones the serializer writes"""
    k = shape_words.index("vars")
    n = int(shape_words[k + 1])
    out = []
    for j in range(n):
        vid, nm = shape_words[k + 2 + 2 * j], shape_words[k + 3 + 2 * j]
        if vid in stored:
            out.append(nm)
    return out


def named_per_shape(ob):
    """[names expected back] per shape of one observed case"""
    shapes = [l.split() for l in ob if l.startswith("shape ")]
    walks = [l.split() for l in ob if l.startswith("walk ")]
    stored, out = set(), []
    for sw, ww in zip(shapes, walks):
        stored |= set(ww[3:])
        out.append(reachable_named(sw, stored))
    return out


def run(rep, tier, seed, replay=None):
    rng = random.Random(seed * 104729 + 8)
    info = translate_opcodes.generate()
    aud = common.audit("C08")
    exe = common.build_harness("serial")
    work = os.path.join(common.BUILD, "work")
    os.makedirs(work, exist_ok=True)

    # ------------------------------------------------------------ phase 1: generated archives
    n = 1000 if tier == "quick" else 4000
    lines, metas = [], {}
    corpus_dir = os.path.join(common.VERIF, "corpus", "C08")
    if os.path.isdir(corpus_dir):
        for f in sorted(os.listdir(corpus_dir)):
            if f.endswith(".in"):
                lines += [l.rstrip("\n") for l in open(os.path.join(corpus_dir, f))]
    for k in range(n):
        flavour = rng.choice(["plain"] * 6 + ["vars"] * 2 + ["remap"] * 2 + ["both"])
        ls, meta = gen_c08.gen_archive(rng, k, flavour)
        lines += ls
        metas[str(k)] = meta
    pf = os.path.join(work, "c08-%d-%s.prog" % (seed, tier))
    with open(pf, "w") as f:
        f.write("\n".join(lines) + "\n")
    r = common.run_harness(exe, [pf], timeout=1500)
    if r.returncode != 0:
        rep.violation("serial harness failed rc=%d: %s" % (r.returncode, r.stderr[-500:]),
                      {"kind": "harness-crash", "program": pf, "stderr": r.stderr[-3000:]}, no_input=True)
        return rep.finish("proof", common.proof_coverage(aud, {"evaluations": 0}), ASSUMPTIONS)
    obs = split_cases(r.stdout)
    inp = prog_cases(lines)
    verdicts = common.run_driver("c08", r.stdout, timeout=2400).splitlines()
    vby = {}
    for v in verdicts:
        w = v.split()
        if "case" in w:
            vby.setdefault(w[w.index("case") + 1], []).append(v)

    stats = {"cases": len(inp), "plain": 0, "with_named_vars": 0, "with_remap": 0, "oracle_evals": 0,
             "oracle_fail_vars": 0, "oracle_fail_remap": 0, "oracle_fail_plain": 0, "canon_true": 0, "shapes": 0, "tag_t": 0,
             "bytes_total": 0, "verdicts_ok": 0, "mismatch": 0, "skipped": 0, "remap_bytes_agree": 0,
             "hyp_canon_plain": 0, "skipped_big": 0}
    good_streams = []
    for case, ob in obs.items():
        vs = vby.get(case, [])
        if any(v.startswith("skip big") for v in vs):
            stats["skipped_big"] += 1      # flattened DAG too large for the list-based model: no verdict either way
            continue
        mism = [v for v in vs if v.startswith("MISMATCH")]
        stats["verdicts_ok"] += sum(1 for v in vs if v.startswith("ok"))
        stats["skipped"] += sum(1 for v in vs if v.startswith("skip"))
        stats["mismatch"] += len(mism)
        has_remap = any(" remap 1 " in l for l in ob if l.startswith("shape "))
        named = any(named_per_shape(ob))
        stats["with_remap"] += has_remap
        stats["with_named_vars"] += bool(named)
        stats["plain"] += (not has_remap and not named)
        stats["shapes"] += sum(1 for l in ob if l.startswith("shape "))
        stats["oracle_evals"] += sum(1 for l in ob if l.startswith("eval "))
        stats["canon_true"] += any(v.startswith("hyp") and " canon true" in v for v in vs)
        stats["hyp_canon_plain"] += (not has_remap and not named and any(v.startswith("hyp") and " canon true" in v for v in vs))
        b = [l.split()[1] for l in ob if l.startswith("bytes ")]
        if b:
            raw = b"" if b[0] == "-" else bytes.fromhex(b[0])
            stats["bytes_total"] += len(raw)
            stats["tag_t"] += sum(1 for p in gen_c08.parse_stream(raw, {})["tags"] if raw[p] == 0x74) if not has_remap and not named else 0
            if not has_remap:
                good_streams.append(raw)
        fails = oracle_case(inp.get(case, []), ob)
        load_mism = [v for v in mism if " load " in v or " walk " in v or " serlog " in v]
        bytes_mism = [v for v in mism if " bytes " in v]
        replay_d = {"kind": "oracle", "case": case, "program": inp.get(case), "observed": [l[:400] for l in ob][:40],
                    "failures": fails[:10], "verdicts": [v[:400] for v in vs],
                    "how": "write the program lines to a file and run .build/plain/harness/serial <file>"}
        if fails:
            kind = "remap" if has_remap else ("vars" if named else "plain")
            stats["oracle_fail_" + kind] += 1
            rep.violation("saved shape (%s) does not load back as the same shape: %s" % (kind, fails[0],), replay_d)
        if mism and not fails:
            rep.violation("model/implementation correspondence broken (stream C08.archive): %s" % mism[0][:300],
                          {"kind": "correspondence", "stream": "C08.archive (LibfiveModel/Serialize.lean: walk, serShapes, deserialize)",
                           "case": case, "program": inp.get(case), "verdicts": [v[:600] for v in mism],
                           "theorems_affected": ["Libfive.C08.archive_roundtrip", "Libfive.C08.tree_roundtrip"]},
                          no_input=True)

    # ------------------------------------------------------------ phase 2: malformed streams
    args_of = {}
    code_of = dict(info["table"])
    for name, v in info["args"]:
        if name in code_of:
            args_of[code_of[name]] = int(v)
    m = 2000 if tier == "quick" else 6000
    mal_lines, mal_kind = [], {}
    streams = list(gen_c08.FIXED_STREAMS)
    kinds = ["fixed"] * len(streams)
    for _ in range(m):
        if not good_streams:
            break
        src = rng.choice(good_streams)
        if len(src) > 600:
            continue
        b, kind = gen_c08.mutate(rng, src, args_of, info["last_op"])
        streams.append(b)
        kinds.append(kind)
    for i, b in enumerate(streams):
        mal_lines += ["case m%d" % i, "bytes %s" % gen_c08.hx(b), "go", "end"]
        mal_kind["m%d" % i] = kinds[i]
    mf = os.path.join(work, "c08-%d-%s-mal.prog" % (seed, tier))
    with open(mf, "w") as f:
        f.write("\n".join(mal_lines) + "\n")
    mstats = {"streams": len(streams), "ok": 0, "mismatch": 0, "indeterminate": 0, "threw": 0, "logged": 0,
              "clean": 0, "crashed": 0, "kinds": {}}
    r2 = common.run_harness(exe, [mf], timeout=1500)
    if r2.returncode != 0:
        rep.violation("serial harness failed on malformed streams rc=%d" % r2.returncode,
                      {"kind": "harness-crash", "program": mf, "stderr": r2.stderr[-3000:]}, no_input=True)
    else:
        obs2 = split_cases(r2.stdout)
        v2 = common.run_driver("c08", r2.stdout, timeout=2400).splitlines()
        for case, ob in obs2.items():
            kind = mal_kind.get(case, "?")
            mstats["kinds"][kind] = mstats["kinds"].get(kind, 0) + 1
            mstats["threw"] += any(l.startswith("exc ") and not l.endswith("none") for l in ob)
            mstats["logged"] += any(l.startswith("log ") and l.split()[1] != "0" for l in ob)
            mstats["clean"] += any(l == "log 0" for l in ob) and any(l == "exc none" for l in ob)
            mstats["crashed"] += any(l.startswith("crash") for l in ob)
        for v in v2:
            if v.startswith("ok"):
                mstats["ok"] += 1
            elif v.startswith("skip"):
                mstats["indeterminate"] += 1
            elif v.startswith("MISMATCH"):
                mstats["mismatch"] += 1
                w = v.split()
                case = w[w.index("case") + 1] if "case" in w else "?"
                rep.violation("model/implementation correspondence broken (stream C08.malformed, %s): %s"
                              % (mal_kind.get(case), v[:300]),
                              {"kind": "correspondence", "stream": "C08.malformed (LibfiveModel/Serialize.lean: deserialize)",
                               "case": case, "mutation": mal_kind.get(case), "observed": obs2.get(case), "verdict": v[:1500],
                               "how": "write `case m / bytes <hex> / go / end` to a file and run .build/plain/harness/serial <file>"},
                              no_input=True)

    # ------------------------------------------------------------ thorough: same programs under ASan
    asan = None
    if tier == "thorough":
        try:
            exe_a = common.build_harness("serial", flavour="asan")
            ra = common.run_harness(exe_a, [pf], timeout=3000)
            oa = split_cases(ra.stdout)
            asan = {"cases": len(oa), "crashed": 0, "crashed_remap": 0, "crashed_other": []}
            for case, ob in oa.items():
                if any(l.startswith("crash") for l in ob):
                    asan["crashed"] += 1
                    has_remap = any(" remap 1 " in l for l in ob if l.startswith("shape "))
                    if has_remap:
                        asan["crashed_remap"] += 1
                        rep.violation("AddressSanitizer/UBSan report while saving or loading an archive with remap/apply (case %s)" % case,
                                      {"kind": "asan", "case": case, "program": inp.get(case), "observed": ob[-5:]})
                    else:
                        asan["crashed_other"].append(case)
                        rep.violation("AddressSanitizer/UBSan report while saving or loading a remap-free archive (case %s)" % case,
                                      {"kind": "asan", "case": case, "program": inp.get(case), "observed": ob[-5:]})
            rb = common.run_harness(exe_a, [mf], timeout=3000)
            ob2 = split_cases(rb.stdout)
            asan["malformed_cases"] = len(ob2)
            asan["malformed_crashed"] = sorted(c for c, ob in ob2.items() if any(l.startswith("crash") for l in ob))[:20]
        except Exception as e:   # sanitizer flavour unavailable: say so, do not alarm
            asan = {"error": repr(e)[:300]}

    if not aud["ok"]:
        # a regenerated table no longer matches the pinned one (or a proof broke): try to exhibit the
        # consequence on the real code, then report
        diffs = []
        pinned = {"INVALID": 0, "CONSTANT": 1, "VAR_X": 2, "VAR_Y": 3, "VAR_Z": 4, "VAR_FREE": 5, "CONST_VAR": 6,
                  "OP_SQUARE": 7, "OP_SQRT": 8, "OP_NEG": 9, "OP_SIN": 10, "OP_COS": 11, "OP_TAN": 12, "OP_ASIN": 13,
                  "OP_ACOS": 14, "OP_ATAN": 15, "OP_EXP": 16, "OP_ABS": 28, "OP_LOG": 30, "OP_RECIP": 29, "OP_ADD": 17,
                  "OP_MUL": 18, "OP_MIN": 19, "OP_MAX": 20, "OP_SUB": 21, "OP_DIV": 22, "OP_ATAN2": 23, "OP_POW": 24,
                  "OP_NTH_ROOT": 25, "OP_MOD": 26, "OP_NANFILL": 27, "OP_COMPARE": 31, "ORACLE": 32}
        for name, code in info["table"]:
            if pinned.get(name) != code:
                diffs.append((name, code, pinned.get(name)))
        if diffs:
            name, code, old = diffs[0]
            rep.violation("opcode numbering changed: %s is now %d, files written by earlier versions use %s"
                          % (name, code, old),
                          {"kind": "opcode-table", "changed": diffs, "witness": "a file containing a clause with opcode byte %s "
                           "(written by the pinned numbering) now loads as a different operation" % old,
                           "problems": aud["problems"]})
        else:
            common.report_broken_proof(rep, aud)

    sample_cases = [inp[k] for k in list(inp)[:2]]
    cov = common.proof_coverage(aud, {
        "evaluations": len(inp) + len(streams),
        "distinct_nontrivial": len({tuple(c[1:]) for c in inp.values()}) + len(set(streams)),
        "rule": "archives: random expression DAGs (1-22 operators, shared sub-expressions, 0-4 free variables) x 1-4 shapes "
                "(same root again, sub-expression roots, leaves) x adversarial byte strings for names/docs/variable names; "
                "malformed: fixed boundary streams + one structural mutation of a valid stream; distinct = distinct programs/streams",
        "correspondence": {**stats, "malformed": mstats},
        "distribution": {"flavours": {f: sum(1 for m_ in metas.values() if m_["flavour"] == f)
                                      for f in ("plain", "vars", "remap", "both")},
                         "mean_nodes": sum(m_["nodes"] for m_ in metas.values()) / max(1, len(metas)),
                         "opcode_histogram": {k: sum(m_["hist"].get(k, 0) for m_ in metas.values())
                                              for k in sorted({k for m_ in metas.values() for k in m_["hist"]})}},
        "translator": {"table_entries": len(info["table"]), "last_op": info["last_op"], "end_of_item": info["end_of_item"],
                       "static_assert_bound": info["static_assert_bound"], "args_cases": len(info["args"])},
        "asan": asan,
        "samples": sample_cases,
    })
    return rep.finish("proof", cov, ASSUMPTIONS)
