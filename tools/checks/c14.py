"""C14 — trees are immutable values that may be shared across threads."""
import os
import random
import re
import struct

import common
import translate_statics

ASSUMPTIONS = [
    "Theorems are about the atomic-step acceptor cstep/crun (LibfiveModel/RefCountConc.lean): one sequentially consistent "
    "counter per node plus the delete protocol of Tree::~Tree. interleaving_confluent is proved only in the restricted form "
    "`interleaving_confluent_partial` (equal numbers of increments/decrements per node => equal final counts); the dynamic "
    "cascade of child decrements is covered sequentially by C13, its interleaved lifting is not mechanised.",
    "Tie (R): in controlled mode the refcount hook is a cooperative scheduler (one thread runs between two hook points, the "
    "next is chosen by a seeded RNG), so the logged event order is the real order; Driver/C14.lean replays every event "
    "through cstep (observed value = model count, unique deleter = observer of 1->0, nothing after delete). Schedules are "
    "sampled at the granularity of refcount events only.",
    "Footprint audit: tools/translate_statics.py (regex over the sources, part of the trusted base) lists every mutable "
    "static/global; lemma statics_all_classified re-checks the regenerated list against the allow-list on every run.",
    "Data-race freedom of the C++ is NOT proved: ThreadSanitizer runs of the stress harness (shared-DAG family) and of the "
    "cold-start family (fresh process per operation kind, workers released by a relaxed flag) are validators (exploration). "
    "TSan observes only the executed schedules; std::atomic RMWs are modelled as atomic steps.",
    "Per-thread results are compared with a sequential re-run: printed strings exactly, evaluation values within 1e-4 relative "
    "(optimized() orders commutative operands by pointer, so float rounding may differ between runs).",
]

COLD_KINDS = ["opcode-toString", "opcode-toScmString", "opcode-fromScmString", "capi-opcode-enum", "tree-print",
              "optimized", "deck", "serialize", "singletons", "constfold", "build-optimize"]
RACE_KEY = "C14:opcode-lazy-statics-race"
RACE_FRAMES = ("buildNames", "fromScmString", "toScmString", "Opcode::toString", "opcode_names")


def hex2f(h):
    return struct.unpack("<f", struct.pack("<I", int(h, 16)))[0]


def close(a, b):
    if a == b:
        return True
    try:
        x, y = hex2f(a), hex2f(b)
    except ValueError:
        return False
    if x != x and y != y:
        return True
    return abs(x - y) <= 1e-4 * max(1.0, abs(x), abs(y))


def compare_results(text):
    """returns (n_compared, list of differing (res, ref) pairs)"""
    res, ref = {}, {}
    for ln in text.splitlines():
        if ln.startswith("res ") or ln.startswith("ref "):
            w = ln.split(" ", 3)
            (res if w[0] == "res" else ref)[(w[1], w[2])] = w[3] if len(w) > 3 else ""
    bad = []
    for k, v in res.items():
        r = ref.get(k)
        if r is None:
            bad.append((k, v, None))
            continue
        kind = v.split(" ", 1)[0]
        if kind in ("opt", "eval"):
            if r.split(" ", 1)[0] != kind or not close(v.split(" ", 1)[1], r.split(" ", 1)[1]):
                bad.append((k, v, r))
        elif v != r:
            bad.append((k, v, r))
    counts = {}
    for ln in text.splitlines():
        if ln.startswith("thread "):
            w = ln.split()
            if w[3] != w[5]:
                bad.append((("thread", w[1]), "results %s" % w[3], "ref %s" % w[5]))
    return len(res), bad


def names_race(bad):
    """every difference is a printed expression in which opcode names are missing: the visible effect of reading
    opcode_names[] while another thread is still filling it (the listed race)"""
    def one(v, r):
        if r is None or not v.startswith("print ") or not r.startswith("print "):
            return False
        a, b = v.split(" "), r.split(" ")
        return len(a) == len(b) and all(x == y or (x.strip("(") == "" and y.startswith(x)) for x, y in zip(a, b))
    return bool(bad) and all(one(v, r) for _, v, r in bad)


def tsan_reports(stderr):
    """split TSan output into reports; returns list of (summary line, text)"""
    reps = re.split(r"={18}\n", stderr)
    out = []
    for r in reps:
        if "WARNING: ThreadSanitizer" in r:
            m = re.search(r"WARNING: ThreadSanitizer: ([^\n]*)", r)
            out.append((m.group(1) if m else "?", r))
    return out


def run(rep, tier, seed, replay=None):
    rng = random.Random(seed * 15485863 + 14)
    # ---- 1. footprint audit (translator regenerates Generated/Statics.lean before the Lean audit)
    statics = translate_statics.main()
    unlisted = [e for e in statics if e["class"] == "unlisted"]
    aud = common.audit("C14")
    exe = common.build_harness("treethreads")
    work = os.path.join(common.BUILD, "work")
    os.makedirs(work, exist_ok=True)
    found_input = False
    stats = {"controlled_runs": 0, "events": 0, "deletes": 0, "switches": 0, "free_runs": 0, "results_compared": 0,
             "threads_hist": {}, "tsan_stress_runs": 0, "tsan_cold_runs": 0, "tsan_reports": 0}
    mism = []
    samples = []

    # ---- 2. controlled-mode stress runs: exact replay through the atomic-step model
    nctl = 10 if tier == "quick" else 80
    for k in range(nctl):
        nth = rng.choice([2, 2, 3, 4, 6, 8, 12, 16])
        nops = rng.choice([30, 60, 120]) if tier == "quick" else rng.choice([60, 150, 300])
        sd = rng.randrange(1, 1 << 20)
        of = os.path.join(work, "c14-%d-%s-ctl%d.out" % (seed, tier, k))
        args = ["stress", str(sd), str(nth), str(nops), "ctl", of]
        r = common.run_harness(exe, args, timeout=120)
        text = open(of).read() if os.path.exists(of) else ""
        stats["controlled_runs"] += 1
        stats["threads_hist"][nth] = stats["threads_hist"].get(nth, 0) + 1
        if r.returncode != 0 or "done" not in text:
            found_input = True
            rep.violation("treethreads crashed in controlled mode (rc=%d) args=%s: %s" % (r.returncode, args[:5], r.stderr[-300:]),
                          {"kind": "crash", "args": args, "stderr": r.stderr[-3000:]})
            continue
        n, bad = compare_results(text)
        stats["results_compared"] += n
        if bad:
            found_input = True
            rep.violation("a thread's results differ from the single-threaded run: %s" % (bad[0],),
                          {"kind": "oracle-results", "args": args, "differences": bad[:10],
                           "how": ".build/plain/harness/treethreads " + " ".join(args)},
                          key=RACE_KEY if names_race(bad) else None)
        m = re.search(r"live-after-workers (\d+) before (\d+)", text)
        if m and m.group(1) != m.group(2):
            found_input = True
            rep.violation("nodes leaked / over-freed by concurrent workers: live %s after, %s before" % (m.group(1), m.group(2)),
                          {"kind": "oracle-live", "args": args})
        verdicts = common.run_driver("c14", text, timeout=600).splitlines()
        for v in verdicts:
            if v.startswith("MISMATCH"):
                mism.append((args, v))
            elif v.startswith("ok trace"):
                w = v.split()
                stats["events"] += int(w[3]); stats["deletes"] += int(w[7]); stats["switches"] += int(w[11])
        if k == 0:
            samples.append({"args": args[:5], "verdict": verdicts[:1], "first_events": [l for l in text.splitlines() if l.startswith("ev ")][:6]})

    common.log("C14: %d controlled traces replayed (%d events)" % (stats["controlled_runs"], stats["events"]))
    # ---- 3. free-mode runs (real parallelism): results equal to sequential, live count restored
    nfree = 6 if tier == "quick" else 40
    for k in range(nfree):
        nth = rng.choice([2, 4, 8, 16])
        sd = rng.randrange(1, 1 << 20)
        of = os.path.join(work, "c14-%d-%s-free%d.out" % (seed, tier, k))
        args = ["stress", str(sd), str(nth), str(rng.choice([200, 600])), "free", of]
        r = common.run_harness(exe, args, timeout=120)
        text = open(of).read() if os.path.exists(of) else ""
        stats["free_runs"] += 1
        if r.returncode != 0 or "done" not in text:
            found_input = True
            rep.violation("treethreads crashed in free mode (rc=%d) args=%s" % (r.returncode, args[:5]),
                          {"kind": "crash", "args": args, "stderr": r.stderr[-3000:]})
            continue
        n, bad = compare_results(text)
        stats["results_compared"] += n
        m = re.search(r"live-after-workers (\d+) before (\d+)", text)
        if bad or (m and m.group(1) != m.group(2)):
            found_input = True
            rep.violation("free-mode run differs from the single-threaded run: %s" % ((bad[:1] or [m.group(0)]),),
                          {"kind": "oracle-results", "args": args, "differences": bad[:10]},
                          key=RACE_KEY if names_race(bad) else None)

    common.log("C14: %d free-mode runs compared" % stats["free_runs"])
    # ---- 4. TSan validator: shared-DAG family and cold-start family
    tsan = {"ran": False}
    try:
        txe = common.build_harness("treethreads", flavour="tsan")
        tsan = {"ran": True, "cold": {}}
        env = {"TSAN_OPTIONS": "exitcode=97:halt_on_error=0:report_signal_unsafe=0:history_size=4"}
        for k in range(3 if tier == "quick" else 20):
            nth = rng.choice([2, 4, 8, 16])
            of = os.path.join(work, "c14-%d-%s-tsan%d.out" % (seed, tier, k))
            args = ["stress", str(rng.randrange(1, 1 << 20)), str(nth), "150", "free", of]
            r = common.run_harness(txe, args, timeout=900, env=env)
            stats["tsan_stress_runs"] += 1
            for summ, body in tsan_reports(r.stderr):
                stats["tsan_reports"] += 1
                found_input = True
                key = RACE_KEY if any(f in body for f in RACE_FRAMES) else None
                rep.violation("ThreadSanitizer (shared-DAG stress, %d threads): %s" % (nth, summ),
                              {"kind": "tsan", "family": "shared-dag", "args": args, "report": body[:4000]}, key=key)
            if r.returncode not in (0, 97):
                found_input = True
                rep.violation("treethreads crashed under TSan (rc=%d)" % r.returncode, {"kind": "crash", "args": args, "stderr": r.stderr[-3000:]})
        common.log("C14: %d TSan shared-DAG runs, %d reports" % (stats["tsan_stress_runs"], stats["tsan_reports"]))
        reps_per_kind = 2 if tier == "quick" else 6
        for kind in COLD_KINDS:
            hits = 0
            for j in range(reps_per_kind):
                nth = [8, 16, 4, 2, 12, 6][j % 6]
                args = ["cold", kind, str(nth)]
                r = common.run_harness(txe, args, timeout=300, env=env)
                stats["tsan_cold_runs"] += 1
                # all workers must compute the same answer for the pure lookups
                outs = [l.split(" ", 3)[3] for l in r.stdout.splitlines() if l.startswith("cold ") and len(l.split(" ", 3)) > 3]
                if kind.startswith("opcode") or kind == "capi-opcode-enum":
                    if len(set(outs)) > 1 or (outs and outs[0] in ("", "0", "-1")):
                        found_input = True
                        rep.violation("cold-start %s: workers got different / empty answers %s" % (kind, sorted(set(outs))[:4]),
                                      {"kind": "oracle-cold", "args": args, "stdout": r.stdout[:2000]}, key=RACE_KEY)
                for summ, body in tsan_reports(r.stderr):
                    hits += 1
                    stats["tsan_reports"] += 1
                    found_input = True
                    key = RACE_KEY if any(f in body for f in RACE_FRAMES) else None
                    rep.violation("ThreadSanitizer (cold start '%s', %d threads whose first libfive call it is): %s" % (kind, nth, summ),
                                  {"kind": "tsan", "family": "cold-start", "args": args, "report": body[:4000],
                                   "how": ".build/tsan/harness/treethreads cold %s %d" % (kind, nth)}, key=key)
                if r.returncode not in (0, 97):
                    found_input = True
                    rep.violation("cold-start %s crashed under TSan (rc=%d): %s" % (kind, r.returncode, r.stderr[-300:]),
                                  {"kind": "crash", "args": args, "stderr": r.stderr[-3000:]},
                                  key=RACE_KEY if kind.startswith("opcode") or kind in ("capi-opcode-enum", "tree-print") else None)
            tsan["cold"][kind] = hits
    except RuntimeError as e:
        common.log("tsan flavour unavailable: %s" % str(e)[:300])
        tsan = {"ran": False, "why": str(e)[:300]}

    # ---- verdicts
    if unlisted:
        rep.violation("footprint audit: mutable static not on the allow-list: %s" %
                      ", ".join("%s:%d %s" % (e["file"], e["line"], e["name"]) for e in unlisted[:5]),
                      {"kind": "broken-tie", "stream": "C14.statics (tools/translate_statics.py -> Generated/Statics.lean)",
                       "unlisted": unlisted, "theorems_affected": ["Libfive.C14.statics_all_classified"]}, no_input=not found_input)
    if mism and not found_input:
        rep.violation("model/implementation correspondence broken (stream C14.trace): %s" % mism[0][1][:400],
                      {"kind": "correspondence", "stream": "C14.trace (LibfiveModel/RefCountConc.lean: cstep)",
                       "args": mism[0][0], "verdicts": [m[1] for m in mism[:10]],
                       "theorems_affected": ["Libfive.C14.unique_deleter", "Libfive.C14.no_use_after_free_conc"]}, no_input=True)
    if not aud["ok"] and not found_input and not unlisted:
        common.report_broken_proof(rep, aud)
    cov = common.proof_coverage(aud, {
        "evaluations": stats["events"] + stats["results_compared"],
        "distinct_nontrivial": stats["events"],
        "rule": "evaluations = refcount events replayed through cstep + per-thread results compared with the sequential run; "
                "non-trivial = replayed events (each checks an observed atomic value)",
        "trace_refinement": {"traces": stats["controlled_runs"], "events": stats["events"], "deletes": stats["deletes"],
                             "thread_switches": stats["switches"], "mismatch": len(mism)},
        "correspondence": {**stats, "statics": {"total": len(statics),
                                                "by_class": {c: sum(1 for e in statics if e["class"] == c)
                                                             for c in sorted({e["class"] for e in statics})}},
                           "tsan": tsan, "cold_kinds": COLD_KINDS},
        "samples": samples + [{"statics": [(e["file"], e["name"], e["class"]) for e in statics[:4]]}],
    })
    return rep.finish("proof", cov, ASSUMPTIONS)
