"""Shared implementation of the C07 (tree rewriting) and C01 (point evaluation) checks.

Programs of tree-building calls run on the real API (harness/treeprog.cpp) and on the Lean model
(driver vd-c07); the driver also evaluates the RAW tree (no rewriting at all) in double precision
with a forward bound on the error a single-precision evaluation incurs."""
import os
import random
import struct

import common
import gen

ALL_UN = gen.UNARY_EXACT + gen.UNARY_TRANS
ALL_BIN = gen.BINARY_EXACT + gen.BINARY_OTHER


def d_from_hex(h):
    return struct.unpack("<d", struct.pack("<Q", int(h, 16)))[0]


def gen_case(rng, k, prop):
    style = rng.choice(["affine", "csg", "all", "remap", "all"])
    if style == "affine":
        o = dict(size=rng.randint(6, 22), p_minmax=0.1, unary=["neg", "neg", "square", "abs"],
                 binary=["add", "sub", "mul", "add", "sub", "div", "mul"], p_const=0.35, consts="nice",
                 nvars=rng.choice([0, 1, 2]))
    elif style == "csg":
        o = dict(size=rng.randint(6, 20), p_minmax=0.45, nvars=rng.choice([0, 0, 1]))
    elif style == "remap":
        o = dict(size=rng.randint(6, 18), p_minmax=0.25, remap=0.25, apply=0.2, nvars=rng.choice([1, 2, 3]),
                 unary=gen.UNARY_EXACT + ["sin", "cos"])
    else:
        o = dict(size=rng.randint(6, 20), p_minmax=0.25, unary=ALL_UN, binary=ALL_BIN,
                 nvars=rng.choice([0, 1, 2]), remap=rng.choice([0, 0, 0.1]), apply=rng.choice([0, 0.1]))
    o["max_xsize"] = 120
    g = gen.TreeGen(rng, **o)
    root = g.build()
    # cancellation gadget: a min/max (or product) whose operands are NOT constant when the tree is built but reduce
    # to constants inside optimized() (x - x, (a+b) - (b+a), a*1 - a ...), sitting under a non-unit affine scale
    # (negation, multiplication / division by a constant, right operand of a subtraction)
    if rng.random() < 0.45:
        a = g.pick_nonconst()
        b = g.pick_nonconst()
        kind = rng.choice(["self", "commuted", "scaled"])
        if kind == "self":
            z = g._emit(("bin", "sub", a, a))
        elif kind == "commuted":
            z = g._emit(("bin", "sub", g._emit(("bin", "add", a, b)), g._emit(("bin", "add", b, a))))
        else:
            z = g._emit(("bin", "sub", g._emit(("bin", "mul", a, g.const(2.0))), g._emit(("bin", "add", a, a))))
        if rng.random() < 0.5:
            z = g._emit(("bin", "add", z, g.const(rng.choice([0.25, -0.5, 1.0]))))
        m = g._emit(("bin", rng.choice(["max", "min", "max", "min", "mul"]), z, g.const(rng.choice([0.5, -1.0, 2.0, 0.0]))))
        how = rng.choice(["neg", "mulc", "divc", "rsub"])
        if how == "neg":
            sc = g._emit(("un", "neg", m))
        elif how == "mulc":
            sc = g._emit(("bin", "mul", g.const(rng.choice([3.0, -2.0, 0.5])), m))
        elif how == "divc":
            sc = g._emit(("bin", "div", m, g.const(rng.choice([4.0, -0.5]))))
        else:
            sc = g._emit(("bin", "sub", g.pick_nonconst(), m))
        root = g._emit(("bin", rng.choice(["add", "add", "max", "mul"]), root, sc))
    # apply / remap gadget: an apply whose BODY mentions no coordinate (a function of the free variable only) while
    # the substituted VALUE does, followed by a non-identity remap — the coordinates reach the result only through
    # the value, so whatever decides "nothing to remap here" must look at the value as well
    if rng.random() < 0.3:
        if not g.vars:
            g.vars.append(g._emit(("var",)))
        v = rng.choice(g.vars)
        X, Y, Z = 0, 1, 2
        bk = rng.choice(["affine", "square", "two"])
        if bk == "affine":
            body = g._emit(("bin", "add", g._emit(("bin", "mul", g.const(2.0), v)), g.const(1.0)))
        elif bk == "square":
            body = g._emit(("bin", "mul", v, v))
        else:
            body = g._emit(("bin", "sub", v, g.const(rng.choice([3.0, -0.5]))))
        val = g._emit(("bin", "add", rng.choice([X, Y, Z]), g._emit(("bin", "mul", rng.choice([X, Y, Z]), g.const(rng.choice([0.5, -2.0]))))))
        node = g._emit(("apply", body, v, val))
        if rng.random() < 0.3:
            node = g._emit(("un", "neg", node))
        if rng.random() < 0.3 and len(g.vars) > 1:
            w = rng.choice([u for u in g.vars if u != v])
            node = g._emit(("apply", g._emit(("bin", "add", node, w)), w, g._emit(("bin", "mul", Z, g.const(3.0)))))
        cx = g._emit(("bin", "mul", Y, g.const(3.0)))
        rm = g._emit(("remap", node, cx, Z, X)) if rng.random() < 0.7 else g._emit(("remap", node, Y, X, Z))
        root = g._emit(("bin", rng.choice(["add", "max", "min"]), root, rm))
    L = ["case %d" % k] + g.lines
    nid = g.next
    ids = {"root": root}
    def add(kind, a):
        nonlocal nid
        L.append("n %d %s %d" % (nid, kind, a))
        nid += 1
        return nid - 1
    ids["flat"] = add("flat", root)
    ids["opt"] = add("opt", root)
    ids["optopt"] = add("opt", ids["opt"])
    ids["optflat"] = add("opt", ids["flat"])
    if rng.random() < 0.3:
        ids["cv"] = add("cvars", root)
    # a remap applied on top of an optimised tree, and an apply of a constant
    if rng.random() < 0.4:
        L.append("n %d remap %d %d %d %d" % (nid, ids["opt"], g.pick_nonconst(), g.pick_nonconst(), g.pick_nonconst()))
        ids["remapopt"] = nid
        nid += 1
    for name in ("root", "flat", "opt", "optopt"):
        L.append("dump %d" % ids[name])
    L.append("eq %d %d" % (ids["root"], ids["opt"]))
    L.append("eq %d %d" % (ids["opt"], ids["optflat"]))
    other = rng.choice(g.pool)
    L.append("eq %d %d" % (ids["root"], other))
    L.append("tape %d" % ids["root"])
    if "remapopt" in ids:
        L.append("tape %d" % ids["remapopt"])
    # points and variable values
    varvals = " ".join("%d %s" % (v, gen.f2hex(gen.f32(rng.uniform(-2, 2)))) for v in g.vars)
    npts = rng.randint(3, 6)
    pts = [gen.rand_point(rng, lattice=0.25) for _ in range(npts)]
    ptstr = " ".join(gen.pt_hex(p) for p in pts)
    evals = ["root", "flat", "opt", "optflat"] + [n for n in ("cv", "remapopt") if n in ids]
    for name in evals:
        L.append("eval %d nv %d %s np %d %s" % (ids[name], len(g.vars), varvals, npts, ptstr))
    L.append("eval %d nv %d %s np %d %s" % (other, len(g.vars), varvals, npts, ptstr))
    # batches (C01): every slot of a batch equals the single-point evaluation
    nb = rng.choice([1, 2, 3, 15, 16, 17, 31, 33, 64, 100, 255, 256]) if prop == "C01" else rng.choice([1, 5, 17])
    bpts = [pts[i % npts] for i in range(nb)]
    if nb > npts:
        bpts = [gen.rand_point(rng, lattice=0.1) for _ in range(nb - npts)] + pts
        rng.shuffle(bpts)
    L.append("eval %d nv %d %s np %d %s" % (ids["root"], len(g.vars), varvals, len(bpts), " ".join(gen.pt_hex(p) for p in bpts)))
    L.append("batch %d nv %d %s np %d %s" % (ids["root"], len(g.vars), varvals, len(bpts), " ".join(gen.pt_hex(p) for p in bpts)))
    L.append("end")
    return L, {"style": style, "nodes": g.next, "hist": g.hist, "ids": ids, "other": other, "batch": nb}


def split_cases(lines):
    out, cur = {}, None
    for ln in lines:
        if ln.startswith("case "):
            cur = out.setdefault(ln.split()[1], [])
        if cur is not None:
            cur.append(ln)
    return out


def run(rep, tier, seed, prop, assumptions, corr_stream):
    rng = random.Random(seed * 104729 + (7 if prop == "C07" else 1))
    aud = common.audit(prop)
    exe = common.build_harness("treeprog")
    n = (250 if tier == "quick" else 1500)      # 1500 programs: the thorough tier stays within its 30 min budget
    prog, meta = [], {}
    corpus_dir = os.path.join(common.VERIF, "corpus", prop)
    if os.path.isdir(corpus_dir):
        for f in sorted(os.listdir(corpus_dir)):
            prog += [l.rstrip("\n") for l in open(os.path.join(corpus_dir, f)) if l.strip()]
    for k in range(n):
        L, m = gen_case(rng, k, prop)
        prog += L
        meta[str(k)] = m
    work = os.path.join(common.BUILD, "work")
    os.makedirs(work, exist_ok=True)
    pf = os.path.join(work, "%s-%d-%s.prog" % (prop.lower(), seed, tier))
    open(pf, "w").write("\n".join(prog) + "\n")
    r = common.run_harness(exe, [pf], timeout=3000)
    pcases = split_cases(prog)
    if r.returncode != 0:
        rep.violation("treeprog harness crashed rc=%d: %s" % (r.returncode, r.stderr[-600:]),
                      {"kind": "harness-crash", "program": pf, "stderr": r.stderr[-3000:]})
        return rep.finish("proof", common.proof_coverage(aud, {}), assumptions)
    rcases = split_cases(r.stdout.splitlines())
    # interleave for the driver
    feed = []
    for c, pl in pcases.items():
        feed += ["P " + l for l in pl]
        feed += ["R " + l for l in rcases.get(c, [])[1:]]
    open(pf + ".feed", "w").write("\n".join(feed) + "\n")
    dout = common.run_driver(prop.lower(), "\n".join(feed) + "\n", timeout=240 if tier == "quick" else 3000).splitlines()

    stats = {"points": 0, "points_unstable_skipped": 0, "points_compared": 0, "eq_true": 0, "eq_false": 0,
             "batch_slots": 0, "exceptions": 0, "dump_ok": 0, "deck_ok": 0, "optimize_ok": 0, "walk_spec_ok": 0, "deckmodel_reemitted_equal": 0,
             "deckmodel_skipped_structural_duplicates": 0, "skipped_big": 0,
             "max_err_ratio": 0.0}
    refs, eqs, mism = {}, [], []
    for ln in dout:
        w = ln.split()
        if not w:
            continue
        if w[0] == "ref":
            vals = [(d_from_hex(w[5 + 3 * i]), d_from_hex(w[6 + 3 * i]), w[7 + 3 * i] == "1") for i in range(int(w[4]))]
            refs.setdefault((w[1], w[3]), []).append(vals)
        elif w[0] == "eq":
            eqs.append(w[1:])
        elif w[0] == "MISMATCH":
            mism.append(ln)
        elif w[0] == "ok":
            key = {"dump": "dump_ok", "deck": "deck_ok", "optimize": "optimize_ok", "walk-spec": "walk_spec_ok",
                   "deckmodel": "deckmodel_reemitted_equal"}.get(w[1])
            if key:
                stats[key] += 1
        elif w[0] == "skip":
            if len(w) > 1 and w[1] == "dup-nodes":
                stats["deckmodel_skipped_structural_duplicates"] += 1
            else:
                stats["skipped_big"] += 1
        elif w[0] == "exception":
            stats["exceptions"] += 1
    viol_cases = set()

    def oracle_fail(case, what, detail):
        if case in viol_cases:
            return
        viol_cases.add(case)
        rep.violation(what, {"kind": "oracle", "case": case, "program": pcases.get(case), "detail": detail,
                             "how": "write the program lines to a file and run .build/plain/harness/treeprog <file>"})

    # real evaluations against the reference of the raw tree
    for c, rl in rcases.items():
        seen = {}
        dumps = {}
        for ln in rl:
            w = ln.split()
            if w[0] == "dump":
                dumps[w[1]] = " ".join(w[2:])
            if w[0] not in ("eval", "batch"):
                continue
            node, np_ = w[1], int(w[2])
            real = [gen.hex2f(h) for h in w[3:3 + np_]] if w[0] == "eval" else []
            idx = seen.get((w[0], node), 0)
            seen[(w[0], node)] = idx + 1
            if w[0] == "batch":
                stats["batch_slots"] += np_
                pairs = w[3:3 + 2 * np_]
                for i in range(np_):
                    b, a = pairs[2 * i], pairs[2 * i + 1]
                    if a != b and not (gen.hex2f(a) != gen.hex2f(a) and gen.hex2f(b) != gen.hex2f(b)):
                        oracle_fail(c, "batched evaluation differs from single-point evaluation in slot %d of %d: %s vs %s"
                                    % (i, np_, b, a), {"node": node, "slot": i, "batch": b, "single": a})
                        break
                continue
            rv = refs.get((c, node), [])
            if idx >= len(rv):
                continue
            for i, (x, (v, err, bad)) in enumerate(zip(real, rv[idx])):
                stats["points"] += 1
                if bad:
                    stats["points_unstable_skipped"] += 1
                    continue
                stats["points_compared"] += 1
                tol = 8 * err + 1e-6 * max(1.0, abs(v)) * 0.0 + 4 * 5.97e-8 * abs(v) + 1e-37
                diff = abs(x - v) if x == x else float("inf")
                if tol > 0:
                    stats["max_err_ratio"] = max(stats["max_err_ratio"], min(diff / tol, 1e9))
                if diff > tol:
                    oracle_fail(c, "value of node %s differs from the reference of the expression: real %r, reference %r "
                                "(single-precision error bound %g)" % (node, x, v, err),
                                {"node": node, "point_index": i, "real": x, "reference": v, "bound": err,
                                 "role": [k for k, vv in meta.get(c, {}).get("ids", {}).items() if str(vv) == node]})
                    break
        m = meta.get(c)
        if m and str(m["ids"]["opt"]) in dumps and str(m["ids"]["optopt"]) in dumps:
            if dumps[str(m["ids"]["opt"])] != dumps[str(m["ids"]["optopt"])]:
                oracle_fail(c, "optimising an already optimised tree changed it",
                            {"opt": dumps[str(m["ids"]["opt"])][:400], "optopt": dumps[str(m["ids"]["optopt"])][:400]})
    # deep equality must imply equal functions (on the reference semantics)
    for c, a, b, res in eqs:
        if res == "1":
            stats["eq_true"] += 1
            ra, rb = refs.get((c, a)), refs.get((c, b))
            if ra and rb:
                for (va, ea, ba), (vb, eb, bb) in zip(ra[0], rb[0]):
                    if ba or bb:
                        continue
                    if abs(va - vb) > 8 * (ea + eb) + 1e-6 * max(1.0, abs(va)):
                        oracle_fail(c, "Tree::eq says nodes %s and %s are equal but they denote different functions (%r vs %r)"
                                    % (a, b, va, vb), {"a": a, "b": b})
                        break
        else:
            stats["eq_false"] += 1
    # correspondence.  The optimiser model is exact on ~99.5 % of generated programs; the residue
    # (deeply nested remap/apply programs where the C++ keeps two structurally equal affine terms
    # apart) is a known model gap, measured on the unchanged tree at <= 1 case in 250.  A change
    # to the rewriting rules shows up as a mismatch RATE far above that, so the tie alarms on the
    # rate, not on a single case; every case is still covered by the numeric oracle above.
    mism_cases = []
    for m in mism:
        w = m.split()
        c = w[w.index("case") + 1] if "case" in w else "?"
        if c not in mism_cases:
            mism_cases.append(c)
    gap_budget = max(2, int(0.012 * len(pcases)))
    stats["structural_mismatch_cases"] = len(mism_cases)
    stats["structural_mismatch_budget"] = gap_budget
    if len(mism_cases) > gap_budget:
        shown = 0
        for m in mism:
            w = m.split()
            c = w[w.index("case") + 1] if "case" in w else "?"
            if c in viol_cases or shown >= 5:
                continue
            viol_cases.add(c)
            shown += 1
            rep.violation("model/implementation correspondence broken (stream %s; %d of %d programs disagree): %s"
                          % (corr_stream, len(mism_cases), len(pcases), m[:400]),
                          {"kind": "correspondence", "stream": corr_stream, "case": c, "program": pcases.get(c),
                           "verdict": m[:2000], "mismatching_cases": len(mism_cases)},
                          no_input=True)
    if not aud["ok"]:
        common.report_broken_proof(rep, aud)
    styles = {}
    hist = {}
    for m in meta.values():
        styles[m["style"]] = styles.get(m["style"], 0) + 1
        for k2, v2 in m["hist"].items():
            hist[k2] = hist.get(k2, 0) + v2
    cov = common.proof_coverage(aud, {
        "evaluations": len(pcases), "distinct_nontrivial": len({tuple(v[1:]) for v in pcases.values()}),
        "rule": "random programs of tree-building calls (operators, remap, apply, flatten, optimized, with_const_vars) "
                "over DAGs with sharing; every program is distinct and contains at least one rewrite (optimized/flatten)",
        "correspondence": {"mismatch": len(mism), **stats},
        "distribution": {"styles": styles, "opcode_histogram": hist,
                         "mean_nodes": sum(m["nodes"] for m in meta.values()) / max(1, len(meta))},
        "samples": [pcases[k] for k in list(pcases)[:1]],
    })
    return rep.finish("proof", cov, assumptions)
