"""C19 — bounded QEF solutions stay in their cell and report their true error."""
import json
import math
import os
from fractions import Fraction

import common
import gen_qef as G

ASSUMPTIONS = [
    "Theorems are about the Lean model of QEF<N> (LibfiveModel/QEF.lean): insert/+=/sub<mask>/error/solveConstrained's "
    "elimination over an ordered field, and solveBounded's control logic for ANY comparison semantics (QOrd) and ANY "
    "dense inner solver (Eigen's SelfAdjointEigenSolver pseudo-inverse is an abstract function parameter).",
    "Tie: the model's selection logic is fed the REAL per-subspace candidates (solveConstrained<nb> for every nb, solve()) "
    "and must pick bit-identically what the real solveBounded returns; candidate structure (flags, face coordinates) is "
    "compared exactly, matrices/errors against the Float instance of the model with a magnitude-scaled tolerance.",
    "Floating-point rounding is not modelled: 'error >= 0' and 'error = QEF(position, value)' are checked on the real code "
    "against an exact rational evaluation from the raw samples with tolerance 2(m+16)·2^-53·M, M = sum of the absolute "
    "values of all terms of the expanded quadratic.",
    "The box the real code keeps solutions in is region.shrink(shrink) (a sub-box of the cell); 'in the box' is checked "
    "exactly against both; constrained coordinates are compared exactly with the shrunk face.",
    "Sample positions and values are finite (only normals may be non-finite, as the property says); magnitudes stay "
    "below 1e60 so that no intermediate overflows.",
]

EPS = 2.0 ** -53


def parse_sol(w, N):
    pos = [G.hex2d(x) for x in w[:N]]
    con = [ch == "1" for ch in w[N]][:N]
    return {"pos": pos, "con": con, "value": G.hex2d(w[N + 1]), "rank": int(w[N + 2]), "error": G.hex2d(w[N + 3]),
            "bits": tuple(w[:N + 4])}


def parse_out(text):
    cases, cur = {}, None
    for ln in text.splitlines():
        w = ln.split()
        if not w:
            continue
        k = w[0]
        if k == "case":
            cur = {"id": w[1], "N": int(w[2]), "cand": {}, "sub": {}, "perm": [], "permresult": [], "split": {},
                   "samples": []}
            cases[w[1]] = cur
            continue
        if cur is None:
            continue
        N = cur["N"]
        if k == "box":
            v = [G.hex2d(x) for x in w[1:]]
            cur["lo"], cur["hi"] = v[:N], v[N:]
        elif k == "shrunk":
            v = [G.hex2d(x) for x in w[1:]]
            cur["slo"], cur["shi"] = v[:N], v[N:]
        elif k == "shrink":
            cur["shrink"] = G.hex2d(w[1])
        elif k == "sample":
            v = [G.hex2d(x) for x in w[1:]]
            cur["samples"].append((v[:N], v[N:2 * N], v[2 * N]))
        elif k == "mat":
            cur["mat"] = [G.hex2d(x) for x in w[1:]]
        elif k == "target":
            cur["target_default"] = w[1] == "default"
            v = [G.hex2d(x) for x in w[2:]]
            cur["tpos"], cur["tval"] = v[:N], v[N]
        elif k == "full":
            cur["full"] = parse_sol(w[1:], N)
        elif k == "cand":
            cur["cand"][int(w[1])] = parse_sol(w[2:], N)
        elif k == "result":
            cur["result"] = parse_sol(w[1:], N)
        elif k == "result4":
            cur["result4"] = parse_sol(w[1:], N)
        elif k == "errat":
            cur["errat"] = G.hex2d(w[1])
        elif k == "permmat":
            i = w.index(":")
            cur["perm"].append(([int(x) for x in w[1:i]], [G.hex2d(x) for x in w[i + 1:]]))
        elif k == "permresult":
            cur["permresult"].append(parse_sol(w[1:], N))
        elif k == "splitmat":
            cur["split"].setdefault(int(w[1]), {})[w[2]] = [G.hex2d(x) for x in w[3:]]
        elif k == "unsupported":
            cur["unsupported"] = True
    return cases


def finite(x):
    return not (math.isnan(x) or math.isinf(x))


def eff_normal(n):
    return list(n) if all(finite(x) for x in n) else [0.0] * len(n)


def exact_error(samples, pos, value):
    """sum_i (n_i . x - w - (n_i . p_i - d_i))^2 exactly, and the magnitude M of its expanded terms"""
    tot = Fraction(0)
    M = 0.0
    X = [Fraction(x) for x in pos]
    W = Fraction(value)
    for (p, n, d) in samples:
        n = eff_normal(n)
        r = -W + Fraction(d)
        mag = abs(value) + abs(d)
        for k in range(len(pos)):
            nk = Fraction(n[k])
            r += nk * X[k] - nk * Fraction(p[k])
            mag += abs(n[k] * pos[k]) + abs(n[k] * p[k])
        tot += r * r
        M += mag * mag
    return tot, M


def mat_magnitudes(samples, N):
    """entrywise sum of |terms| of AtA, AtBp, BptBp"""
    K = N + 1
    A = [[0.0] * K for _ in range(K)]
    B = [[0.0] * K for _ in range(K)]
    C = [[0.0] * K for _ in range(K)]
    for (p, n, d) in samples:
        ni = [abs(x) for x in eff_normal(n)] + [1.0]
        pi = [abs(x) for x in p] + [abs(d)]
        bp = [ni[k] * pi[k] for k in range(K)]
        for i in range(K):
            for j in range(K):
                A[i][j] += ni[i] * ni[j]
                B[i][j] += ni[i] * bp[j]
                C[i][j] += bp[i] * bp[j]
    return [x for M in (A, B, C) for row in M for x in row]


def same_bits(a, b):
    return a == b or (math.isnan(a) and math.isnan(b))


def digit(nb, axis):
    return (nb // 3 ** axis) % 3


def oracle(c, gen, stats):
    """The property, checked on the real code's output for one case.
    Returns a list of (what, detail) failures."""
    fails = []
    N = c["N"]
    r = c["result"]
    lo, hi, slo, shi = c["lo"], c["hi"], c["slo"], c["shi"]
    samples = c["samples"]
    m = len(samples)
    pos = r["pos"]

    # the shrunk region is a sub-box of the cell (so staying in it implies staying in the cell)
    for i in range(N):
        if not (lo[i] <= slo[i] <= shi[i] <= hi[i]):
            fails.append(("shrunk-region-not-inside-box", "axis %d" % i))

    # (1) position inside the box: exact comparisons, as `contains(p, 0)` does
    in_box = all(lo[i] <= pos[i] <= hi[i] for i in range(N))
    in_shrunk = all(slo[i] <= pos[i] <= shi[i] for i in range(N))
    if not in_box:
        fails.append(("position-outside-box", "pos=%r box=[%r,%r]" % (pos, lo, hi)))
    elif not in_shrunk:
        fails.append(("position-outside-shrunk-box", "pos=%r shrunk=[%r,%r]" % (pos, slo, shi)))

    # (2) constrained axes on the face
    full = c["full"]
    is_full = r["bits"] == full["bits"]
    matches = [nb for nb, s in c["cand"].items() if s["bits"] == r["bits"]]
    if any(r["con"]):
        ok_nb = [nb for nb in matches
                 if all((digit(nb, a) != 2) == r["con"][a] for a in range(N))
                 and all(digit(nb, a) == 2 or same_bits(pos[a], shi[a] if digit(nb, a) == 1 else slo[a]) for a in range(N))]
        if not ok_nb:
            fails.append(("constrained-axis-not-on-face", "pos=%r flags=%r shrunk=[%r,%r] candidates=%r" % (
                pos, r["con"], slo, shi, matches)))
        for a in range(N):
            if r["con"][a]:
                slack = (hi[a] - lo[a]) * abs(1 - c["shrink"]) / 2 * (1 + 1e-9) + 4 * EPS * max(abs(lo[a]), abs(hi[a]))
                if not (abs(pos[a] - lo[a]) <= slack or abs(pos[a] - hi[a]) <= slack):
                    fails.append(("constrained-axis-far-from-cell-face", "axis %d pos=%r" % (a, pos[a])))
        stats["constrained_results"] += 1
        stats["by_dim"][N - sum(r["con"])] = stats["by_dim"].get(N - sum(r["con"]), 0) + 1
    else:
        stats["by_dim"][N] = stats["by_dim"].get(N, 0) + 1

    # (3) error is non-negative and is the QEF evaluated at (position, value)
    if not (finite(r["error"]) and finite(r["value"]) and all(finite(x) for x in pos)):
        fails.append(("non-finite-solution", "pos=%r value=%r error=%r" % (pos, r["value"], r["error"])))
    else:
        ref, M = exact_error(samples, pos, r["value"])
        tol = 2 * (m + 16) * EPS * M + 1e-300
        d = abs(Fraction(r["error"]) - ref)
        if M > 0:
            ratio = float(d) / (EPS * M)
            stats["max_err_ratio"] = max(stats["max_err_ratio"], ratio)
            stats["max_err_ratio_per_m"] = max(stats["max_err_ratio_per_m"], ratio / (m + 16))
        if r["error"] < -tol:
            fails.append(("negative-error", "error=%r tol=%r" % (r["error"], tol)))
        if d > tol:
            fails.append(("error-not-qef-at-solution", "reported=%r exact=%r tol=%r" % (r["error"], float(ref), tol)))
        if r["error"] < 0:
            stats["tiny_negative_errors"] += 1
        # the public error() agrees as well
        if finite(c["errat"]) and abs(Fraction(c["errat"]) - ref) > tol:
            fails.append(("public-error()-not-qef-at-solution", "error()=%r exact=%r" % (c["errat"], float(ref))))

    # (4) an unconstrained optimum that lies in the box is returned unchanged.
    # (With the default target and no samples the harness' target value is 0/0 = NaN as in the
    # 2-argument overload on this tree; its `full` candidate is then only meaningful if the
    # library really used that target, i.e. if the result is that candidate or the dummy.)
    if c.get("target_default") and math.isnan(c["tval"]):
        stats["nan_default_target"] += 1
        return fails + accumulation_oracle(c, stats)
    fpos = full["pos"]
    full_in_shrunk = all(slo[i] <= fpos[i] <= shi[i] for i in range(N))
    full_in_box = all(lo[i] <= fpos[i] <= hi[i] for i in range(N))
    if full_in_shrunk:
        stats["full_kept"] += 1
        if not is_full:
            fails.append(("in-box-unconstrained-optimum-not-returned", "full=%r result=%r" % (fpos, pos)))
    else:
        if full_in_box:
            stats["full_in_box_but_in_shrink_margin"] += 1
        if is_full:
            fails.append(("out-of-box-unconstrained-optimum-returned", "full=%r" % (fpos,)))
        elif not any(r["con"]) and N > 0:
            fails.append(("unconstrained-result-that-is-not-the-unconstrained-optimum", "result=%r" % (pos,)))

    return fails + accumulation_oracle(c, stats)


def accumulation_oracle(c, stats):
    # (5) accumulation is order-independent up to rounding
    fails = []
    N, samples = c["N"], c["samples"]
    m = len(samples)
    mags = mat_magnitudes(samples, N)
    tolm = [2 * (m + 4) * EPS * g for g in mags]
    for order, mat in c["perm"]:
        stats["perm_compared"] += 1
        for i, (x, y) in enumerate(zip(c["mat"], mat)):
            if not (same_bits(x, y) or abs(x - y) <= tolm[i]):
                fails.append(("accumulation-order-dependent", "order=%r entry=%d %r vs %r" % (order, i, x, y)))
                break
    for k, d in c["split"].items():
        stats["split_compared"] += 1
        if any(not same_bits(x, y) for x, y in zip(d["ab"], d["ba"])):
            fails.append(("+=-not-commutative", "split=%d" % k))
        for i, (x, y) in enumerate(zip(c["mat"], d["ab"])):
            if not (same_bits(x, y) or abs(x - y) <= tolm[i]):
                fails.append(("+=-differs-from-insert", "split=%d entry=%d %r vs %r" % (k, i, x, y)))
                break
    return fails


def exact_mats(samples, N):
    """AtA, AtB, BtB exactly (rationals) from the raw samples"""
    K = N + 1
    A = [[Fraction(0)] * K for _ in range(K)]
    b = [Fraction(0)] * K
    c = Fraction(0)
    for (p, n, d) in samples:
        ni = [Fraction(x) for x in eff_normal(n)] + [Fraction(-1)]
        bs = sum(ni[k] * Fraction(p[k]) for k in range(N)) - Fraction(d)
        for i in range(K):
            b[i] += ni[i] * bs
            for j in range(K):
                A[i][j] += ni[i] * ni[j]
        c += bs * bs
    return A, b, c


def face_minimum(A, b, c, N, nb, slo, shi):
    """exact minimum of v'Av - 2v'b + c over the face of neighbour nb of the shrunk region
    (independent of libfive's elimination: substitute the fixed coordinates, then Gaussian
    elimination on the normal equations of the remaining variables).  Returns (minimum, unique?)"""
    free = [a for a in range(N) if digit(nb, a) == 2] + [N]
    fixed = {a: Fraction(shi[a] if digit(nb, a) == 1 else slo[a]) for a in range(N) if digit(nb, a) != 2}
    Ac = [[A[r][cc] for cc in free] for r in free]
    bc = [b[r] - sum(A[r][col] * f for col, f in fixed.items()) for r in free]
    const = c - 2 * sum(b[col] * f for col, f in fixed.items()) \
        + sum(A[c1][c2] * f1 * f2 for c1, f1 in fixed.items() for c2, f2 in fixed.items())
    m = len(free)
    M = [Ac[i][:] + [bc[i]] for i in range(m)]
    piv_cols, row = [], 0
    for col in range(m):
        pr = next((r for r in range(row, m) if M[r][col] != 0), None)
        if pr is None:
            continue
        M[row], M[pr] = M[pr], M[row]
        pv = M[row][col]
        M[row] = [x / pv for x in M[row]]
        for r in range(m):
            if r != row and M[r][col] != 0:
                f = M[r][col]
                M[r] = [x - f * y for x, y in zip(M[r], M[row])]
        piv_cols.append(col)
        row += 1
    x = [Fraction(0)] * m
    for r, col in enumerate(piv_cols):
        x[col] = M[r][m]
    # (least-squares normal equations are always consistent)
    emin = const - sum(bc[i] * x[i] for i in range(m))
    tr = sum(Ac[i][i] for i in range(m))
    return emin, len(piv_cols) == m, x, tr


def reduced_tie(c, stats, rng):
    """Tie for `reduced_system_optimal`: a real solveConstrained<nb> candidate must (up to the
    solver's accuracy) attain the exact minimum of the QEF over its face.  Only judged where the
    exact restricted problem has a unique minimiser close enough that the pseudo-inverse's
    eigenvalue cut-off (1e-12 relative) cannot matter."""
    N = c["N"]
    samples = c["samples"]
    if not samples or (c.get("target_default") and math.isnan(c["tval"])):
        return []
    A, b, cc = exact_mats(samples, N)
    r = c["result"]
    nbs = [nb for nb, s in c["cand"].items() if s["bits"] == r["bits"]][:1]
    others = [nb for nb in c["cand"] if nb not in nbs]
    rng.shuffle(others)
    bad = []
    for nb in nbs + others[:2]:
        s = c["cand"][nb]
        if not (finite(s["error"]) and finite(s["value"]) and all(finite(x) for x in s["pos"])):
            continue
        emin, unique, x, tr = face_minimum(A, b, cc, N, nb, c["slo"], c["shi"])
        ecand, M = exact_error(samples, s["pos"], s["value"])
        excess = ecand - emin
        if excess < 0:
            bad.append(("check-bug-negative-excess", nb, float(excess)))
            continue
        if not unique:
            stats["reduced_skipped_singular"] += 1
            continue
        free = [a for a in range(N) if digit(nb, a) == 2] + [N]
        tgt = [Fraction(c["tpos"][a]) if a < N else Fraction(c["tval"]) for a in free]
        dist2 = sum((x[i] - tgt[i]) ** 2 for i in range(len(free)))
        cut = float(tr * dist2) * 1e-12 * (len(free) + 1)
        if cut > 1e-9 * M:
            stats["reduced_skipped_far_optimum"] += 1
            continue
        stats["reduced_judged"] += 1
        ratio = float(excess) / M if M > 0 else 0.0
        stats["reduced_max_excess_over_M"] = max(stats["reduced_max_excess_over_M"], ratio)
        if float(excess) > 1e-6 * M + 1e-300:
            bad.append(("candidate-not-optimal-on-its-face", nb, "excess=%r M=%r emin=%r" % (float(excess), M, float(emin))))
    return bad


def run(rep, tier, seed, replay=None):
    import random
    rng = random.Random(seed * 104729 + 19)
    aud = common.audit("C19")
    exe = common.build_harness("qef")
    n = 4000 if tier == "quick" else 120000
    gens = G.fixed_cases() + [G.gen_case(rng, k, tier) for k in range(n)]
    lines = []
    corpus_dir = os.path.join(common.VERIF, "corpus", "C19")
    if os.path.isdir(corpus_dir):
        for f in sorted(os.listdir(corpus_dir)):
            lines += [l.rstrip("\n") for l in open(os.path.join(corpus_dir, f))]
    in_lines = {}
    for c in gens:
        cl = G.case_lines(c)
        in_lines[c["id"]] = cl
        lines += cl
    work = os.path.join(common.BUILD, "work")
    os.makedirs(work, exist_ok=True)
    pf = os.path.join(work, "c19-%d-%s.in" % (seed, tier))
    with open(pf, "w") as f:
        f.write("\n".join(lines) + "\n")
    r = common.run_harness(exe, [pf], timeout=1500)
    if r.returncode != 0:
        rep.violation("qef harness crashed rc=%d: %s" % (r.returncode, r.stderr[-800:]),
                      {"kind": "harness-crash", "input": pf, "stderr": r.stderr[-4000:]})
        return rep.finish("proof", common.proof_coverage(aud, {"evaluations": 0}), ASSUMPTIONS)
    cases = parse_out(r.stdout)
    verdicts = common.run_driver("c19", r.stdout, timeout=1200).splitlines()

    stats = {"constrained_results": 0, "by_dim": {}, "max_err_ratio": 0.0, "max_err_ratio_per_m": 0.0,
             "tiny_negative_errors": 0, "full_kept": 0, "full_in_box_but_in_shrink_margin": 0,
             "perm_compared": 0, "split_compared": 0, "nan_default_target": 0, "equal_error_comparisons": 0,
             "cases_with_equal_errors": 0, "tiebreak_replacements": 0, "reduced_judged": 0, "assemble_candidates_judged": 0, "assemble_candidates_total": 0,
             "assemble_worst_rel_diff": 0.0, "out_of_scope_cases": 0, "out_of_scope_no_comparable_corner": 0,
             "out_of_scope_result_outside_box": 0,
             "reduced_skipped_singular": 0, "reduced_skipped_far_optimum": 0, "reduced_max_excess_over_M": 0.0}
    meta = {c["id"]: c for c in gens}
    failed = set()
    oos_ids = set()
    for cid, c in cases.items():
        if c.get("unsupported") or "result" not in c:
            continue
        g = meta.get(cid)
        # the in-box theorem itself, observed on the real code for EVERY case (also out-of-scope
        # inputs): a comparable corner error and a well-formed shrunk region => result contained
        N = c["N"]
        wf = all(c["slo"][i] <= c["shi"][i] for i in range(N))
        corner_ok = any(s["error"] < math.inf for nb, s in c["cand"].items()
                        if all(digit(nb, a) != 2 for a in range(N)))
        res_in = all(c["slo"][i] <= c["result"]["pos"][i] <= c["shi"][i] for i in range(N))
        if wf and corner_ok and not res_in:
            failed.add(cid)
            rep.violation("QEF<%d>::solveBounded left the box although a corner candidate had a comparable error" % N,
                          {"kind": "oracle", "case": cid, "input": in_lines.get(cid), "result": c["result"]})
            continue
        if g is not None and g.get("oos"):
            stats["out_of_scope_cases"] += 1
            stats["out_of_scope_no_comparable_corner"] += not corner_ok
            stats["out_of_scope_result_outside_box"] += not res_in
            oos_ids.add(cid)   # not judged further (no reduced tie either)
            continue
        fails = oracle(c, g, stats)
        if not fails:
            continue
        failed.add(cid)
        key = None   # no recorded findings: the empty-QEF defect is fixed (e5a8679)
        rep.violation("QEF<%d>::solveBounded: %s (%s)" % (c["N"], fails[0][0], fails[0][1][:300]),
                      {"kind": "oracle", "case": cid, "class": g and g["cls"], "input": in_lines.get(cid),
                       "failures": fails[:6], "result": c["result"],
                       "how": "write the input lines to a file and run .build/plain/harness/qef <file>"},
                      key=key)

    # ---- tie for reduced_system_optimal (exact rational face minima vs the real candidates)
    rrng = random.Random(seed * 31 + 7)
    every = 1 if tier == "quick" else 8
    for k, (cid, c) in enumerate(cases.items()):
        if c.get("unsupported") or "result" not in c or cid in failed or cid in oos_ids or (k % every and not cid.startswith("fixed")):
            continue
        bad = reduced_tie(c, stats, rrng)
        if bad:
            failed.add(cid)
            rep.violation("solveConstrained<%d> candidate is not the minimiser on its face (stream C19.reduced): %r" % (
                bad[0][1], bad[0]),
                {"kind": "correspondence", "stream": "C19.reduced (QEF.reducedAtA / reducedAtB vs real solveConstrained)",
                 "case": cid, "input": in_lines.get(cid), "detail": bad[:4],
                 "theorems_affected": ["Libfive.C19.reduced_system", "Libfive.C19.reduced_system_optimal"]},
                no_input=True)

    # ---- thorough: the same real code under ASan/UBSan on a slice of the cases
    if tier == "thorough":
        try:
            exe_a = common.build_harness("qef", flavour="asan")
            sl = []
            for c in gens[:6000]:
                sl += in_lines[c["id"]]
            pfa = os.path.join(work, "c19-%d-asan.in" % seed)
            with open(pfa, "w") as f:
                f.write("\n".join(sl) + "\n")
            ra = common.run_harness(exe_a, [pfa], timeout=1500)
            stats["asan_cases"] = 6000 if len(gens) >= 6000 else len(gens)
            if ra.returncode != 0:
                rep.violation("qef harness under ASan/UBSan failed rc=%d: %s" % (ra.returncode, ra.stderr[-600:]),
                              {"kind": "sanitizer", "input": pfa, "stderr": ra.stderr[-4000:]})
            elif ra.stdout != "".join(l + "\n" for l in r.stdout.splitlines()[:len(ra.stdout.splitlines())]):
                stats["asan_output_differs_from_plain"] = True   # -O1 vs -O2 rounding (FMA); informational
        except RuntimeError as e:
            common.log("asan flavour unavailable: %s" % (str(e)[:200],))
            stats["asan_cases"] = 0

    # ---- correspondence verdicts
    mism = [v for v in verdicts if v.startswith("MISMATCH")]
    oks = {}
    paths = {}
    for v in verdicts:
        w = v.split()
        if w[0] == "ok":
            oks[w[1]] = oks.get(w[1], 0) + 1
            if w[1] == "assemble":
                for x in w:
                    if x.startswith("judged="):
                        stats["assemble_candidates_judged"] += int(x[7:])
                    elif x.startswith("of="):
                        stats["assemble_candidates_total"] += int(x[3:])
                    elif x.startswith("worst_e12="):
                        try:
                            stats["assemble_worst_rel_diff"] = max(stats["assemble_worst_rel_diff"], float(x[10:]) * 1e-12)
                        except ValueError:
                            pass
            if w[1] == "select":
                for x in w:
                    if x.startswith("ties="):
                        stats["equal_error_comparisons"] += int(x[5:])
                        stats["cases_with_equal_errors"] += int(x[5:]) > 0
                    elif x.startswith("tiebreaks="):
                        stats["tiebreak_replacements"] += int(x[10:])
                p = [x for x in w if x.startswith("path=")][0][5:]
                p = p.split("-")[-1] if p.startswith("nb") else p
                paths[p] = paths.get(p, 0) + 1
    streams = {
        "select": ["Libfive.C19.solveBounded_in_box", "Libfive.C19.unconstrained_kept", "Libfive.C19.result_is_candidate"],
        "cand": ["Libfive.C19.constrained_on_face", "Libfive.C19.reported_error_is_qef"],
        "insert": ["Libfive.C19.error_sum_of_squares"], "accum": ["Libfive.C19.accumulate_comm_assoc"],
        "sub": ["Libfive.C19.sub_accumulate"], "shrink": ["Libfive.C19.shrink_inside"],
        "assemble": ["Libfive.C19.candidate_minimises_on_face", "Libfive.C19.reduced_system", "Libfive.C19.constrained_on_face"],
    }
    reported = set(failed)
    for mline in mism[:20]:
        w = mline.split()
        cid = w[w.index("case") + 1] if "case" in w else "?"
        if cid in reported:
            continue
        reported.add(cid)
        rep.violation("model/implementation correspondence broken (stream C19.%s): %s" % (w[1], mline[:300]),
                      {"kind": "correspondence", "stream": "C19.%s (LibfiveModel/QEF.lean)" % w[1], "case": cid,
                       "input": in_lines.get(cid), "verdict": mline,
                       "theorems_affected": streams.get(w[1], [])}, no_input=True)
    if not aud["ok"]:
        common.report_broken_proof(rep, aud)

    def hist(key):
        h = {}
        for c in gens:
            h[c[key]] = h.get(c[key], 0) + 1
        return h
    nontrivial = sum(v for k, v in paths.items() if k not in ("full", "dummy"))
    cov = common.proof_coverage(aud, {
        "evaluations": len(cases),
        "distinct_nontrivial": nontrivial,
        "rule": "generated sample sets x boxes; non-trivial = the unconstrained optimum left the (shrunk) box, so the "
                "descending-dimension search ran and returned a face/edge/corner candidate",
        "correspondence": {"verdicts_ok": oks, "mismatch": len(mism), "selection_paths": paths, **stats},
        "distribution": {"dimension": hist("N"), "sample_class": hist("cls"), "box_class": hist("boxcls"),
                         "explicit_target": sum(1 for c in gens if c["target"] is not None),
                         "mean_samples": sum(len(c["samples"]) for c in gens) / max(1, len(gens)),
                         "shrink": {str(k): sum(1 for c in gens if c["shrink"] == k) for k in {c["shrink"] for c in gens}}},
        "samples": [in_lines[k] for k in list(in_lines)[:2]],
    })
    return rep.finish("proof", cov, ASSUMPTIONS)
