"""C04 — the mesh is the boundary of the solid, to within the resolution."""
import collections
import math
import os
import random
import subprocess

import common
import gen_mesh
import translate_meshtables
from checks import c03

# Oracle constants (chosen so that the unchanged tree never alarms; the margins observed in the run
# are written to the evidence):  winding number is demanded at points with |f| > K_WIND * min_feature;
# every vertex must satisfy |f(vertex)| <= K_DIST[alg] * min_feature.
K_WIND = 1.0
K_DIST = {"dc": 3.0, "hybrid": 1.5, "simplex": 1e-3}
WIND_TOL = 0.02

ASSUMPTIONS = [
    "Theorems: tet_triangle_outward (complete regenerated tet table), search_bracket / search_finds_zero for every classifier "
    "resp. every continuous field on the edge (exact real arithmetic; constants 16 samples x 4 rounds regenerated from both "
    "mesher sources), vertex_in_region (convexity).  The geometric winding number of the float mesh is NOT derived "
    "(winding_partial): it is checked by the oracle on every run.",
    "Oracle: generated fields are CSG of exact/conservative distance fields (1-Lipschitz), evaluated by an independent "
    "double-precision interpreter in the harness; winding number by signed solid angles at random points with "
    "|f| > %g*min_feature; |f(vertex)| <= k'*min_feature with k' = %s; vertices inside the render region." % (K_WIND, K_DIST),
    "DC vertex placement (findVertex) has no model here; for DC only the oracle side exists.",
    "searchEdge tie: the Lean model is run on the sign classifier of the reference field and compared with the vertex each of the two real "
    "copies (SimplexMesher::searchEdge, HybridMesher::searchEdge) returns; crossings within float noise of a sample point, grazing crossings and multi-crossing segments are skipped (counted).",
]


def find_segments(rng, sh, count):
    """segments from a point inside to a point outside, for the searchEdge tie"""
    b, root = sh["builder"], sh["root"]
    ins, outs = [], []
    for _ in range(400):
        p = tuple(rng.uniform(-1.7, 1.7) for _ in range(3))
        f = b.eval(root, *p)
        if f < -0.03:
            ins.append(p)
        elif 0.03 < f < 0.8:
            outs.append(p)
        if len(ins) >= 6 and len(outs) >= 30:
            break
    segs = []
    for a in ins:
        for c in outs:
            d = math.dist(a, c)
            if 0.6 <= d <= 1.6:
                segs.append((a, c))
                break
        if len(segs) >= count:
            break
    return segs


def gen_program(rng, tier):
    nshapes = 10 if tier == "quick" else 80
    levels = [2, 3, 4, 4, 5, 5, 5] if tier == "quick" else [2, 3, 4, 4, 5, 5, 6]
    lines, meta = [], {}
    nblade = 5 if tier == "quick" else 30
    noct = 3 if tier == "quick" else 16
    for k in range(nshapes + nblade + noct):
        if k < nshapes:
            sh = gen_mesh.gen_shape(rng)
            lo, hi = sh["region"]
            L = rng.choice(levels)
            mf = gen_mesh.min_feature_for_levels(rng, min(h - l for l, h in zip(lo, hi)), L)
        elif k >= nshapes + nblade:     # directed family: a sphere clipping single octants of coarse volume-tree cells
            sh = gen_mesh.gen_octant_sphere(rng)
            lo, hi = sh["region"]
            mf = sh["min_feature"]
            L = 5
        else:       # directed family: thin truncated blades aligned with a row of cells (bounded vertex placement)
            L = rng.choice([3, 4, 4, 5])
            sh = gen_mesh.gen_blade(rng, L)
            lo, hi = sh["region"]
            mf = sh["min_feature"]
        cid = str(k)
        hdr = ["case %s" % cid] + sh["lines"] + ["root %d" % sh["root"],
               "region %s %s" % (" ".join("%.9g" % c for c in lo), " ".join("%.9g" % c for c in hi))]
        body = []
        for _ in range(30):
            body.append("probe " + " ".join("%.9g" % rng.uniform(l, h) for l, h in zip(lo, hi)))
        # points deep inside the solid and points just outside it (random points are mostly far outside)
        cand = [tuple(rng.uniform(-1.7, 1.7) for _ in range(3)) for _ in range(500)]
        vals = sorted((sh["builder"].eval(sh["root"], *p), p) for p in cand)
        deep = [p for f, p in vals[:15]]
        near_out = [p for f, p in vals if 0 < f][:15]
        for p in deep + near_out:
            body.append("probe " + " ".join("%.9g" % c for c in p))
        for a, c in find_segments(rng, sh, 4):
            body.append("search %s %s" % (" ".join("%.9g" % x for x in a), " ".join("%.9g" % x for x in c)))
        for alg in c03.ALGS:
            errs = ["1e-8", rng.choice(["-1", "-1", "1e-2", "1e-3"])]
            for me in errs:
                workers = rng.choice([1, 2, 4, 8, 16])
                vol = 1 if (rng.random() < 0.45 or k >= nshapes + nblade) else 0
                body.append("render %s %.9g %s %d %d 0" % (alg, mf, me, workers, vol))
        lines += hdr + body + ["end"]
        meta[cid] = {"header": hdr, "probes": [l for l in body if l.startswith("probe")],
                     "searches": [l for l in body if l.startswith("search")], "levels": L, "min_feature": mf,
                     "prims": [p["kind"] for p in sh["prims"]], "ops": sh["ops"], "region": (lo, hi),
                     # shapes with a thin wedge / blade are below the requested resolution near the thin end
                     "family": "blade" if nshapes <= k < nshapes + nblade or any(p["kind"][0] in ("wedge", "blade") for p in sh["prims"]) else "csg"}
    return lines, meta


def run(rep, tier, seed, replay=None):
    rng = random.Random(seed * 7919 + 4)
    translate_meshtables.main()
    aud = common.audit("C04")
    exe = common.build_harness("mesh")
    prog, meta = gen_program(rng, tier)
    # the VolTree path used to crash for simplex / hybrid (fixed by ebdd503): probe it in separate
    # processes first, so that a regression is reported with its input instead of killing the run
    crashing = c03.vol_crash_probe(exe)
    for alg, (rc, cprog) in crashing.items():
        rep.violation("Mesh::render with alg=%s and settings.vol set crashes (rc=%s): cells the VolTree proves empty/filled "
                      "get no leaf, assignIndices dereferences it" % (alg, rc),
                      {"kind": "oracle", "program": cprog, "rc": rc,
                       "how": "write `program` to a file and run .build/plain/harness/mesh <file>"},
                      key="C04:vol-%s-null-leaf" % alg)
    if crashing:
        prog = c03.strip_vol(prog, set(crashing))
    work = os.path.join(common.BUILD, "work")
    os.makedirs(work, exist_ok=True)
    pf = os.path.join(work, "c04-%d-%s.prog" % (seed, tier))
    with open(pf, "w") as f:
        f.write("\n".join(prog) + "\n")
    r = common.run_harness(exe, [pf], timeout=3000)
    if r.returncode != 0:
        rep.violation("mesh harness crashed rc=%d: %s" % (r.returncode, r.stderr[-500:]),
                      {"kind": "harness-crash", "program": pf, "stderr": r.stderr[-3000:]})
        return rep.finish("proof", common.proof_coverage(aud, {"evaluations": 0}), ASSUMPTIONS)
    stats = collections.Counter()
    renders = list(c03.parse_renders(r.stdout))

    def replay_of(rd, extra=()):
        h = rd["hdr"]
        m = meta[h[1]]
        return {"program": m["header"] + list(extra) + ["render %s %s %s %s %s 0" % (h[2], h[3], h[4], h[5], h[6]), "end"],
                "how": "write `program` lines to a file and run .build/plain/harness/mesh <file>; v-lines: x y z f(vertex); "
                       "w-lines: probe x y z f winding-number",
                "levels": m["levels"], "prims": m["prims"], "ops": m["ops"], "region": m["region"]}

    margins = {"wind_worst_bad_f_over_mf": 0.0, "dist_max": collections.defaultdict(float), "probes_checked": 0,
               "probes_too_close": 0, "inside_probes": 0}
    for rd in renders:
        h = rd["hdr"]
        if rd.get("null"):
            rep.violation("Mesh::render returned null without cancellation: %s" % " ".join(h), replay_of(rd))
            continue
        alg, mf = h[2], float(h[3])
        lo, hi = meta[h[1]]["region"]
        stats["renders"] += 1
        stats["renders_" + alg] += 1
        if h[6] == "1":
            stats["with_vol_" + alg] += 1
        stats["vertices"] += max(0, len(rd["v"]) - 1)
        if not rd["b"]:
            stats["empty_meshes"] += 1
        # ---- winding number at probes far from the surface
        bad_w = []
        for w in rd["w"]:
            f, wn = float(w[4]), float(w[5])
            expect = 1.0 if f < 0 else 0.0
            # the directed blade family is thinner than a cell near its cut-off end, i.e. below the requested
            # resolution there: the mesh may enclose points up to the distance its vertices may stray (K_DIST) plus
            # one cell, so the winding number is demanded beyond that; all other shapes use K_WIND
            kw = (K_DIST[alg] if alg != "simplex" else 0.0) + 1.0 if meta.get(h[1], {}).get("family") == "blade" else K_WIND
            far = abs(f) > kw * mf
            ok = abs(wn - expect) <= WIND_TOL
            if far:
                margins["probes_checked"] += 1
                margins["inside_probes"] += int(f < 0)
                if not ok:
                    bad_w.append(w)
            else:
                margins["probes_too_close"] += 1
                if not ok:
                    margins["wind_worst_bad_f_over_mf"] = max(margins["wind_worst_bad_f_over_mf"], abs(f) / mf)
        if bad_w:
            rp = replay_of(rd, ["probe %s %s %s" % (w[1], w[2], w[3]) for w in bad_w[:5]])
            rp.update({"kind": "oracle", "bad_probes(i x y z f winding)": bad_w[:10], "k": K_WIND})
            rep.violation("%s mesh has the wrong winding number at a point with |f| > %g*min_feature: f=%s winding=%s (case %s, "
                          "min_feature %s, max_err %s)" % (alg, K_WIND, bad_w[0][4], bad_w[0][5], h[1], h[3], h[4]), rp)
        # ---- every vertex inside the region and close to the level set
        eps = 1e-5
        outside, far_v = [], []
        for i, v in enumerate(rd["v"][1:], start=1):
            p = [float(c) for c in v[:3]]
            if any(c < l - eps or c > u + eps for c, l, u in zip(p, lo, hi)):
                outside.append((i, v))
            d = abs(float(v[3])) / mf
            if d > margins["dist_max"][alg]:
                margins["dist_max"][alg] = d
            if not (d <= K_DIST[alg]):      # also catches NaN
                far_v.append((i, v))
        if outside:
            rp = replay_of(rd)
            rp.update({"kind": "oracle", "vertices_outside_region(index, x y z f)": outside[:10]})
            key = "C04:dc-vertex-outside-region" if alg == "dc" else None
            rep.violation("%s mesh has a vertex outside the render region: %s (case %s, min_feature %s)"
                          % (alg, outside[0][1][:3], h[1], h[3]), rp, key=key)
        if far_v:
            rp = replay_of(rd)
            rp.update({"kind": "oracle", "vertices_far_from_level_set(index, x y z f)": far_v[:10], "k_prime": K_DIST[alg]})
            key = "C04:dc-vertex-far-on-thin-blade" if alg == "dc" and meta.get(h[1], {}).get("family") == "blade" else None
            rep.violation("%s mesh has a vertex with |f| > %g*min_feature: |f|/min_feature = %.4g (case %s, min_feature %s, max_err %s)"
                          % (alg, K_DIST[alg], abs(float(far_v[0][1][3])) / mf, h[1], h[3], h[4]), rp, key=key)

    # ---- searchEdge: property oracle + model correspondence
    searches = [l for l in r.stdout.splitlines() if l.startswith("search ") or l.startswith("hsearch ")]
    if not aud["ok"]:
        common.lake_build(["vd-c04"])
    try:
        verdicts = common.run_driver("c04", "\n".join(searches) + "\n").splitlines() if searches else []
    except Exception as e:                  # noqa: BLE001
        common.log("driver vd-c04 unavailable: %r" % (e,))
        verdicts = []
        if aud["ok"]:
            raise
    sstat = collections.Counter(v.split()[0] for v in verdicts)
    oracle_search_bad = set()
    for n, l in enumerate(searches):
        w = l.split()
        t, off, fa, fb, ln, flo, fhi = float(w[2]), float(w[3]), float(w[6]), float(w[7]), float(w[8]), float(w[10]), float(w[11])
        if not (fa < 0 < fb):
            stats["search_skipped_bad_ends"] += 1
            continue
        stats["search_cases_" + ("hybrid" if w[0] == "hsearch" else "simplex")] += 1
        tol_f = 2e-6 + 1e-5 * ln
        tol_t = 1e-6 / ln + 1e-7
        k = t * 50625 - 0.5
        problems = []
        if not (-tol_t <= t <= 1 + tol_t) or off > 1e-6:
            problems.append("vertex not on the edge (t=%r offset=%r)" % (t, off))
        if abs(k - round(k)) > 50625 * tol_t + 1e-3:
            problems.append("vertex is not the midpoint of a bracket of length L/15^4 (t*15^4-0.5 = %r)" % k)
        if not (flo <= tol_f and fhi >= -tol_f):
            problems.append("final bracket does not contain the sign change: f(lo)=%r f(hi)=%r" % (flo, fhi))
        if problems:
            oracle_search_bad.add(w[1] + "#" + str(n))
            rep.violation("%s result violates the bracket property: %s" % ("HybridMesher::searchEdge" if w[0] == "hsearch" else "SimplexMesher::searchEdge", "; ".join(problems)),
                          {"kind": "oracle", "program": meta[w[1]]["header"] + meta[w[1]]["searches"] + ["end"], "observed": l,
                           "how": "write `program` to a file and run .build/plain/harness/mesh <file>",
                           "columns": "search|hsearch case t_real offset z changes f(a) f(b) len slope f(bracket lo) f(bracket hi)"})
    mism = [v for v in verdicts if v.startswith("MISMATCH")]
    if mism and not oracle_search_bad:
        rep.violation("model/implementation correspondence broken (stream C04.search): %s" % mism[0][:300],
                      {"kind": "correspondence", "stream": "C04.search (LibfiveModel/Marching.lean: search, searchRound, firstOut)",
                       "verdicts": mism[:10], "theorems_affected": ["Libfive.C04.search_bracket", "Libfive.C04.search_finds_zero"]},
                      no_input=True)
    if not aud["ok"]:
        if rep.violations:
            common.log("audit failed; concrete failing inputs were found and reported: %s" % str(aud["problems"])[:400])
        else:
            common.report_broken_proof(rep, aud)

    nontrivial = {(rd["hdr"][1], rd["hdr"][2], rd["hdr"][4], rd["hdr"][6]) for rd in renders if rd["b"]}
    cov = common.proof_coverage(aud, {
        "evaluations": stats["renders"] + len(searches), "distinct_nontrivial": len(nontrivial) + sstat.get("ok", 0),
        "rule": "seeded CSG solids with 1-Lipschitz fields strictly inside the region, 2-6 levels, dc/simplex/hybrid, merging on/off, "
                "workers 1..16, all three algorithms with and without a VolTree (after a crash probe of the VolTree path in separate processes); "
                "non-trivial = non-empty mesh with distinct (shape, algorithm, max_err, vol) or a search case the model decided",
        "correspondence": {"search_verdicts": dict(sstat), **{k: v for k, v in sorted(stats.items())}},
        "oracle": {"k_winding": K_WIND, "k_distance": K_DIST, "winding_tolerance": WIND_TOL,
                   "probes_checked": margins["probes_checked"], "inside_probes_checked": margins["inside_probes"],
                   "probes_closer_than_k": margins["probes_too_close"],
                   "largest_|f|/min_feature_of_a_probe_with_wrong_winding(<k, not demanded)": margins["wind_worst_bad_f_over_mf"],
                   "max_|f(vertex)|/min_feature": dict(margins["dist_max"])},
        "distribution": {"levels": collections.Counter(str(m["levels"]) for m in meta.values()),
                         "prims": collections.Counter(p[0] for m in meta.values() for p in m["prims"]),
                         "ops": collections.Counter(o for m in meta.values() for o in m["ops"])},
        "samples": [" ".join(rd["hdr"]) for rd in renders[:3]] + searches[:2],
    })
    return rep.finish("proof", cov, ASSUMPTIONS)
