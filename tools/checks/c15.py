"""C15 — evaluator answers do not depend on what was asked before."""
import os
import random

import common
import gen
import gen_c06 as G

ASSUMPTIONS = [
    "Theorem (frame argument) is about the Lean model of the evaluator scratch (LibfiveModel/EvalState.lean): states that agree on constants, variable values, leaf derivative seeds and the clear_vars flag give equal answers to every query and stay in agreement; feature queries need the two hypotheses the real code does not establish (count_simd covers the lanes of binary clauses; the sqrt output row is replicated).",
    "Tie/oracle: one long-lived Evaluator vs a fresh Evaluator (own Deck, same optimised tree, same variable values, same chain of tape specialisations) per query; answers compared with == plus NaN-equality, feature lists as sets.",
    "The driver replays the history through the model's bookkeeping (count_simd, clear_vars, seeds, variable store, updateVars results, bit-exact values on exact tapes) and evaluates the feature hypotheses on the real feature counts.",
    "Float rounding and the Eigen/Boost kernels are not modelled; oracles (ORACLE clauses) are out of scope here (C16).",
]


def feq(a, b):
    if a == b:
        return True
    try:
        x, y = gen.hex2f(a), gen.hex2f(b)
    except Exception:
        return False
    return x == y or (x != x and y != y)


def answers_equal(kind, a, b):
    if kind == "features":
        if not a or not b:
            return a == b

        def canon(w):
            n = int(w[0])
            out = []
            for k in range(n):
                t = tuple(gen.hex2f(x) for x in w[1 + 3 * k: 4 + 3 * k])
                out.append(tuple("nan" if c != c else c + 0.0 for c in t))
            return sorted(set(out), key=str)
        return canon(a) == canon(b)
    if len(a) != len(b):
        return False
    return all(feq(x, y) for x, y in zip(a, b))


def history(rng, cid, tier):
    style = rng.choice(["smooth", "smooth", "csg", "feature", "feature", "vars"])
    lines = ["case %d" % cid]
    p0 = None
    tie_pts = []
    if style == "feature":
        b, root, pts = G.feature_case(rng, rng.choice(["csg", "csg-smooth", "sqrt", "pyramids", "shared", "axis", "axis"]))
        lines += b.lines
        p0 = pts[0]
        tie_pts = pts
        vars_, kind = [], b.kind
    else:
        if style == "csg":
            opts = dict(unary=["neg", "abs", "square", "sqrt"], binary=["add", "sub", "mul", "min", "max"], p_minmax=0.45)
        else:
            opts = dict(unary=G.SMOOTH_UNARY, binary=G.SMOOTH_BINARY, p_minmax=0.25)
        nv = rng.choice([1, 2, 3]) if style == "vars" else rng.choice([0, 0, 1])
        g = G.SmoothGen(rng, size=rng.randint(3, 14), nvars=nv, p_cvars=0.2 if nv else 0.0, **opts)
        root = g.build()
        if g.vars and rng.random() < 0.5:
            # sign-of-zero sensitivity: (x + 2) / v  and  atan2(v, x - 3) see the difference between v = +0 and
            # v = -0, so an update between zeros of opposite sign must reach every evaluator half
            v0 = rng.choice(list(g.vars))
            q = g._emit(("bin", "div", g._emit(("bin", "add", 0, g.const(2.0))), v0))
            if rng.random() < 0.5:
                q = g._emit(("bin", "add", q, g._emit(("bin", "atan2", v0, g._emit(("bin", "sub", 0, g.const(3.0)))))))
            root = g._emit(("bin", "add", root, q))
        lines += g.lines
        vars_, kind = list(g.vars), g.kind
    for v in vars_:
        lines.append("varval %d %s" % (v, gen.f2hex(gen.f32(rng.uniform(-1.5, 1.5)))))
    lines.append("root %d" % root)
    boxes = [((-2.0, -2.0, -2.0), (2.0, 2.0, 2.0))]
    nq = rng.randint(25, 60) if tier == "quick" else rng.randint(40, 120)
    batch_sizes = []

    def point():
        lo, hi = boxes[-1]
        if p0 is not None and rng.random() < 0.5:
            q0 = rng.choice(tie_pts) if tie_pts else p0         # any of the exact tie points of the case
            p = tuple(q0[i] + rng.choice([0, 0, 0, 0, 0, 0.125, -0.25, 0.5]) for i in range(3))
            return tuple(gen.f32(c) for c in p)
        return gen.rand_point(rng, lo, hi, lattice=0.4)

    kinds = ["value", "values", "deriv", "derivs", "features", "isinside", "interval", "ipush", "ppush", "pop", "getbase"]
    weights = [3, 3, 3, 3, 5 if style in ("feature", "csg") else 2, 3, 2, 2, 1, 2, 1]
    if vars_:
        kinds += ["setvar", "jac"]
        weights += [2, 3]
    for _ in range(nq):
        k = rng.choices(kinds, weights)[0]
        if k in ("value", "deriv", "features", "isinside", "jac", "getbase"):
            lines.append("%s %s" % (k, gen.pt_hex(point())))
        elif k in ("values", "derivs"):
            n = rng.choice([1, 2, 15, 16, 17, 31, 32, 33, 255, 256]) if rng.random() < 0.35 else rng.randint(1, 256)
            batch_sizes.append(n)
            lines.append("%s %d %s" % (k, n, " ".join(gen.pt_hex(point()) for _ in range(n))))
        elif k == "interval":
            lo, hi = gen.sub_box(rng, *boxes[-1])
            lines.append("interval %s %s" % (gen.pt_hex(lo), gen.pt_hex(hi)))
        elif k == "ipush":
            if len(boxes) < 5:
                lo, hi = gen.sub_box(rng, *boxes[-1], shrink=(0.3, 0.9))
                if p0 is not None and rng.random() < 0.6:     # keep the tie point inside
                    lo = tuple(min(a, c) for a, c in zip(lo, p0))
                    hi = tuple(max(a, c) for a, c in zip(hi, p0))
                    lo, hi = tuple(gen.f32(c) for c in lo), tuple(gen.f32(c) for c in hi)
                boxes.append((lo, hi))
                lines.append("ipush %s %s" % (gen.pt_hex(lo), gen.pt_hex(hi)))
        elif k == "ppush":
            if len(boxes) < 5:
                boxes.append(boxes[-1])
                lines.append("ppush %s" % gen.pt_hex(point()))
        elif k == "pop":
            if len(boxes) > 1:
                boxes.pop()
                lines.append("pop")
        elif k == "setvar":
            while len(boxes) > 1:      # specialised tapes were computed for the old variable values
                boxes.pop()
                lines.append("pop")
            idx = rng.randrange(len(vars_))
            val = rng.choice([0.0, -0.0, 0.0, -0.0, 1.0, -0.5, gen.f32(rng.uniform(-1.5, 1.5))])
            lines.append("setvar %d %s" % (idx, gen.f2hex(val)))
            if rng.random() < 0.3:     # same value again: must report "unchanged"
                lines.append("setvar %d %s" % (idx, gen.f2hex(val)))
    lines.append("end")
    return dict(id=str(cid), style=style, lines=lines, batch=batch_sizes, nodes=len(kind))


def run(rep, tier, seed, replay=None):
    rng = random.Random(seed * 7919 + 15)
    aud = common.audit("C15")
    exe = common.build_harness("history")
    ncases = 400 if tier == "quick" else 4000
    cases = [history(rng, k, tier) for k in range(ncases)]
    work = os.path.join(common.BUILD, "work")
    os.makedirs(work, exist_ok=True)
    pf = os.path.join(work, "c15-%d-%s.prog" % (seed, tier))
    with open(pf, "w") as f:
        for c in cases:
            f.write("\n".join(c["lines"]) + "\n")
    r = common.run_harness(exe, [pf], timeout=1500)
    if r.returncode != 0:
        rep.violation("history harness crashed rc=%d: %s" % (r.returncode, r.stderr[-800:]),
                      {"kind": "harness-crash", "program": pf, "stderr": r.stderr[-4000:]}, no_input=True)
        return rep.finish("proof", common.proof_coverage(aud, {"evaluations": 0}), ASSUMPTIONS)
    verdicts = common.run_driver("c15", r.stdout, timeout=600).splitlines()
    hyps, mism = {}, {}
    oks = 0
    vstats = {}
    for v in verdicts:
        w = v.split()
        if not w:
            continue
        case = w[w.index("case") + 1] if "case" in w else "?"
        q = int(w[w.index("q") + 1]) if "q" in w else 0
        if w[0] == "hyp":
            hyps.setdefault((case, q), set()).add(w[1])
        elif w[0] == "MISMATCH":
            mism.setdefault(case, []).append(v)
        elif w[0] == "ok":
            oks += 1
            vstats[w[1]] = vstats.get(w[1], 0) + 1

    by_case = {c["id"]: c for c in cases}
    st = {"queries": 0, "by_kind": {}, "differing": 0, "setvar": 0, "setvar_changed": 0, "pushes": 0, "max_depth": 0,
          "nontrivial_features": 0}
    failed = set()
    case = None
    q = 0
    samples = []
    for ln in r.stdout.splitlines():
        w = ln.split()
        if not w:
            continue
        if w[0] == "case":
            case, q = w[1], 0
            present = set()
        elif w[0] == "deck":
            iv = w.index("vars")
            nv = int(w[iv + 1])
            present = {int(w[iv + 3 + 3 * k]) for k in range(nv)}
        elif w[0] == "push":
            st["pushes"] += 1
            st["max_depth"] = max(st["max_depth"], int(w[3]))
        elif w[0] == "setvar":
            st["setvar"] += 1
            new, old, changed = gen.hex2f(w[2]), gen.hex2f(w[4]), w[6] == "1"
            st["setvar_changed"] += 1 if changed else 0
            # a variable the optimiser removed from the expression is "not present": setVar does nothing
            if changed != ((old != new) and int(w[1]) in present):
                failed.add(case)
                rep.violation("updateVars reported changed=%s for old %r new %r" % (changed, old, new),
                              {"kind": "oracle-updateVars", "case": case, "program": by_case[case]["lines"], "line": ln})
        elif w[0] == "q":
            q += 1
            kind = w[1]
            st["queries"] += 1
            st["by_kind"][kind] = st["by_kind"].get(kind, 0) + 1
            iL, iBar = w.index("L"), w.index("|")
            a, b = w[iL + 1:iBar], w[iBar + 2:]
            if kind == "features" and a and int(a[0]) > 1:
                st["nontrivial_features"] += 1
            if len(samples) < 3 and kind in ("features", "derivs") and len(a) < 30:
                samples.append({"case": case, "query": kind, "long_lived": a, "fresh": b})
            if answers_equal(kind, a, b):
                continue
            st["differing"] += 1
            if case in failed:
                continue
            hy = hyps.get((case, q), set())
            key = None
            failed.add(case)
            prog = by_case[case]["lines"]
            rep.violation("long-lived evaluator answers %s differently from a fresh one (query #%d): %s vs %s"
                          % (kind, q, " ".join(a[:12]), " ".join(b[:12])),
                          {"kind": "oracle-history", "case": case, "style": by_case[case]["style"], "query_index": q,
                           "query": kind, "long_lived": a, "fresh": b, "failed_frame_hypotheses": sorted(hy), "program": prog,
                           "how": "write program lines to a file and run .build/plain/harness/history <file>"}, key=key)
    for case, ms in mism.items():
        if case in failed:
            continue
        rep.violation("model/implementation correspondence broken (stream C15.history): %s" % ms[0][:400],
                      {"kind": "correspondence", "stream": "C15 (LibfiveModel/EvalState.lean bookkeeping)", "case": case,
                       "program": by_case[case]["lines"] if case in by_case else None, "verdicts": ms[:5],
                       "theorems_affected": ["Libfive.C15.history_independent", "Libfive.C15.updateVars_effect"]},
                      no_input=True)
    if not aud["ok"]:
        common.report_broken_proof(rep, aud)
    sizes = sorted({n for c in cases for n in c["batch"]})
    styles = {}
    for c in cases:
        styles[c["style"]] = styles.get(c["style"], 0) + 1
    cov = common.proof_coverage(aud, {
        "evaluations": st["queries"], "distinct_nontrivial": st["queries"] - st["by_kind"].get("getbase", 0),
        "rule": "every query of every generated history (mixed values / batches / derivs / features / isInside / intervals / "
                "pushes / pops / getBase / setVar / Jacobian) answered by the long-lived and by a fresh evaluator; all histories distinct",
        "correspondence": {"verdicts_ok": oks, "by_stream": vstats, "mismatch": sum(len(v) for v in mism.values()),
                           "hypothesis_failures": sum(len(v) for v in hyps.values()), **st},
        "distribution": {"styles": styles, "histories": len(cases), "distinct_batch_sizes": len(sizes),
                         "mean_nodes": sum(c["nodes"] for c in cases) / max(1, len(cases))},
        "samples": samples,
    })
    return rep.finish("proof", cov, ASSUMPTIONS)
