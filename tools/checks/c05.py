"""C05 — specialised tapes agree with the full expression on their region."""
import os
import common
import gen

ASSUMPTIONS = [
    "Theorems are about the Lean model of Tape::push / getBase (LibfiveModel/Tape.lean), for every tape, keep function and environment.",
    "Tie: every tape the real evaluators produce in the run is re-derived by the model from the real slot values and compared clause by clause; WF and keep-soundness hypotheses are checked on the real data.",
    "Bit-identity of float kernels on shortened tapes is observed (same kernels, same inputs), not proved.",
    "Oracle contexts (Tape::push for ORACLE clauses) are covered by C16, not here.",
]


def region_query(rng, boxes):
    """getBase(Region) query relative to one of the boxes of the push chain: inside it, equal to it, containing it, or
    sticking out through exactly ONE face (each of the six) / one edge; then sample points of the query box."""
    blo, bhi = rng.choice(boxes[1:]) if len(boxes) > 1 else boxes[0]
    kind = rng.choice(["inside", "equal", "contain", "face", "face", "face", "face", "edge"])
    lo, hi = list(blo), list(bhi)
    if kind == "inside":
        lo, hi = [list(t) for t in gen.sub_box(rng, blo, bhi, shrink=(0.2, 0.9))]
    elif kind == "contain":
        for i in range(3):
            lo[i] -= rng.uniform(0.1, 1.0); hi[i] += rng.uniform(0.1, 1.0)
    elif kind in ("face", "edge"):
        lo, hi = [list(t) for t in gen.sub_box(rng, blo, bhi, shrink=(0.3, 0.9))]
        for ax in rng.sample(range(3), 1 if kind == "face" else 2):
            w = max(bhi[ax] - blo[ax], 0.25)
            if rng.random() < 0.5:
                hi[ax] = bhi[ax] + rng.uniform(0.25, 1.5) * w      # lower bound stays inside, upper leaves
            else:
                lo[ax] = blo[ax] - rng.uniform(0.25, 1.5) * w
    lo = [gen.f32(v) for v in lo]; hi = [gen.f32(v) for v in hi]
    pts = [gen.rand_point(rng, tuple(lo), tuple(hi)) for _ in range(4)]
    pts += [tuple(rng.choice([lo[i], hi[i]]) for i in range(3)) for _ in range(3)]
    pts += [tuple(hi), tuple(lo)]
    return "baser %s %s %d %s" % (gen.pt_hex(tuple(lo)), gen.pt_hex(tuple(hi)), len(pts), " ".join(gen.pt_hex(q) for q in pts))


def gen_cases(rng, n, tier):
    lines, meta = [], []
    for k in range(n):
        style = rng.choice(["csg", "csg", "mixed", "trans"])
        if style == "csg":
            opts = dict(size=rng.randint(4, 18), p_minmax=0.45)
        elif style == "mixed":
            opts = dict(size=rng.randint(6, 24), p_minmax=0.3, binary=gen.BINARY_EXACT + ["mod", "compare", "nanfill"],
                        nvars=rng.choice([0, 1, 2]))
        else:
            opts = dict(size=rng.randint(6, 20), p_minmax=0.35, unary=gen.UNARY_EXACT + gen.UNARY_TRANS,
                        binary=gen.BINARY_EXACT + ["atan2", "pow", "nth-root"], nvars=rng.choice([0, 1]))
        if rng.random() < 0.2:
            opts["remap"] = 0.1
        g = gen.TreeGen(rng, **opts)
        root = g.build()
        lines.append("case %d" % k)
        lines += g.lines
        for v in g.vars:
            lines.append("varval %d %s" % (v, gen.f2hex(gen.f32(rng.uniform(-2, 2)))))
        lines.append("root %d" % root)
        lo, hi = (-4.0, -4.0, -4.0), (4.0, 4.0, 4.0)
        boxes = [(lo, hi)]
        depth = rng.randint(1, 5)
        nsteps = 0
        for d in range(depth):
            lo, hi = gen.sub_box(rng, *boxes[-1], shrink=(0.15, 0.8)) if rng.random() < 0.9 else boxes[-1]
            if rng.random() < 0.1:   # degenerate box on one axis
                ax = rng.randrange(3)
                hi = tuple(lo[i] if i == ax else hi[i] for i in range(3))
            boxes.append((lo, hi))
            lines.append("ipush %s %s" % (gen.pt_hex(lo), gen.pt_hex(hi)))
            nsteps += 1
            for _ in range(rng.randint(1, 4)):
                lines.append("val %s" % gen.pt_hex(gen.rand_point(rng, lo, hi)))
            # corners
            c = tuple(rng.choice([lo[i], hi[i]]) for i in range(3))
            lines.append("val %s" % gen.pt_hex(c))
            if rng.random() < 0.5:
                lines.append("base %s" % gen.pt_hex(gen.rand_point(rng, (-4, -4, -4), (4, 4, 4))))
            if rng.random() < 0.6:
                lines.append(region_query(rng, boxes))
        if rng.random() < 0.7:
            p = gen.rand_point(rng, *boxes[-1], lattice=0.6)
            lines.append("ppush %s" % gen.pt_hex(p))
            lines.append("val %s" % gen.pt_hex(p))
            nsteps += 1
            for _ in range(2):
                lines.append("base %s" % gen.pt_hex(gen.rand_point(rng, (-4, -4, -4), (4, 4, 4))))
            lines.append(region_query(rng, boxes))
            lines.append("pop")
        # walk back out, re-checking the outer levels (scratch reuse / spares recycling)
        while len(boxes) > 1:
            lo, hi = boxes[-1]
            lines.append("val %s" % gen.pt_hex(gen.rand_point(rng, lo, hi)))
            if rng.random() < 0.3 and len(boxes) > 2:
                # push again into a different sub box at this level
                lo2, hi2 = gen.sub_box(rng, lo, hi)
                lines.append("ipush %s %s" % (gen.pt_hex(lo2), gen.pt_hex(hi2)))
                lines.append("val %s" % gen.pt_hex(gen.rand_point(rng, lo2, hi2)))
                lines.append("pop")
            lines.append("pop")
            boxes.pop()
        lines.append("end")
        meta.append({"style": style, "nodes": g.next, "hist": g.hist, "depth": depth})
    return lines, meta


def case_slices(lines):
    """split a line list into {case id: [lines]}"""
    out, cur, key = {}, None, None
    for ln in lines:
        if ln.startswith("case "):
            key = ln.split()[1]
            cur = out.setdefault(key, [])
        if cur is not None:
            cur.append(ln)
    return out


def run(rep, tier, seed, replay=None):
    import random
    rng = random.Random(seed * 7919 + 5)
    aud = common.audit("C05")
    exe = common.build_harness("tapepush")
    n = 300 if tier == "quick" else 6000
    prog, meta = gen_cases(rng, n, tier)
    # corpus of minimised past failures first
    corpus_dir = os.path.join(common.VERIF, "corpus", "C05")
    corpus = []
    if os.path.isdir(corpus_dir):
        for f in sorted(os.listdir(corpus_dir)):
            corpus += [l.rstrip("\n") for l in open(os.path.join(corpus_dir, f))]
    work = os.path.join(common.BUILD, "work")
    os.makedirs(work, exist_ok=True)
    pf = os.path.join(work, "c05-%d-%s.prog" % (seed, tier))
    with open(pf, "w") as f:
        f.write("\n".join(corpus + prog) + "\n")
    r = common.run_harness(exe, [pf], timeout=3000)
    in_cases = case_slices(corpus + prog)
    if r.returncode != 0:
        rep.violation("tapepush harness crashed rc=%d: %s" % (r.returncode, r.stderr[-800:]),
                      {"kind": "harness-crash", "program": pf, "stderr": r.stderr[-4000:]})
        return rep.finish("proof", common.proof_coverage(aud, {"evaluations": 0}), ASSUMPTIONS)
    out_lines = r.stdout.splitlines()
    verdicts = common.run_driver("c05", r.stdout).splitlines()

    # ---- property oracle on the real code: bit identity of specialised vs full evaluation
    stats = {"val": 0, "val_nan_skipped": 0, "base": 0, "pushes_interval": 0, "pushes_point": 0,
             "pushes_changed": 0, "tapes_shortened_to_leaf": 0}
    oracle_fail = {}
    quirk_fail = {}
    case = None
    for ln in out_lines:
        w = ln.split()
        if not w:
            continue
        if w[0] == "case":
            case = w[1]
        elif w[0] == "val":
            if w[7] == "1":
                stats["val_nan_skipped"] += 1
                continue
            stats["val"] += 1
            if w[4] != w[5]:
                if len(w) > 9 and w[8] == "q" and w[9] == "1":
                    quirk_fail.setdefault(case, []).append(ln)
                else:
                    oracle_fail.setdefault(case, []).append(ln)
        elif w[0] == "base-at":
            if w[-1] == "1":
                continue
            stats["base"] += 1
            if w[8] != w[9]:
                if "q" in w and w[w.index("q") + 1] == "1":
                    quirk_fail.setdefault(case, []).append(ln)
                else:
                    oracle_fail.setdefault(case, []).append(ln)
        elif w[0] == "base-region":
            n = int(w[w.index("pts") + 1])
            k0 = w.index("pts") + 2
            for j in range(n):
                via, base, nan = w[k0 + 3 * j: k0 + 3 * j + 3]
                if nan == "1":
                    continue
                stats["base_region_pts"] = stats.get("base_region_pts", 0) + 1
                if via != base:
                    oracle_fail.setdefault(case, []).append("getBase(region) tape disagrees at sample %d: %s" % (j, " ".join(w[:12])))
        elif w[0] == "ipush":
            stats["pushes_interval"] += 1
            if w[-1] == "0":
                stats["pushes_changed"] += 1
        elif w[0] == "ppush":
            stats["pushes_point"] += 1
            if w[-1] == "0":
                stats["pushes_changed"] += 1
        elif w[0] == "pushed" and w[4] == "0":
            stats["tapes_shortened_to_leaf"] += 1
    for case, fails in quirk_fail.items():
        rep.violation("specialised tape disagrees with the full expression at a point where the base evaluation hits a "
                      "recorded Eigen kernel quirk: %s" % fails[0],
                      {"kind": "oracle", "case": case, "program": in_cases.get(case), "observed": fails[:5],
                       "how": "write program lines to a file and run .build/plain/harness/tapepush <file>"},
                      key="C05:eigen-point-kernel-quirk-at-overflow")
    for case, fails in oracle_fail.items():
        rep.violation("specialised tape disagrees with the full expression: %s" % fails[0],
                      {"kind": "oracle", "case": case, "program": in_cases.get(case), "observed": fails[:5],
                       "how": "write program lines to a file and run .build/plain/harness/tapepush <file>"},
                      key=None)
    # ---- correspondence verdicts
    mism = [v for v in verdicts if v.startswith("MISMATCH")]
    oks = sum(1 for v in verdicts if v.startswith("ok"))
    skips = sum(1 for v in verdicts if v.startswith("skip"))
    reported = set(oracle_fail)
    for m in mism[:20]:
        w = m.split()
        case = w[w.index("case") + 1] if "case" in w else "?"
        if case in reported:
            continue
        reported.add(case)
        rep.violation("model/implementation correspondence broken (stream C05.push): %s" % m[:300],
                      {"kind": "correspondence", "stream": "C05.push (LibfiveModel/Tape.lean: TapeM.push, evalList, getBase)",
                       "case": case, "program": in_cases.get(case), "verdict": m,
                       "theorems_affected": ["Libfive.C05.push_sound", "Libfive.C05.getBase_sound"]},
                      no_input=True)
    if not aud["ok"]:
        common.report_broken_proof(rep, aud)
    distinct = len({tuple(c[1:]) for c in in_cases.values()})
    cov = common.proof_coverage(aud, {
        "evaluations": len(in_cases), "distinct_nontrivial": min(distinct, stats["pushes_changed"]),
        "rule": "random expression DAGs (CSG-heavy / mixed / transcendental) with nested shrinking boxes, point pushes on ties, "
                "pops and re-pushes; non-trivial = a push that actually changed the tape",
        "correspondence": {"verdicts_ok": oks, "mismatch": len(mism), "skipped": skips, **stats},
        "distribution": {"styles": {s: sum(1 for m in meta if m["style"] == s) for s in ("csg", "mixed", "trans")},
                         "mean_nodes": sum(m["nodes"] for m in meta) / max(1, len(meta))},
        "samples": [in_cases[k] for k in list(in_cases)[:2]],
    })
    return rep.finish("proof", cov, ASSUMPTIONS)
