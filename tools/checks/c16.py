"""C16 — black-box oracles behave exactly like the expressions they wrap."""
import math
import os
import common
import gen

ASSUMPTIONS = [
    "Theorems are about the Lean model of TransformedOracle / remap on oracle nodes / the bind-push-unbind protocol "
    "(LibfiveModel/Oracle.lean), for every expression, coordinate map, point, box and call sequence; the scalar is abstract "
    "(commutative ring for the chain rule), so float rounding is outside the theorems.",
    "Black-box user oracles are represented by the harness' WrapOracle (delegates to the real evaluators of the wrapped tree); "
    "the soundness of a user oracle's own interval / push answers is a hypothesis of the theorems.",
    "Tie: wrapped-oracle trees vs the plain remapped expression on generated inputs (values, intervals, gradients, features, "
    "nested pushes, meshes); numeric agreement is judged against a long-double reference with a running error bound "
    "(factor 8), comparisons whose bound is infinite (mod, compare, atan2, domain edges) are skipped and counted.",
    "Context replay covers the oracle instances on the main path (deck oracle and the oracle under a TransformedOracle); "
    "instances inside the coordinate evaluators are only checked to be unbound after every call.",
    "At exact min/max ties only non-emptiness of the oracle tree's feature list is judged (the two trees legitimately "
    "report different sets there, see the comment in Judge.feat); at smooth points every feature must equal the reference gradient.",
    "Gradients and features are not compared at points where a coordinate map of a remap above the oracle is itself "
    "undefined (NaN / inf): the composition is undefined there (the oracle's chain rule yields 0*NaN, the flattened plain "
    "tree drops an unused coordinate); values are still compared.",
    "transformed_interval_sound_flagged covers coordinate ranges flagged maybe-NaN (the code as repaired by dde738c); "
    "transformed_interval_old_unsound is the kernel-checked witness against the previous behaviour.",
]

K = 8.0
SIZES_EDGE = [1, 2, 15, 16, 17, 31, 32, 33, 64, 128, 255, 256]

STYLES = {
    "csg": dict(unary=["neg", "abs", "square"], binary=["add", "sub", "mul", "min", "max"], p_minmax=0.4, consts="nice"),
    "exact": dict(unary=gen.UNARY_EXACT, binary=gen.BINARY_EXACT, p_minmax=0.3),
    "trans": dict(unary=gen.UNARY_EXACT + gen.UNARY_TRANS, binary=gen.BINARY_EXACT + ["pow", "nth-root"], p_minmax=0.25),
    "mixed": dict(unary=gen.UNARY_EXACT, binary=gen.BINARY_EXACT + ["mod", "compare", "nanfill", "atan2"], p_minmax=0.3),
}
AFF_A = [0.5, 1.0, 2.0, -1.0, 1.5, 0.25, -0.5]
AFF_B = [0.0, 0.0, 0.5, -0.5, 1.0, -1.0, 0.25]


def affine(g, rng, axis=None):
    ax = axis if axis is not None else rng.randrange(3)
    a, b = rng.choice(AFF_A), rng.choice(AFF_B)
    node = ax
    if a != 1.0:
        node = g._emit(("bin", "mul", node, g.const(a)))
    if b != 0.0:
        node = g._emit(("bin", "add", node, g.const(b)))
    return node


def coord(g, rng, node, w, axis, flavour):
    """one coordinate expression of a remap above the oracle-containing `node`"""
    u = rng.random()
    if flavour == "affine":
        return affine(g, rng, axis if rng.random() < 0.7 else None)
    if u < 0.35:
        return affine(g, rng, axis if rng.random() < 0.6 else None)
    if u < 0.45:
        return rng.randrange(3)                      # another axis (swap / duplicate)
    if u < 0.55:
        return g.const()                             # remap to a constant
    if u < 0.8:
        return g.pick_nonconst()                     # any earlier node (may lie inside the wrapped expression)
    # a coordinate that mentions the oracle again
    inner = rng.choice([w, node])
    return g._emit(("bin", rng.choice(["add", "sub", "mul"]), axis, g._emit(("bin", "mul", inner, g.const(0.5)))))


def build_tree(rng, style, flavour="any", inner_size=None, outer_size=None, depth=None):
    opts = dict(STYLES[style])
    g = gen.TreeGen(rng, size=inner_size if inner_size is not None else rng.randint(2, 8), **opts)
    e = g.build()
    w = g._emit(("wrap", e))
    node = w
    depth = depth if depth is not None else rng.choice([0, 1, 1, 1, 2, 2, 3])
    chain = []
    for _ in range(depth):
        X, Y, Z = (coord(g, rng, node, w, ax, flavour) for ax in range(3))
        node = g._emit(("remap", node, X, Y, Z))
        chain.append((X, Y, Z))
        # staged chains: materialise the remap (flatten / optimized turn the oracle into a TransformedOracleClause)
        # before the next one is applied, so that TransformedOracleClause::remap composes the two maps itself
        if rng.random() < 0.35:
            node = g._emit((rng.choice(["flat", "opt"]), node))
    g.pool += [node, node, w]
    g.o["size"] = outer_size if outer_size is not None else rng.randint(1, 8)
    if flavour == "any" and rng.random() < 0.4:
        g.o["remap"] = 0.15                          # remaps above arbitrary (oracle-containing) nodes
    last = None
    for _ in range(g.o["size"]):
        last = g.step()
    op = rng.choice(["min", "max", "add", "sub", "mul"] if style != "csg" else ["min", "max", "add"])
    root = g._emit(("bin", op, last, node)) if last is not None and last != node else node
    return g, e, w, node, root, chain


def box_in(rng, lo=(-2.0, -2.0, -2.0), hi=(2.0, 2.0, 2.0)):
    return gen.sub_box(rng, lo, hi, shrink=(0.05, 0.7))


def gen_embed(rng, k, nvals):
    style = rng.choice(["csg", "csg", "exact", "exact", "trans", "mixed"])
    g, e, w, node, root, chain = build_tree(rng, style)
    L = ["case %d" % k] + g.lines + ["root %d" % root]
    R = ((-2.0, -2.0, -2.0), (2.0, 2.0, 2.0))
    lat = 0.8 if style == "csg" else 0.3
    for _ in range(2):
        L.append("val %s" % gen.pt_hex(gen.rand_point(rng, *R, lattice=lat)))
    L.append("vals %d %s" % (nvals, " ".join(gen.pt_hex(gen.rand_point(rng, *R, lattice=lat)) for _ in range(nvals))))
    for _ in range(2):
        lo, hi = box_in(rng)
        if rng.random() < 0.15:
            ax = rng.randrange(3)
            hi = tuple(lo[i] if i == ax else hi[i] for i in range(3))
        pts = [gen.rand_point(rng, lo, hi, lattice=0.2) for _ in range(5)]
        pts.append(tuple(rng.choice([lo[i], hi[i]]) for i in range(3)))
        L.append("ivl %s %s %d %s" % (gen.pt_hex(lo), gen.pt_hex(hi), len(pts), " ".join(gen.pt_hex(p) for p in pts)))
    ng = rng.choice([1, 3, 16, 17, 40])
    L.append("grad %d %s" % (ng, " ".join(gen.pt_hex(gen.rand_point(rng, *R, lattice=lat)) for _ in range(ng))))
    for _ in range(2):
        L.append("feat %s" % gen.pt_hex(gen.rand_point(rng, *R, lattice=1.0 if style == "csg" else 0.5)))
    # nested specialisation
    boxes = [R]
    for d in range(rng.randint(1, 3)):
        lo, hi = gen.sub_box(rng, *boxes[-1], shrink=(0.15, 0.8))
        boxes.append((lo, hi))
        L.append("ipush %s %s" % (gen.pt_hex(lo), gen.pt_hex(hi)))
        for _ in range(rng.randint(1, 3)):
            L.append("val %s" % gen.pt_hex(gen.rand_point(rng, lo, hi, lattice=lat)))
        if rng.random() < 0.4:
            m = rng.choice([1, 5, 16, 33])
            L.append("vals %d %s" % (m, " ".join(gen.pt_hex(gen.rand_point(rng, lo, hi, lattice=lat)) for _ in range(m))))
        if rng.random() < 0.4:
            L.append("grad 2 %s" % " ".join(gen.pt_hex(gen.rand_point(rng, lo, hi, lattice=lat)) for _ in range(2)))
        if rng.random() < 0.4:
            L.append("feat %s" % gen.pt_hex(gen.rand_point(rng, lo, hi, lattice=lat)))
    if rng.random() < 0.7:
        p = gen.rand_point(rng, *boxes[-1], lattice=0.6)
        L.append("ppush %s" % gen.pt_hex(p))
        L.append("val %s" % gen.pt_hex(p))
        if rng.random() < 0.5:
            L.append("feat %s" % gen.pt_hex(p))
        L.append("pop")
    while len(boxes) > 1:
        lo, hi = boxes[-1]
        L.append("val %s" % gen.pt_hex(gen.rand_point(rng, lo, hi, lattice=lat)))
        if rng.random() < 0.3:
            lo2, hi2 = gen.sub_box(rng, lo, hi)
            L.append("ipush %s %s" % (gen.pt_hex(lo2), gen.pt_hex(hi2)))
            L.append("val %s" % gen.pt_hex(gen.rand_point(rng, lo2, hi2, lattice=lat)))
            L.append("pop")
        L.append("pop")
        boxes.pop()
    L.append("end")
    return L, {"kind": "embed", "style": style, "nodes": g.next, "hist": g.hist, "depth": len(chain)}


def gen_jac(rng, k):
    """oracle.remap(X,Y,Z) with exact (dyadic) ingredients: the Lean driver recomputes J*grad"""
    style = rng.choice(["csg", "exact"])
    opts = dict(STYLES[style])
    g = gen.TreeGen(rng, size=rng.randint(2, 7), **opts)
    e = g.build()
    w = g._emit(("wrap", e))
    coords = []
    for ax in range(3):
        u = rng.random()
        if u < 0.5:
            coords.append(affine(g, rng, ax if rng.random() < 0.6 else None))
        elif u < 0.8:
            a, b = rng.randrange(3), rng.randrange(3)
            coords.append(g._emit(("bin", rng.choice(["mul", "add", "sub", "max"]), a, affine(g, rng, b))))
        else:
            coords.append(g._emit(("un", rng.choice(["square", "abs", "neg"]), affine(g, rng))))
    n = rng.randint(1, 6)
    pts = [gen.rand_point(rng, (-2, -2, -2), (2, 2, 2), lattice=0.7) for _ in range(n)]
    L = ["case %d" % k] + g.lines
    L.append("jac %d %d %d %d %d %s" % (w, coords[0], coords[1], coords[2], n, " ".join(gen.pt_hex(p) for p in pts)))
    L.append("end")
    return L, {"kind": "jac", "style": style, "nodes": g.next, "hist": g.hist, "depth": 1}


def gen_var(rng, k):
    """a coordinate map that mentions a free variable of the enclosing expression"""
    g = gen.TreeGen(rng, size=rng.randint(2, 5), **STYLES["csg"])
    e = g.build()
    w = g._emit(("wrap", e))
    v = g._emit(("var",))
    g.vars.append(v)
    ax = rng.randrange(3)
    c = [0, 1, 2]
    c[ax] = g._emit(("bin", "add", ax, v))
    node = g._emit(("remap", w, c[0], c[1], c[2]))
    L = ["case %d" % k] + g.lines + ["varval %d %s" % (v, gen.f2hex(rng.choice([0.5, 1.0, -0.75, 2.0])))]
    L.append("root %d" % node)
    for _ in range(3):
        L.append("val %s" % gen.pt_hex(gen.rand_point(rng, (-2, -2, -2), (2, 2, 2))))
    L.append("end")
    return L, {"kind": "var", "style": "csg", "nodes": g.next, "hist": g.hist, "depth": 1}


def gen_nan(rng, k):
    """a coordinate map that is NaN on part of the box (sqrt / log of a sign-changing argument)"""
    g = gen.TreeGen(rng, size=rng.randint(1, 4), **STYLES["csg"])
    e = g.build()
    w = g._emit(("wrap", e))
    ax = rng.randrange(3)
    c = [0, 1, 2]
    c[ax] = g._emit(("un", rng.choice(["sqrt", "log"]), affine(g, rng, ax)))
    node = g._emit(("remap", w, c[0], c[1], c[2]))
    L = ["case %d" % k] + g.lines + ["root %d" % node]
    for _ in range(2):
        lo, hi = gen.sub_box(rng, (-2, -2, -2), (2, 2, 2), shrink=(0.5, 0.9))
        pts = [gen.rand_point(rng, lo, hi, lattice=0.0) for _ in range(8)]
        L.append("ivl %s %s %d %s" % (gen.pt_hex(lo), gen.pt_hex(hi), len(pts), " ".join(gen.pt_hex(p) for p in pts)))
    L.append("end")
    return L, {"kind": "nan", "style": "csg", "nodes": g.next, "hist": g.hist, "depth": 1}


def gen_solid(rng, k):
    """a bounded solid with an oracle inside: primitives (spheres, boxes) wrapped, moved by affine remaps,
    combined with a plain primitive, clipped to a box well inside the render region"""
    g = gen.TreeGen(rng, size=0)
    X, Y, Z = 0, 1, 2

    def c(v):
        return g.const(float(v))

    def sphere(r, cx=0.0, cy=0.0, cz=0.0):
        def sq(ax, o):
            return g._emit(("un", "square", g._emit(("bin", "sub", ax, c(o))) if o else ax))
        s = g._emit(("bin", "add", g._emit(("bin", "add", sq(X, cx), sq(Y, cy))), sq(Z, cz)))
        return g._emit(("bin", "sub", g._emit(("un", "sqrt", s)), c(r)))

    def box(a, b, cc):
        def side(ax, h):
            return g._emit(("bin", "sub", g._emit(("un", "abs", ax)), c(h)))
        return g._emit(("bin", "max", g._emit(("bin", "max", side(X, a), side(Y, b))), side(Z, cc)))

    nprim = [0]

    def prim():
        # every primitive gets its own (dyadic) size offset: two boxes never share a face plane, so a difference
        # never leaves a zero-thickness sheet (a field that is exactly 0 on a set with interior is not a solid's
        # boundary; the DC mesher crashes on such an oracle tree in DCTree::intersection, see DESIGN 12.3)
        n = nprim[0]
        nprim[0] += 1
        if rng.random() < 0.5:
            return sphere(rng.choice([0.5, 0.75, 1.0]) + 0.046875 * n, rng.choice([0, 0.25, -0.25]), rng.choice([0, 0.25]), 0.0)
        return box(rng.choice([0.5, 0.75, 1.0]) + 0.046875 * n, rng.choice([0.5, 0.75]) + 0.03125 * n,
                   rng.choice([0.5, 1.0]) + 0.0234375 * n)

    e = prim()
    for _ in range(rng.randint(0, 2)):
        q = prim()
        op = rng.choice(["min", "max", "diff"])
        e = g._emit(("bin", "max", e, g._emit(("un", "neg", q)))) if op == "diff" else g._emit(("bin", op, e, q))
    node = g._emit(("wrap", e))
    for _ in range(rng.choice([1, 1, 2])):
        cs = []
        perm = [0, 1, 2]
        if rng.random() < 0.3:
            rng.shuffle(perm)
        for ax in range(3):
            a = rng.choice([1.0, 1.0, 0.75, 1.25, 1.5, -1.0])
            b = rng.choice([0.0, 0.0, 0.25, -0.25, 0.375])
            n2 = perm[ax]
            if a != 1.0:
                n2 = g._emit(("bin", "mul", n2, c(a)))
            if b != 0.0:
                n2 = g._emit(("bin", "add", n2, c(b)))
            if rng.random() < 0.15:       # a little shear
                n2 = g._emit(("bin", "add", n2, g._emit(("bin", "mul", perm[(ax + 1) % 3], c(0.25)))))
            cs.append(n2)
        node = g._emit(("remap", node, cs[0], cs[1], cs[2]))
    if rng.random() < 0.6:
        q = prim()
        op = rng.choice(["min", "max", "diff"])
        node = g._emit(("bin", "max", node, g._emit(("un", "neg", q)))) if op == "diff" else g._emit(("bin", op, node, q))
    root = g._emit(("bin", "max", node, box(1.6, 1.6, 1.6)))
    L = ["case %d" % k] + g.lines + ["root %d" % root]
    L.append("mesh %s %s %d" % (gen.f2hex(2.0), gen.f2hex(rng.choice([0.25, 0.2, 0.5])), 0))
    L.append("end")
    return L, {"kind": "solid", "style": "solid", "nodes": g.next, "hist": g.hist, "depth": 1}


def case_slices(lines):
    out, cur = {}, None
    for ln in lines:
        if ln.startswith("case "):
            cur = out.setdefault(ln.split()[1], [])
        if cur is not None:
            cur.append(ln)
    return out


def fl(h):
    return gen.hex2f(h)


def fin(x):
    return not (math.isnan(x) or math.isinf(x))


def agree(oh, ph, refv, refe):
    """'ok' | 'skip' | 'bad' : do the oracle tree and the plain tree agree, given the reference bound"""
    if math.isnan(refv) or math.isnan(refe) or math.isinf(refe):
        return "skip"
    o, p = fl(oh), fl(ph)
    if not fin(o) or not fin(p):
        return "ok" if (oh == ph or (math.isnan(o) and math.isnan(p))) else "bad"
    return "ok" if abs(o - p) <= 2 * K * refe + 1e-37 else "bad"


def near(xh, refv, refe):
    if math.isnan(refv) or math.isnan(refe) or math.isinf(refe):
        return "skip"
    x = fl(xh)
    if not fin(x):
        return "bad"
    return "ok" if abs(x - refv) <= K * refe + 1e-37 else "bad"


class Judge:
    def __init__(self):
        self.fail = {}        # (case, key) -> [descriptions]
        self.st = {k: 0 for k in (
            "values", "values_skipped", "values_exact", "batch_sizes", "intervals", "interval_samples",
            "interval_samples_skipped", "interval_shared_with_plain", "nan_samples", "grads", "grads_skipped",
            "grads_ambiguous", "feats", "feats_ambiguous", "feats_skipped_budget", "feats_tie_sets_incomparable", "pushes", "pushed_values", "pushed_values_nan",
            "pushed_interval_samples", "meshes", "mesh_tris_o", "mesh_tris_p", "plain_off_reference", "revals", "revals_inherited_gradient")}
        self.sizes = set()
        self.width_ratios = []
        self.mesh_rows = []

    def bad(self, case, key, what):
        self.fail.setdefault((case, key), []).append(what)

    def feed(self, out_lines):
        case = None
        box = []        # stack of (lo, hi, olo, ohi, safe) of the pushed regions
        for ln in out_lines:
            w = ln.split()
            if not w:
                continue
            if w[0] == "case":
                case, box = w[1], []
            elif w[0] == "val":
                cur, base, p, rv, re = w[4], w[5], w[6], float(w[7]), float(w[8])
                self.value(case, ln, cur, base, p, rv, re, box)
            elif w[0] == "vals":
                n = int(w[1])
                self.sizes.add(n)
                for k in range(n):
                    cur, base, p, rv, re = w[2 + 5 * k: 7 + 5 * k]
                    self.value(case, "vals slot %d of %d: %s" % (k, n, " ".join(w[2 + 5 * k: 7 + 5 * k])),
                               cur, base, p, float(rv), float(re), box)
            elif w[0] == "ivl":
                self.interval(case, w)
            elif w[0] == "grad":
                n = int(w[1])
                for k in range(n):
                    self.grad(case, w[2 + 17 * k: 19 + 17 * k], k, n)
            elif w[0] == "reval":
                n = int(w[1])
                self.st["revals"] += n
                self.st["revals_inherited_gradient"] += n if w[2] == "1" else 0
                for k in range(n):
                    o, p, rv, re = w[3 + 4 * k: 7 + 4 * k]
                    self.st["values"] -= 1      # counted under revals
                    self.value(case, "batch re-evaluated after a gradient query without set(), slot %d of %d: %s"
                               % (k, n, " ".join(w[3 + 4 * k: 7 + 4 * k])), o, o, p, float(rv), float(re), [])
            elif w[0] == "feat":
                self.feat(case, w)
            elif w[0] == "featskip":
                self.st["feats_skipped_budget"] += 1
            elif w[0] == "ipush":
                self.st["pushes"] += 1
                pres = w[w.index("pres") + 1: w.index("pres") + 4] if "pres" in w else None
                box.append((w[7 + 1], w[7 + 2], w[7 + 3], pres))     # res lo hi safe, plain tree's lo hi safe
            elif w[0] == "ppush":
                self.st["pushes"] += 1
                box.append(None)
            elif w[0] == "tr" and w[1] == "pop":
                if box:
                    box.pop()
            elif w[0] == "mesh":
                self.mesh(case, w)

    def value(self, case, ln, cur, base, p, rv, re, box):
        self.st["values"] += 1
        # 1. specialisation: bit-identical to the unspecialised oracle tree
        if box:
            self.st["pushed_values"] += 1
            c, b = fl(cur), fl(base)
            if math.isnan(c) and math.isnan(b):
                self.st["pushed_values_nan"] += 1
            elif math.isnan(rv):
                # some sub-expression is NaN at this point: outside C05's / C16's quantifier (min/max with a NaN
                # operand depend on operand order); counted, not judged
                self.st["pushed_values_nan"] += 1
            elif cur != base and not (c == b):
                self.bad(case, "push-changes-oracle-value", "value through the specialised tape %s != base tape %s : %s" % (cur, base, ln))
            # the interval the push was made with must enclose it
            for bx in box:
                if bx is None:
                    continue
                lo, hi, safe = fl(bx[0]), fl(bx[1]), bx[2] == "1"
                if math.isinf(re) or math.isnan(re) or math.isnan(rv):
                    continue
                self.st["pushed_interval_samples"] += 1
                pres = bx[3]
                if math.isnan(c):
                    if safe and fin(lo) and fin(hi):
                        if pres is not None and pres[2] == "1" and math.isnan(fl(p)):
                            self.st["interval_shared_with_plain"] += 1       # the plain tree misses it too: C02's business
                        else:
                            # plain tree flags the box, the oracle tree does not: flag lost in TransformedOracle::evalInterval
                            self.bad(case, "interval-nan", "NaN value inside a pushed box whose oracle-tree interval [%s,%s] was NaN-free "
                                     "(plain tree on the same box: %s): %s" % (bx[0], bx[1], pres, ln))
                elif not (lo - K * re <= c <= hi + K * re) and fin(lo) and fin(hi):
                    pv = fl(p)
                    if pres is not None and fin(fl(pres[0])) and fin(fl(pres[1])) and not math.isnan(pv) and \
                            not (fl(pres[0]) - K * re <= pv <= fl(pres[1]) + K * re):
                        self.st["interval_shared_with_plain"] += 1
                    else:
                        self.bad(case, "pushed-interval-unsound", "value %s outside the interval [%s,%s] of the pushed box: %s" % (cur, bx[0], bx[1], ln))
        # 2. oracle tree vs plain tree
        a = agree(base, p, rv, re)
        if a == "skip":
            self.st["values_skipped"] += 1
        else:
            if base == p:
                self.st["values_exact"] += 1
            if a == "bad":
                if near(p, rv, re) == "bad" and near(base, rv, re) == "ok":
                    self.st["plain_off_reference"] += 1        # the plain tree is off, not the oracle: C01's business
                else:
                    self.bad(case, "value", "oracle tree %s vs plain tree %s (reference %r +- %r): %s" % (base, p, rv, re, ln))

    def interval(self, case, w):
        olo, ohi, osafe, plo, phi, psafe = w[7], w[8], w[9] == "1", w[10], w[11], w[12] == "1"
        n = int(w[13])
        self.st["intervals"] += 1
        lo, hi, pl, ph = fl(olo), fl(ohi), fl(plo), fl(phi)
        if fin(lo) and fin(hi) and fin(pl) and fin(ph) and ph > pl:
            self.width_ratios.append((hi - lo) / (ph - pl))
        for k in range(n):
            ov, pv, rv, re = w[14 + 4 * k: 18 + 4 * k]
            o, p, rv, re = fl(ov), fl(pv), float(rv), float(re)
            self.st["interval_samples"] += 1
            if math.isnan(o):
                self.st["nan_samples"] += 1
                flagged = (not osafe) or math.isnan(lo) or math.isnan(hi)
                pflagged = (not psafe) or math.isnan(pl) or math.isnan(ph)
                if not flagged:
                    if math.isnan(p) and not pflagged:
                        self.st["interval_shared_with_plain"] += 1
                    else:
                        self.bad(case, "interval-nan", "oracle tree is NaN at a sample but its interval [%s,%s] is flagged NaN-free "
                                 "(plain: [%s,%s] safe=%d): %s" % (olo, ohi, plo, phi, psafe, " ".join(w[:14])))
                continue
            if math.isnan(rv) or math.isnan(re) or math.isinf(re):
                self.st["interval_samples_skipped"] += 1
                continue
            if math.isnan(lo) or math.isnan(hi):
                continue                                        # NaN interval encloses everything
            if not (lo - K * re <= o <= hi + K * re):
                if not math.isnan(p) and fin(pl) and fin(ph) and not (pl - K * re <= p <= ph + K * re):
                    self.st["interval_shared_with_plain"] += 1   # same miss without the oracle: C02's business
                else:
                    self.bad(case, "interval-unsound", "oracle tree value %s outside its interval [%s,%s] (plain [%s,%s]): %s"
                             % (ov, olo, ohi, plo, phi, " ".join(w[:14])))

    def grad(self, case, t, k, n):
        og, ov, pg, pv = t[0:3], t[3], t[4:7], t[7]
        amb = t[8] == "1"
        rv, re = float(t[9]), float(t[10])
        self.st["grads"] += 1
        if amb:
            self.st["grads_ambiguous"] += 1
            return
        res = [agree(og[i], pg[i], float(t[11 + 2 * i]), float(t[12 + 2 * i])) for i in range(3)]
        if "skip" in res or agree(ov, pv, rv, re) == "skip":
            self.st["grads_skipped"] += 1
            return
        if "bad" in res:
            offp = [near(pg[i], float(t[11 + 2 * i]), float(t[12 + 2 * i])) for i in range(3)]
            offo = [near(og[i], float(t[11 + 2 * i]), float(t[12 + 2 * i])) for i in range(3)]
            if "bad" in offp and "bad" not in offo:
                self.st["plain_off_reference"] += 1
            else:
                self.bad(case, "gradient", "slot %d of %d: oracle tree grad %s vs plain tree grad %s, reference %s"
                         % (k, n, " ".join(og), " ".join(pg), " ".join(t[11:17])))

    def feat(self, case, w):
        amb = w[4] == "1"
        ref = [(float(w[7 + 2 * i]), float(w[8 + 2 * i])) for i in range(3)]
        io = w.index("o")
        no = int(w[io + 1])
        fo = [tuple(w[io + 2 + 3 * j: io + 5 + 3 * j]) for j in range(no)]
        ip = io + 2 + 3 * no
        npl = int(w[ip + 1])
        fp = [tuple(w[ip + 2 + 3 * j: ip + 5 + 3 * j]) for j in range(npl)]
        self.st["feats"] += 1
        if any(math.isinf(e) or math.isnan(e) or math.isnan(v) for v, e in ref) or math.isinf(float(w[6])):
            return
        tol = [2 * K * e + 1e-30 for _, e in ref]

        def close(a, b):
            return all(a[i] == b[i] or abs(fl(a[i]) - fl(b[i])) <= tol[i] for i in range(3))

        def sub(A, B):
            return all(any(close(a, b) for b in B) for a in A)
        if not amb:
            want = tuple(v for v, _ in ref)
            for name, F in (("oracle", fo), ("plain", fp)):
                okk = len(F) >= 1 and all(all(abs(fl(f[i]) - want[i]) <= K * ref[i][1] + 1e-30 for i in range(3)) for f in F)
                if not okk and name == "oracle":
                    if sub(fo, fp) and sub(fp, fo):
                        self.st["plain_off_reference"] += 1
                    else:
                        self.bad(case, "features", "smooth point: oracle tree features %s, plain %s, reference gradient %s: %s"
                                 % (fo, fp, want, " ".join(w[:4])))
            return
        self.st["feats_ambiguous"] += 1
        if no == 0 and npl > 0:
            self.bad(case, "features-empty", "oracle tree has no feature at a tie point, plain tree has %d: %s" % (npl, " ".join(w[:4])))
        elif not (sub(fo, fp) or sub(fp, fo)):
            # Not a verdict: at exact ties the two trees legitimately report different sets.  The plain
            # FeatureEvaluator pairs features of the two operands of + - * / whenever their epsilons are compatible,
            # so a shared sub-expression can be taken on different branches on the two sides (recorded C06 finding
            # "binary feature path merges incompatible epsilons"); the oracle tree evaluates the wrapped expression
            # once per underlying feature.  Example (seed 5 case 0): oracle {0,-3/8,-1/2} = the brute-force branch
            # gradients, plain {0,-1/8,-1/4,-3/8}.  Counted in the evidence.
            self.st["feats_tie_sets_incomparable"] += 1

    def mesh(self, case, w):
        mf = fl(w[2])
        o = dict(ok=w[5] == "1", verts=int(w[6]), tris=int(w[7]), unpaired=int(w[8]), degen=int(w[9]))
        p = dict(ok=w[11] == "1", verts=int(w[12]), tris=int(w[13]), unpaired=int(w[14]), degen=int(w[15]))
        hop, hpo = float(w[17]), float(w[18])
        self.st["meshes"] += 1
        self.st["mesh_tris_o"] += o["tris"]
        self.st["mesh_tris_p"] += p["tris"]
        self.mesh_rows.append({"case": case, "o": o, "p": p, "hausdorff": [hop, hpo], "min_feature": mf})
        if not o["ok"] and p["ok"]:
            self.bad(case, "mesh-missing", "no mesh from the oracle tree")
        elif o["unpaired"] > 0 and p["unpaired"] == 0:
            self.bad(case, "mesh-open", "oracle tree mesh has %d unpaired directed edges, plain tree mesh is closed" % o["unpaired"])
        elif (o["tris"] == 0) != (p["tris"] == 0) and max(o["tris"], p["tris"]) > 40:
            self.bad(case, "mesh-empty", "triangles: oracle %d plain %d" % (o["tris"], p["tris"]))
        elif o["tris"] and p["tris"] and max(hop, hpo) > 4 * mf * 1.7320508:
            self.bad(case, "mesh-far", "meshes are %g / %g apart (cell %g)" % (hop, hpo, mf))


KNOWN_KEYS = {
    "var": "C16:transformed-oracle-ignores-free-variables",
    "nan": "C16:transformed-interval-drops-nan",
    "featempty": "C16:transformed-features-empty-at-tie",
}


def run(rep, tier, seed, replay=None):
    import random
    rng = random.Random(seed * 104729 + 16)
    aud = common.audit("C16")
    exe = common.build_harness("oracle")
    n_embed = 140 if tier == "quick" else 2500
    n_jac = 40 if tier == "quick" else 400
    n_solid = 10 if tier == "quick" else 80
    n_var = 4 if tier == "quick" else 20
    n_nan = 6 if tier == "quick" else 40
    prog, meta = [], {}
    k = 0
    sizes = list(SIZES_EDGE)
    if tier == "quick":
        sizes += [rng.randint(1, 256) for _ in range(n_embed)]
    else:
        sizes += list(range(1, 257)) + [rng.randint(1, 256) for _ in range(n_embed)]
    for i in range(n_embed):
        L, m = gen_embed(rng, k, sizes[i % len(sizes)])
        prog += L; meta[str(k)] = m; k += 1
    for maker, n in ((gen_jac, n_jac), (gen_solid, n_solid), (gen_var, n_var), (gen_nan, n_nan)):
        for _ in range(n):
            L, m = maker(rng, k)
            prog += L; meta[str(k)] = m; k += 1
    corpus_dir = os.path.join(common.VERIF, "corpus", "C16")
    corpus = []
    if os.path.isdir(corpus_dir):
        for f in sorted(os.listdir(corpus_dir)):
            if f.startswith("_"):          # kept for reference, not replayed
                continue
            corpus += [l.rstrip("\n") for l in open(os.path.join(corpus_dir, f))]
    work = os.path.join(common.BUILD, "work")
    os.makedirs(work, exist_ok=True)
    pf = os.path.join(work, "c16-%d-%s.prog" % (seed, tier))
    with open(pf, "w") as f:
        f.write("\n".join(corpus + prog) + "\n")
    in_cases = case_slices(corpus + prog)
    r = common.run_harness(exe, [pf], timeout=1500)
    if r.returncode != 0:
        last = [l for l in r.stdout.splitlines() if l.startswith("case ")]
        rep.violation("oracle harness crashed rc=%d in case %s: %s" % (r.returncode, last[-1] if last else "?", r.stderr[-600:]),
                      {"kind": "harness-crash", "program": in_cases.get(last[-1].split()[1]) if last else None,
                       "stderr": r.stderr[-4000:], "how": ".build/plain/harness/oracle <file with the program lines>"})
        return rep.finish("proof", common.proof_coverage(aud, {"evaluations": 0}), ASSUMPTIONS)
    # drop every case the harness gave up on (caseskip <id>): its partial lines are not judged
    kept, cur, skipped_cases = [], [], []
    for ln in r.stdout.splitlines():
        if ln.startswith("case "):
            kept += cur
            cur = [ln]
        elif ln.startswith("caseskip "):
            cid, sig = ln.split()[1], ln.split()[2]
            if sig == "14":                         # SIGALRM: the per-case time budget, not a verdict
                skipped_cases.append(cid)
            else:                                   # the real code crashed / aborted in this case
                rep.violation("oracle harness child died (signal/exit %s) in case %s" % (sig, cid),
                              {"kind": "harness-crash", "program": in_cases.get(cid), "signal": sig,
                               "how": ".build/plain/harness/oracle <file with the program lines>"})
            cur = []
        else:
            cur.append(ln)
    kept += cur
    out_lines = kept
    verdicts = common.run_driver("c16", "\n".join(out_lines) + "\n", timeout=600).splitlines()

    J = Judge()
    J.feed(out_lines)
    J.st["cases_skipped_time_budget"] = len(skipped_cases)
    how = "write the program lines to a file and run .build/plain/harness/oracle <file>; columns are documented in harness/oracle.cpp"
    reported = set()
    for (case, key), whats in sorted(J.fail.items(), key=lambda kv: (int(kv[0][0]) if kv[0][0].isdigit() else -1, kv[0][1])):
        kind = meta.get(case, {}).get("kind", "corpus")
        fkey = None
        if kind == "var" and key == "value":
            fkey = KNOWN_KEYS["var"]
        if key == "interval-nan":
            # the judge only files this when the *plain* tree's interval is flagged and the oracle tree's is not:
            # the wrapped evaluator flags like the plain one, so the flag was lost in TransformedOracle::evalInterval
            fkey = KNOWN_KEYS["nan"]
        if key == "features-empty":
            fkey = KNOWN_KEYS["featempty"]
        reported.add(case)
        rep.violation("oracle tree and plain tree disagree (%s, %s case): %s" % (key, kind, whats[0][:400]),
                      {"kind": "oracle", "check": key, "case": case, "generator": kind, "program": in_cases.get(case),
                       "observed": whats[:5], "how": how}, key=fkey)
    mism = [v for v in verdicts if v.startswith("MISMATCH")]
    oks = sum(1 for v in verdicts if v.startswith("ok"))
    skips = sum(1 for v in verdicts if v.startswith("skip"))
    for m in mism[:20]:
        w = m.split()
        case = w[w.index("case") + 1] if "case" in w else "?"
        if case in reported:
            continue
        reported.add(case)
        stream = "C16.jacobian (OracleM.jmul)" if "jacobian" in m else "C16.context (OracleM.DeckM.eval/push, Orc.query/push)"
        rep.violation("model/implementation correspondence broken (stream %s): %s" % (stream, m[:300]),
                      {"kind": "correspondence", "stream": stream, "case": case, "program": in_cases.get(case), "verdict": m,
                       "theorems_affected": ["Libfive.C16.context_balanced", "Libfive.C16.transformed_gradient"], "how": how},
                      no_input=True)
    if not aud["ok"]:
        common.report_broken_proof(rep, aud)
    kinds = {}
    for m in meta.values():
        kinds[m["kind"]] = kinds.get(m["kind"], 0) + 1
    hist = {}
    for m in meta.values():
        for op, c in m["hist"].items():
            hist[op] = hist.get(op, 0) + c
    wr = sorted(J.width_ratios)
    vk = {}
    for v in verdicts:
        w = v.split()
        if len(w) > 1:
            vk[w[0] + " " + w[1]] = vk.get(w[0] + " " + w[1], 0) + 1
    nontrivial = J.st["values"] - J.st["values_skipped"]
    cov = common.proof_coverage(aud, {
        "evaluations": len(in_cases),
        "distinct_nontrivial": min(len({tuple(c[1:]) for c in in_cases.values()}), nontrivial),
        "rule": "generated expression wrapped as an oracle, embedded in a generated expression under 0-3 remaps "
                "(affine, axis swaps, constants, arbitrary sub-expressions, coordinates mentioning the oracle again) plus generic "
                "remaps above; non-trivial = a point comparison with a finite reference error bound",
        "correspondence": {"verdicts_ok": oks, "mismatch": len(mism), "skipped": skips, "by_kind": vk, **J.st,
                           "batch_sizes_covered": len(J.sizes)},
        "interval_width_ratio_oracle_over_plain": ({"n": len(wr), "median": wr[len(wr) // 2], "p90": wr[int(len(wr) * 0.9)],
                                                   "max": wr[-1], "min": wr[0], "wider": sum(1 for x in wr if x > 1.0001)} if wr else {}),
        "meshes": J.mesh_rows[:12],
        "distribution": {"kinds": kinds, "opcode_histogram": hist,
                         "mean_nodes": sum(m["nodes"] for m in meta.values()) / max(1, len(meta)),
                         "remap_depth": {str(d): sum(1 for m in meta.values() if m["depth"] == d) for d in range(4)}},
        "samples": [in_cases[c] for c in list(in_cases)[:2]],
    })
    return rep.finish("proof", cov, ASSUMPTIONS)
