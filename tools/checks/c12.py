"""C12 — library calls leave the caller's floating-point environment intact."""
import os
import common
import translate_fenv

ASSUMPTIONS = [
    "Theorem: bracket discipline (every segment guarded => environment preserved) applied to a call table regenerated on every run from Boost.Interval's headers and /repo's interval.hpp; the regex scanners are part of the trusted base.",
    "What libm / Eigen kernels do to MXCSR / x87 CW is observed by the exhaustive op x evaluator x input-class table, not modelled.",
    "Rendering entry points are observed on the calling thread only.",
]


def run(rep, tier, seed, replay=None):
    boost, lib = translate_fenv.main()
    aud = common.audit("C12")
    exe = common.build_harness("fenv")
    r = common.run_harness(exe, [], timeout=600)
    obs = [l for l in r.stdout.splitlines() if l.startswith("obs ")]
    if r.returncode != 0 or not obs:
        rep.violation("fenv harness failed rc=%d %s" % (r.returncode, r.stderr[-500:]),
                      {"kind": "harness-crash", "stderr": r.stderr[-3000:]}, no_input=True)
        return rep.finish("proof", common.proof_coverage(aud, {}), ASSUMPTIONS)
    verdicts = common.run_driver("c12", "\n".join(obs) + "\n").splitlines()
    leaks = {}
    for ln in obs:
        w = ln.split()
        if w[5] != w[6] or w[7] != w[8]:
            leaks.setdefault((w[2], w[1]), []).append(ln)
    found_input = False
    # one violation per opcode (the defect is in the opcode's interval routine), listing every kind
    byop = {}
    for (op, kind), lns in leaks.items():
        byop.setdefault(op, {})[kind] = lns
    for op, kinds in sorted(byop.items()):
        found_input = True
        first = next(iter(kinds.values()))[0]
        rep.violation("floating-point environment changed by a libfive call: %s (evaluator kinds: %s)"
                      % (first, ",".join(sorted(kinds))),
                      {"kind": "oracle", "opcode": op, "observations": {k: v[:3] for k, v in kinds.items()},
                       "how": ".build/plain/harness/fenv | grep ' %s '" % op,
                       "columns": "obs kind op class init-mode round-before round-after ctl-before ctl-after"},
                      key="C12:%s" % op)
    mism = [v for v in verdicts if v.startswith("MISMATCH")]
    if mism and not found_input:
        rep.violation("model/implementation correspondence broken (stream C12.obs): %s" % mism[0],
                      {"kind": "correspondence", "stream": "C12.obs", "verdicts": mism[:10]}, no_input=True)
    if not aud["ok"] and not found_input:
        common.report_broken_proof(rep, aud)
    kinds = sorted({l.split()[1] for l in obs})
    ops = sorted({l.split()[2] for l in obs})
    cov = common.proof_coverage(aud, {
        "evaluations": len(obs), "distinct_nontrivial": len({tuple(l.split()[1:5]) for l in obs}),
        "exhaustive": True,
        "rule": "every unary/binary opcode x evaluator kind x operand sign/domain class x initial rounding mode, "
                "plus constant folding, optimisation, mesh/heightmap/solver entry points; all distinct",
        "correspondence": {"observations": len(obs), "kinds": kinds, "opcodes": len(ops),
                           "verdicts_ok": sum(1 for v in verdicts if v.startswith("ok")),
                           "mismatch": len(mism), "leaks_observed": sum(len(v) for v in leaks.values())},
        "table": {"boost_entries": len(boost), "boost_rounding_entries": sum(1 for e in boost.values() if e["touches"]),
                  "boost_unguarded": sorted(n for n, e in boost.items() if e["unguarded"]),
                  "libfive_ops": len(lib), "libfive_own_guard": sorted(n for n, e in lib.items() if e["guard"])},
        "samples": obs[:3] + obs[-2:],
    })
    return rep.finish("proof", cov, ASSUMPTIONS)
