"""C09 — the height-map equals a brute-force scan of the voxel grid."""
import os
import struct
import common
import gen
import gen_heightmap

ASSUMPTIONS = [
    "Theorems are about the Lean model of Voxels sizes / View::split / Heightmap::{render,recurse,pixels,fill} "
    "(LibfiveModel/Heightmap.lean): for every classifier, every interval oracle that is sound for it, every monotone "
    "height table, every view, image, worker count.",
    "Tie: the model is run with the real evaluators' answers (per-voxel-centre sign from ArrayEvaluator, interval "
    "state of every view of the recursion tree as recurse reads it) and must reproduce the real depth image pixel for "
    "pixel, the real region list and every real View::split; the hypotheses Sound and Mono are checked on the real data.",
    "Float voxel positions and view bounds are observed (increasing, inside the expanded bounds, centre formula within "
    "4 ulp-scale tolerance), not modelled; real threads are not modelled: independence of the worker count follows from "
    "recurse_local (each region reads and writes only its own pixel block) plus the observed equality for every count.",
    "Soundness of interval evaluation itself is C02's obligation; pushed tapes agreeing with the full tape is C05's. "
    "Random shapes avoid opcodes whose interval routines have known unsound maybe-NaN flags (C02 findings).",
    "Normals and PNG output are outside the property.",
]

KEY_NAN = "C09:isFilled-ignores-maybe-nan"
KEY_PUSH = "C09:interval-push-drops-maybe-nan-operand"


def hexf(h):
    return struct.unpack("<f", struct.pack("<I", int(h, 16)))[0]


def parse_cases(out_lines):
    """harness output -> {case: dict}"""
    cases, cur = {}, None
    for ln in out_lines:
        w = ln.split()
        if not w:
            continue
        if w[0] == "case":
            cur = {"id": w[1], "runs": {}, "nsplit": 0, "ninterval": 0}
            cases[w[1]] = cur
        elif cur is None:
            continue
        elif w[0] == "vox":
            cur["size"] = [int(w[1]), int(w[2]), int(w[3])]
            cur["lower"] = w[4:7]
            cur["upper"] = w[7:10]
            cur["req"] = w[11:20]
            cur["prod"] = w[21:24]
        elif w[0] == "pts":
            cur.setdefault("pts", {})[int(w[1])] = w[3:]
        elif w[0] == "nanv":
            cur["nanv"] = int(w[1])
        elif w[0] == "f":
            cur["inside"] = w[1].count("1")
        elif w[0] == "brute":
            cur["brute"] = [int(x) for x in w[1:]]
        elif w[0] == "split":
            cur["nsplit"] += 1
        elif w[0] == "I":
            cur["ninterval"] += 1
            cur.setdefault("istates", []).append((w[1], w[13], w[14], w[15]))
        elif w[0] == "depth":
            cur["runs"][int(w[1])] = w[2:]
    return cases


def voxel_facts(c):
    """Voxels cover / resolution facts on the real object (float tolerance stated).  Returns list of problems."""
    bad = []
    for a in range(3):
        n = c["size"][a]
        pts = [hexf(h) for h in c["pts"][a]]
        lo, hi = hexf(c["lower"][a]), hexf(c["upper"][a])
        rlo, rhi, res = hexf(c["req"][a]), hexf(c["req"][3 + a]), hexf(c["req"][6 + a])
        scale = max(abs(lo), abs(hi), abs(rlo), abs(rhi), 1e-30)
        tol = 8 * scale * 2.0 ** -23
        if len(pts) != n or n < 1:
            bad.append("axis %d: %d positions for size %d" % (a, len(pts), n))
            continue
        if any(not (pts[i] < pts[i + 1]) for i in range(n - 1)):
            bad.append("axis %d: positions not strictly increasing" % a)
        if lo > rlo + tol or hi < rhi - tol:
            bad.append("axis %d: expanded bounds [%r,%r] do not cover requested [%r,%r]" % (a, lo, hi, rlo, rhi))
        if res > 0 and abs((hi - lo) * res - n) > 1e-4 * n + 8 * 2.0 ** -23 * scale * res:
            bad.append("axis %d: (upper-lower)*res = %r but size %d" % (a, (hi - lo) * res, n))
        if res > 0 and n > 1 and (n - 1) / res >= (rhi - rlo) * (1 + 1e-5) + tol:
            bad.append("axis %d: %d voxels of 1/res already cover the requested extent (size %d too large)" % (a, n - 1, n))
        for k, p in enumerate(pts):
            ref = lo + (k + 0.5) * (hi - lo) / n
            if abs(p - ref) > tol or p < lo - tol or p > hi + tol:
                bad.append("axis %d: centre %d = %r, expected %r" % (a, k, p, ref))
                break
    return bad


BATCH = 400          # cases per harness / driver invocation (bounds memory: depth images and oracle tables are big)


class Acc:
    """what one run accumulates over its batches"""

    def __init__(self):
        self.stats = {"renders": 0, "pixels": 0, "pixels_hit": 0, "cases_nan_voxels": 0, "cases_interval_used": 0,
                      "interval_evals": 0, "filled": 0, "empty": 0, "ambiguous": 0, "splits_compared": 0,
                      "hyp_unsound_filled_maybe_nan": 0, "hyp_unsound_pushed_tape_nan": 0, "hyp_unsound_other": 0,
                      "hyp_pushdiff_leaves": 0}
        self.oks = {}
        self.mismatches = 0
        self.reported_mismatch = set()
        self.oracle_failed = set()
        self.cases_seen = 0
        self.nontrivial = 0
        self.sizes = []
        self.stalls = []      # harness runs that exceeded the batch timeout (backtrace of all threads)


class _Res:
    def __init__(self, rc, out, err):
        self.returncode, self.stdout, self.stderr = rc, out, err


def run_harness_watched(acc, exe, pf, timeout):
    """run the harness on one program file; on a stall take a backtrace of every thread (for the evidence) before
    killing it and return None"""
    import subprocess
    env = dict(os.environ)
    p = subprocess.Popen([exe, pf], stdout=subprocess.PIPE, stderr=subprocess.PIPE, text=True, env=env)
    try:
        out, err = p.communicate(timeout=timeout)
        return _Res(p.returncode, out, err)
    except subprocess.TimeoutExpired:
        bt = ""
        try:
            g = subprocess.run(["gdb", "-p", str(p.pid), "-batch", "-ex", "thread apply all bt 12"],
                               stdout=subprocess.PIPE, stderr=subprocess.STDOUT, text=True, timeout=120)
            bt = "\n".join(l[:300] for l in g.stdout.splitlines() if l.startswith(("#", "Thread")))[:6000]
        except Exception as e:  # gdb missing / ptrace refused
            bt = "no backtrace: %r" % (e,)
        p.kill()
        try:
            p.communicate(timeout=30)
        except Exception:
            pass
        acc.stalls.append({"program_file": pf, "timeout_s": timeout, "backtrace": bt})
        common.log("harness stalled on %s (> %d s); backtrace recorded, retrying" % (pf, timeout))
        return None


def process_batch(rep, acc, lines, metab, exe, pf, timeout):
    """run one batch of cases through the real library, the model, and the property oracle"""
    with open(pf, "w") as f:
        f.write("\n".join(lines) + "\n")
    in_cases = {}
    cur = None
    for ln in lines:
        if ln.startswith("case "):
            cur = in_cases.setdefault(ln.split()[1], [])
        if cur is not None:
            cur.append(ln)
    r = run_harness_watched(acc, exe, pf, timeout)
    if r is None:      # second attempt: an intermittent stall must not look like a violation (never alarm on timing)
        r = run_harness_watched(acc, exe, pf, timeout)
    if r is None:
        rep.violation("heightmap harness did not finish a batch of %d cases within %d s, twice (backtraces in replay)"
                      % (len(in_cases), timeout),
                      {"kind": "harness-timeout", "program_file": pf, "backtraces": acc.stalls[-2:],
                       "how": ".build/plain/harness/heightmap %s" % pf}, no_input=True)
        return in_cases
    if r.returncode != 0:
        rep.violation("heightmap harness crashed rc=%d: %s" % (r.returncode, r.stderr[-800:]),
                      {"kind": "harness-crash", "program_file": pf, "program": lines[:400], "stderr": r.stderr[-4000:]})
        return in_cases
    verdicts = common.run_driver("c09", r.stdout, timeout=timeout).splitlines()
    cases = parse_cases(r.stdout.splitlines())
    del r
    stats = acc.stats

    # hypothesis reports of the driver: interval answers that are not sound for the point classifier, and
    # leaves whose pushed-tape signs differ from the base tape's
    unsound = {}          # (case, w) -> [(view tuple, state, nan, taint)]
    pushdiff = {}         # (case, w) -> [(view tuple, tainted)]
    for v in verdicts:
        if v.startswith("hyp-unsound"):
            w = v.split()
            view = tuple(int(x) for x in w[6:12])
            unsound.setdefault((w[2], int(w[4])), []).append((view, w[13], w[15], w[19]))
        elif v.startswith("hyp-pushdiff"):
            w = v.split()
            # (view, tainted: an ancestor's push took KEEP_B on a min/max clause with a maybe-NaN operand)
            pushdiff.setdefault((w[2], int(w[4])), []).append((tuple(int(x) for x in w[6:12]), w[17] == "1"))
    stats["hyp_pushdiff_leaves"] += sum(len(v) for v in pushdiff.values())
    for lst in unsound.values():
        for (_, state, nan, taint) in lst:
            if state == "filled" and nan == "1":
                stats["hyp_unsound_filled_maybe_nan"] += 1
            elif taint == "1":
                stats["hyp_unsound_pushed_tape_nan"] += 1
            else:
                stats["hyp_unsound_other"] += 1

    # ---- property oracle on the real code: Heightmap::render == brute-force column scan, every worker count
    oracle_failed = acc.oracle_failed
    for cid, c in cases.items():
        if "brute" not in c:
            continue
        sx, sy, sz = c["size"]
        acc.sizes.append(c["size"])
        if c.get("inside", 0) > 0 and c["ninterval"] > 0:
            acc.nontrivial += 1
        zs = c["pts"][2]
        if c.get("nanv"):
            stats["cases_nan_voxels"] += 1
        if c["ninterval"]:
            stats["cases_interval_used"] += 1
        stats["interval_evals"] += c["ninterval"]
        stats["splits_compared"] += c["nsplit"]
        for (_, nan, fl, em) in c.get("istates", []):      # as recurse reads it: filled iff safe && isFilled
            stats["filled" if (fl == "1" and nan == "0") else "empty" if em == "1" else "ambiguous"] += 1
        expect = ["ff800000" if k < 0 else zs[k] for k in c["brute"]]
        for wk, depth in sorted(c["runs"].items()):
            stats["renders"] += 1
            stats["pixels"] += len(depth)
            stats["pixels_hit"] += sum(1 for k in c["brute"] if k >= 0)
            if depth == expect:
                continue
            diff = [p for p in range(len(expect)) if p >= len(depth) or depth[p] != expect[p]]
            # diagnose by mechanism (a key is only used when *every* differing pixel is explained):
            #  A  pixel inside a view that was filled although its interval is flagged maybe-NaN
            #  B  pixel inside a leaf whose pushed tape classifies voxels differently from the full tape, or inside a
            #     view with an unsound interval answer, where that tape descends from a push that took KEEP_B on a
            #     min/max clause with a maybe-NaN operand ("taint", recomputed by the harness from the real slots)
            uns = unsound.get((cid, wk), [])
            nanviews = [v for (v, state, nan, taint) in uns if state == "filled" and nan == "1"]
            pushviews = [v for (v, tainted) in pushdiff.get((cid, wk), []) if tainted] + \
                [v for (v, state, nan, taint) in uns if taint == "1" and not (state == "filled" and nan == "1")]

            def inside(p, views):
                i, j = p // sy, p % sy
                return any(v[0] <= i < v[0] + v[3] and v[1] <= j < v[1] + v[4] for v in views)

            in_a = [p for p in diff if inside(p, nanviews)]
            in_b = [p for p in diff if not inside(p, nanviews) and inside(p, pushviews)]
            explained = diff and len(in_a) + len(in_b) == len(diff) and len(depth) == len(expect)
            groups = [(KEY_NAN, in_a, " [inside views filled on a maybe-NaN interval]"),
                      (KEY_PUSH, in_b, " [inside views/leaves evaluated through a pushed tape that dropped a maybe-NaN min/max operand]")] \
                if explained else [(None, diff, "")]
            for key, pix, note in groups:
                if not pix and key is not None:
                    continue
                if (cid, key) in oracle_failed:
                    continue
                oracle_failed.add((cid, key))
                p0 = pix[0] if pix else 0
                what = ("Heightmap::render differs from the brute-force voxel scan: case %s shape %s grid %dx%dx%d workers %d: "
                        "%d of %d pixels differ, first (%d,%d) rendered %r brute-force %r%s"
                        % (cid, metab.get(cid, {}).get("shape", "corpus"), sx, sy, sz, wk, len(pix), len(expect),
                           p0 // sy, p0 % sy, hexf(depth[p0]) if p0 < len(depth) else None, hexf(expect[p0]), note))
                rep.violation(what, {"kind": "oracle", "case": cid, "workers": wk, "program": in_cases.get(cid),
                                     "meta": metab.get(cid), "differing_pixels": [(p // sy, p % sy) for p in pix[:20]],
                                     "unsound_interval_views": uns[:10], "pushdiff_leaves": pushdiff.get((cid, wk), [])[:10],
                                     "how": "write program lines to a file and run .build/plain/harness/heightmap <file>; "
                                            "compare the `depth <w>` line with `brute` (index i*sy+j, k -> pts 2). NB: the "
                                            "optimiser orders min/max operands by pointer, so NaN shapes can differ run to run"},
                              key=key)
        # thread-count independence, stated directly
        runs = sorted(c["runs"].items())
        for wk, depth in runs[1:]:
            if depth != runs[0][1] and not any(k[0] == cid for k in oracle_failed):  # (not already explained above)
                oracle_failed.add((cid, None))
                rep.violation("depth image depends on the worker count: case %s workers %d vs %d" % (cid, runs[0][0], wk),
                              {"kind": "oracle", "case": cid, "program": in_cases.get(cid), "meta": metab.get(cid)})
        # Voxels cover / resolution facts
        bad = voxel_facts(c)
        if bad:
            oracle_failed.add((cid, "vox"))
            rep.violation("Voxels grid does not cover the request: case %s: %s" % (cid, "; ".join(bad[:3])),
                          {"kind": "oracle", "case": cid, "program": in_cases.get(cid), "meta": metab.get(cid),
                           "problems": bad[:10], "vox": {k: c[k] for k in ("size", "lower", "upper", "req")}})

    # ---- correspondence verdicts
    mism = [v for v in verdicts if v.startswith("MISMATCH")]
    acc.mismatches += len(mism)
    for v in verdicts:
        w = v.split()
        if w and w[0] in ("ok", "skip"):
            acc.oks[w[0] + " " + w[1]] = acc.oks.get(w[0] + " " + w[1], 0) + 1
    failed_cases = {k[0] for k in oracle_failed}
    for m in mism:
        w = m.split()
        cid = w[w.index("case") + 1] if "case" in w else "?"
        if cid in failed_cases or cid in acc.reported_mismatch or len(acc.reported_mismatch) >= 20:
            continue
        acc.reported_mismatch.add(cid)
        stream = w[1] if len(w) > 1 else "?"
        rep.violation("model/implementation correspondence broken (stream C09.%s): %s" % (stream, m[:300]),
                      {"kind": "correspondence", "stream": "C09.%s (LibfiveModel/Heightmap.lean)" % stream, "case": cid,
                       "program": in_cases.get(cid), "meta": metab.get(cid), "verdict": m[:2000],
                       "theorems_affected": ["Libfive.C09.split_partitions", "Libfive.C09.render_eq_bruteforce",
                                             "Libfive.C09.render_workers_independent"]},
                      no_input=True)
    done = sum(1 for c in cases.values() if c.get("runs"))
    acc.cases_seen += done
    if done != len(in_cases):
        rep.violation("harness output incomplete: %d of %d cases" % (done, len(in_cases)),
                      {"kind": "harness-incomplete", "program_file": pf}, no_input=True)
    return in_cases


def split_cases(lines):
    """list of per-case line lists"""
    out = []
    for ln in lines:
        if ln.startswith("case "):
            out.append([])
        if out:
            out[-1].append(ln)
    return out


def run(rep, tier, seed, replay=None):
    import random
    rng = random.Random(seed * 104729 + 9)
    aud = common.audit("C09")
    exe = common.build_harness("heightmap")
    n = 1500 if tier == "quick" else 6000
    prog, meta = gen_heightmap.gen_cases(rng, n, tier)
    corpus_dir = os.path.join(common.VERIF, "corpus", "C09")
    corpus = []
    if os.path.isdir(corpus_dir):
        for f in sorted(os.listdir(corpus_dir)):
            corpus += [l.rstrip("\n") for l in open(os.path.join(corpus_dir, f))]
    work = os.path.join(common.BUILD, "work")
    os.makedirs(work, exist_ok=True)
    metab = {str(m["case"]): m for m in meta}
    all_cases = split_cases(corpus + prog)
    acc = Acc()
    samples = []
    for b in range(0, len(all_cases), BATCH):
        lines = [ln for cs in all_cases[b:b + BATCH] for ln in cs]
        pf = os.path.join(work, "c09-%d-%s-%d.prog" % (seed, tier, b // BATCH))
        in_cases = process_batch(rep, acc, lines, metab, exe, pf, 400 if tier == "quick" else 900)
        if not samples:
            samples = [in_cases[k] for k in list(in_cases)[-2:]]

    # ---- thorough: the same renders under ThreadSanitizer (real threads are outside the model: recurse_local says the
    # regions touch disjoint pixel blocks; this watches that the implementation's threads really share nothing else)
    tsan = {"ran": False}
    if tier == "thorough":
        sub = [ln for cs in all_cases[:400] for ln in cs]
        tf = os.path.join(work, "c09-%d-tsan.prog" % seed)
        with open(tf, "w") as f:
            f.write("\n".join(sub) + "\n")
        texe = common.build_harness("heightmap", flavour="tsan")
        tr = common.run_harness(texe, [tf], timeout=2400)
        nrep = tr.stderr.count("WARNING: ThreadSanitizer")
        tsan = {"ran": True, "cases": min(400, len(all_cases)), "reports": nrep, "rc": tr.returncode}
        if nrep or tr.returncode != 0:
            first = tr.stderr[tr.stderr.find("WARNING: ThreadSanitizer"):][:3000] if nrep else tr.stderr[-3000:]
            rep.violation("ThreadSanitizer report / failure while rendering with several workers (rc=%d, %d reports)"
                          % (tr.returncode, nrep),
                          {"kind": "oracle", "program_file": tf, "report": first,
                           "how": ".build/tsan/harness/heightmap %s" % tf})

    if not aud["ok"]:
        common.report_broken_proof(rep, aud)

    shapes = {}
    for m in meta:
        shapes[m["shape"]] = shapes.get(m["shape"], 0) + 1
    ophist = {}
    for ln in corpus + prog:
        w = ln.split()
        if len(w) > 3 and w[0] == "n" and w[2] in ("un", "bin"):
            ophist[w[3]] = ophist.get(w[3], 0) + 1
    sizes = acc.sizes
    cov = common.proof_coverage(aud, {
        "evaluations": acc.stats["renders"],
        "distinct_nontrivial": acc.nontrivial,
        "rule": "one evaluation = one Heightmap::render call compared pixel-for-pixel with the brute-force scan and with the "
                "model; non-trivial = shape has inside voxels AND the grid is large enough (> 256 voxels) for the interval "
                "recursion to run (counted per case, not per worker count)",
        "correspondence": {"cases": acc.cases_seen, "verdicts": acc.oks, "mismatch": acc.mismatches, **acc.stats},
        "thread_sanitizer": tsan,
        "harness_stalls": acc.stalls,
        "distribution": {
            "shapes": shapes, "opcode_histogram": dict(sorted(ophist.items())), "corpus_cases": len(all_cases) - len(meta),
            "grids": {"cases": len(sizes), "single_voxel_axis": sum(1 for s in sizes if 1 in s),
                      "zero_height_or_flat_z": sum(1 for s in sizes if s[2] == 1),
                      "odd_axis": sum(1 for s in sizes if any(x % 2 for x in s)),
                      "max_voxels": max([s[0] * s[1] * s[2] for s in sizes] or [0]),
                      "le_256_voxels(no interval step)": sum(1 for s in sizes if s[0] * s[1] * s[2] <= 256)},
            "workers": sorted({w for m in meta for w in m["workers"]}),
            "scalar_ctor": sum(1 for m in meta if m["scalar_ctor"]),
        },
        "samples": samples,
    })
    return rep.finish("proof", cov, ASSUMPTIONS)
