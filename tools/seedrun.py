#!/usr/bin/env python3
"""Run checks against a seeded defect:  seedrun.py <seeded/dir> <Cxx> [<Cyy> ...] [--tier quick] [--seeds 1,2]
Applies <dir>/patch.diff to /repo's working tree, runs the checks, ALWAYS restores /repo
(git checkout -- .) and rebuilds the hook build, prints and stores the outcome in <dir>/detection.json."""
import json, os, subprocess, sys, time

V = os.path.dirname(os.path.dirname(os.path.abspath(__file__)))


def main():
    args = sys.argv[1:]
    tier, seeds = "quick", [1]
    if "--tier" in args:
        i = args.index("--tier"); tier = args[i + 1]; del args[i:i + 2]
    if "--seeds" in args:
        i = args.index("--seeds"); seeds = [int(x) for x in args[i + 1].split(",")]; del args[i:i + 2]
    d = os.path.abspath(args[0])
    props = args[1:]
    st = subprocess.run(["git", "-C", "/repo", "status", "--porcelain", "--untracked-files=no"], capture_output=True, text=True).stdout
    if st.strip():
        print("refusing: /repo has local modifications:\n" + st); return 2
    r = subprocess.run(["git", "-C", "/repo", "apply", os.path.join(d, "patch.diff")], capture_output=True, text=True)
    if r.returncode != 0:
        print("patch does not apply: " + r.stderr); return 2
    res = {}
    # evidence files must describe runs on the unchanged tree: keep them aside and put them back
    saved = {}
    for p in props:
        ef = os.path.join(V, "evidence", p + ".json")
        saved[ef] = open(ef).read() if os.path.exists(ef) else None
    try:
        for p in props:
            for sd in seeds:
                t = time.time()
                env = dict(os.environ, VERIF_SEED=str(sd))
                try:
                    r = subprocess.run([sys.executable, os.path.join(V, "tools/vcheck.py"), p, "--tier", tier], cwd=V,
                                       capture_output=True, text=True, env=env, timeout=3600)
                    out, err, rc = r.stdout, r.stderr, r.returncode
                except subprocess.TimeoutExpired:
                    out, err, rc = "", "TIMEOUT", -1
                viol = [l for l in out.splitlines() if l.startswith("VIOLATION")]
                whats = [l.strip() for l in err.splitlines() if l.startswith("[verif]   ")][:4]
                res["%s/seed%d" % (p, sd)] = {"rc": rc, "violations": len(viol), "no_input": sum("no-failing-input-found" in v for v in viol),
                                              "first": [w[:400] for w in whats], "secs": round(time.time() - t)}
                print(p, "seed", sd, "rc", rc, "violations", len(viol), "(%ds)" % (time.time() - t), flush=True)
                for w in whats[:2]:
                    print("    ", w[:300])
    finally:
        subprocess.run(["git", "-C", "/repo", "checkout", "--", "."])
        # tables regenerated from the patched tree must not survive the run
        subprocess.run(["git", "-C", V, "checkout", "--", "lean/Generated"])
        for ef, txt in saved.items():
            if txt is not None:
                open(ef, "w").write(txt)
            elif os.path.exists(ef):
                os.remove(ef)
        sys.path.insert(0, os.path.join(V, "tools"))
        import common
        common.build_lib("plain")
    det = os.path.join(d, "detection.json")
    old = json.load(open(det)) if os.path.exists(det) else {}
    old.setdefault("tier_" + tier, {}).update(res)
    json.dump(old, open(det, "w"), indent=1)
    return 0


if __name__ == "__main__":
    sys.exit(main())
