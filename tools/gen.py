"""Seeded generators for the correspondence runs: expression DAG programs, points, boxes."""
import math
import random
import struct

UNARY_EXACT = ["neg", "abs", "square", "sqrt", "recip"]
UNARY_TRANS = ["sin", "cos", "tan", "asin", "acos", "atan", "exp", "log"]
BINARY_EXACT = ["add", "sub", "mul", "div", "min", "max"]
BINARY_OTHER = ["atan2", "pow", "nth-root", "mod", "nanfill", "compare"]


def f2hex(x):
    return "%08x" % struct.unpack("<I", struct.pack("<f", x))[0]


def hex2f(h):
    return struct.unpack("<f", struct.pack("<I", int(h, 16)))[0]


def f32(x):
    return struct.unpack("<f", struct.pack("<f", x))[0]


NICE_CONSTS = [0.0, 1.0, -1.0, 2.0, 0.5, -0.5, 3.0, -2.0, 0.25, 1.5, 10.0, 0.1]


class TreeGen:
    """Builds one expression DAG bottom-up as protocol lines `n <id> ...`.

    Options (dict):
      size        number of operator nodes
      unary/binary  lists of opcode names to draw from
      p_minmax    extra probability mass for min/max (CSG-like trees)
      nvars       number of free variables
      p_share     probability of picking an older node (sharing) rather than a recent one
      remap/apply probabilities per node of wrapping in remap / apply
      consts      'nice' | 'random' | 'mixed'
      int_exponent  force integer constants as second operand of pow / nth-root
    """

    def __init__(self, rng, **o):
        self.rng = rng
        self.o = dict(size=12, unary=UNARY_EXACT, binary=BINARY_EXACT, p_minmax=0.3, nvars=0,
                      p_share=0.3, remap=0.0, apply=0.0, consts="mixed", p_const=0.25, p_unary=0.3,
                      max_xsize=None)
        self.o.update(o)
        self.lines = []
        self.next = 0
        self.kind = {}      # id -> description tuple
        self.xsize = {}
        self.vars = []
        self.pool = []
        self.hist = {}
        for ax in "xyz":
            self.pool.append(self._emit((ax,)))
        for _ in range(self.o["nvars"]):
            v = self._emit(("var",))
            self.vars.append(v)
            self.pool.append(v)

    def _emit(self, desc):
        i = self.next
        self.next += 1
        self.kind[i] = desc
        # size of the node when the DAG is expanded into a tree (the Lean model works on trees)
        self.xsize[i] = 1 + sum(self.xsize.get(d, 0) for d in desc[1:] if isinstance(d, int))
        self.lines.append("n %d %s" % (i, " ".join(str(d) for d in desc)))
        self.hist[desc[0] if desc[0] not in ("un", "bin") else desc[1]] = \
            self.hist.get(desc[0] if desc[0] not in ("un", "bin") else desc[1], 0) + 1
        return i

    def const(self, value=None):
        r = self.rng
        if value is None:
            mode = self.o["consts"]
            if mode == "nice" or (mode == "mixed" and r.random() < 0.5):
                value = r.choice(NICE_CONSTS)
            else:
                value = f32(r.uniform(-4, 4))
        return self._emit(("const", f2hex(value)))

    def pick(self):
        r = self.rng
        if r.random() < self.o["p_const"]:
            return self.const()
        lim = self.o["max_xsize"]
        for _ in range(8):
            if r.random() < self.o["p_share"] or len(self.pool) < 6:
                c = r.choice(self.pool)
            else:
                c = r.choice(self.pool[-5:])
            if lim is None or self.xsize[c] <= lim:
                return c
        return r.choice(self.pool[:3])

    def step(self):
        r = self.rng
        o = self.o
        u = r.random()
        if u < o["p_minmax"]:
            node = self._emit(("bin", r.choice(["min", "max"]), self.pick_nonconst(), self.pick_nonconst()))
        elif u < o["p_minmax"] + o["p_unary"] * (1 - o["p_minmax"]) and o["unary"]:
            node = self._emit(("un", r.choice(o["unary"]), self.pick_nonconst()))
        else:
            op = r.choice(o["binary"])
            a = self.pick()
            if op in ("pow", "nth-root"):
                b = self.const(float(r.choice([1, 2, 3, 4, 5] if op == "nth-root" else [-2, -1, 1, 2, 3, 4])))
            else:
                b = self.pick()
                if self.kind[a][0] == "const" and self.kind[b][0] == "const":
                    b = self.pick_nonconst()
            node = self._emit(("bin", op, a, b))
        if o["remap"] and r.random() < o["remap"]:
            node = self._emit(("remap", node, self.pick_nonconst(), self.pick_nonconst(), self.pick_nonconst()))
        if o["apply"] and self.vars and r.random() < o["apply"]:
            node = self._emit(("apply", node, r.choice(self.vars), self.pick()))
        self.pool.append(node)
        return node

    def pick_nonconst(self):
        for _ in range(10):
            p = self.pick()
            if self.kind[p][0] != "const":
                return p
        return self.pool[0]

    def build(self):
        node = None
        for _ in range(self.o["size"]):
            node = self.step()
        # tie the last few independent roots together so the DAG has one rich root
        r = self.rng
        extra = [n for n in self.pool[-4:-1] if n != node and self.kind[n][0] not in ("x", "y", "z", "var")]
        for e in extra:
            if r.random() < 0.7:
                node = self._emit(("bin", r.choice(["min", "max", "add"]), node, e))
        self.root = node
        return node


def rand_point(rng, lo=(-4, -4, -4), hi=(4, 4, 4), lattice=0.3):
    """a point in the box; with probability `lattice` on a coarse dyadic lattice (exact ties)"""
    p = []
    for a, b in zip(lo, hi):
        if rng.random() < lattice:
            k = 8
            x = round(rng.uniform(a, b) * k) / k
            x = min(max(x, a), b)
        else:
            x = rng.uniform(a, b)
        p.append(f32(x))
    return tuple(p)


def sub_box(rng, lo, hi, shrink=(0.2, 0.9)):
    nlo, nhi = [], []
    for a, b in zip(lo, hi):
        w = (b - a) * rng.uniform(*shrink)
        s = rng.uniform(a, b - w)
        x, y = f32(s), f32(s + w)
        x, y = max(x, a), min(y, b)
        if x > y:
            x, y = a, b
        nlo.append(x)
        nhi.append(y)
    return tuple(nlo), tuple(nhi)


def pt_hex(p):
    return " ".join(f2hex(c) for c in p)
