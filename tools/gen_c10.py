"""C10 generators: (a) segment multisets for Contours::collect, (b) 2D solids / 3D solids with a
slice height as tree programs (protocol of tools/gen.py / harness/common.hpp TreeProg).

All fields are built from exact distance functions of circles / spheres and unit-normal half
planes / half spaces combined with min / max / neg / constant offsets, so they are 1-Lipschitz up
to float rounding of the unit normals: |f(p)| is a lower bound of the distance of p to the zero set."""
import math

import gen


# --------------------------------------------------------------------------- (a) segment streams

def seg_case(rng, kind=None, big=False):
    """returns dict(kind, V, children=[[(a,b),...],...])  (vertex indices 1..V)"""
    kinds = ["cycles", "cycles", "cycles", "cycles_sorted", "near", "near", "paths", "random", "dense", "selfloops"]
    kind = kind or rng.choice(kinds)
    if big == "huge":
        # vertex indices beyond 2^16 (a long boundary at fine resolution): index-width assumptions of the welding maps
        V = rng.randint(66000, 72000)
        # shuffled: tens of thousands of chains are open at the same time, as in a real walk of the quadtree
        kind = "cycles"
    elif big:
        V = rng.randint(300, 1500)
    else:
        V = rng.choice([1, 2, 3, 4, 5, 6, 8, 10, 12, 16, 24, 40, 64])
    segs = []
    if kind in ("cycles", "cycles_sorted", "near", "selfloops"):
        # random permutation with a controlled number of cycles: in = out = 1 everywhere
        verts = list(range(1, V + 1))
        rng.shuffle(verts)
        i = 0
        while i < V:
            if kind == "selfloops" and rng.random() < 0.3:
                ln = 1
            else:
                ln = min(V - i, rng.choice([1, 2, 3, 4, 5, 8, 13, 30, 100, V] if big != "huge" else [3000, 9000, 20000, V]))
                if ln == 1 and kind != "selfloops" and V - i >= 2:
                    ln = 2
            cyc = verts[i:i + ln]
            for j in range(ln):
                segs.append((cyc[j], cyc[(j + 1) % ln]))
            i += ln
        if kind == "cycles_sorted":
            mode = rng.choice(["fwd", "rev", "interleave"])
            if mode == "rev":
                segs.reverse()
            elif mode == "interleave":
                segs = segs[::2] + segs[1::2]
        else:
            rng.shuffle(segs)
        if kind == "near" and segs:
            for _ in range(rng.randint(1, 3)):
                m = rng.choice(["drop", "dup", "flip", "redirect", "extra"])
                k = rng.randrange(len(segs))
                if m == "drop" and len(segs) > 1:
                    segs.pop(k)
                elif m == "dup":
                    segs.insert(rng.randrange(len(segs) + 1), segs[k])
                elif m == "flip":
                    segs[k] = (segs[k][1], segs[k][0])
                elif m == "redirect":
                    segs[k] = (segs[k][0], rng.randint(1, V))
                else:
                    segs.insert(rng.randrange(len(segs) + 1), (rng.randint(1, V), rng.randint(1, V)))
    elif kind == "paths":
        verts = list(range(1, V + 1))
        rng.shuffle(verts)
        i = 0
        while i < V:
            ln = min(V - i, rng.choice([2, 3, 4, 6, 10, 25]))
            p = verts[i:i + ln]
            for j in range(ln - 1):
                segs.append((p[j], p[j + 1]))
            if rng.random() < 0.4 and ln >= 2:
                segs.append((p[-1], p[0]))
            i += ln
        rng.shuffle(segs)
    elif kind == "random":
        n = rng.randint(0, 2 * V)
        segs = [(rng.randint(1, V), rng.randint(1, V)) for _ in range(n)]
    elif kind == "dense":
        V = min(V, 6)
        n = rng.randint(1, 14)
        segs = [(rng.randint(1, V), rng.randint(1, V)) for _ in range(n)]
    nchild = rng.choice([1, 1, 2, 3, 4, 8, 16])
    cuts = sorted(rng.randint(0, len(segs)) for _ in range(nchild - 1))
    children, prev = [], 0
    for c in cuts + [len(segs)]:
        children.append(segs[prev:c])
        prev = c
    return {"kind": kind, "V": V, "children": children}


def seg_line(cid, case):
    parts = ["segs", cid, str(case["V"]), str(len(case["children"]))]
    for ch in case["children"]:
        parts.append(str(len(ch)))
        for a, b in ch:
            parts += [str(a), str(b)]
    return " ".join(parts)


# --------------------------------------------------------------------------- (b) solids

class Solid:
    """CSG builder on top of gen.TreeGen's emitter (ids / protocol lines)."""

    def __init__(self, rng, three_d):
        self.rng = rng
        self.g = gen.TreeGen(rng, size=0)
        self.x, self.y, self.z = 0, 1, 2
        self.three_d = three_d
        self.prims = []

    def c(self, v):
        return self.g.const(gen.f32(v))

    def un(self, op, a):
        return self.g._emit(("un", op, a))

    def bi(self, op, a, b):
        return self.g._emit(("bin", op, a, b))

    def lin(self, n, d):
        """n . p - d  with n a (2 or 3)-vector of floats"""
        coords = [self.x, self.y, self.z]
        acc = None
        for k, nk in enumerate(n):
            if abs(nk) < 1e-12:
                continue
            term = coords[k] if nk == 1.0 else self.bi("mul", self.c(nk), coords[k])
            acc = term if acc is None else self.bi("add", acc, term)
        if acc is None:
            acc = self.c(0.0)
        return self.bi("sub", acc, self.c(d))

    def dist(self, ctr):
        coords = [self.x, self.y, self.z]
        acc = None
        for k, ck in enumerate(ctr):
            t = self.un("square", self.bi("sub", coords[k], self.c(ck)))
            acc = t if acc is None else self.bi("add", acc, t)
        return self.un("sqrt", acc)

    def rand_dir(self, dim):
        r = self.rng
        if dim == 2:
            if r.random() < 0.25:
                return r.choice([(1.0, 0.0), (0.0, 1.0), (-1.0, 0.0), (0.0, -1.0)])
            th = r.uniform(0, 2 * math.pi)
            return (math.cos(th), math.sin(th))
        while True:
            v = [r.gauss(0, 1) for _ in range(3)]
            n = math.sqrt(sum(t * t for t in v))
            if n > 0.2:
                return tuple(t / n for t in v)

    def frame3(self):
        a = self.rand_dir(3)
        while True:
            b = self.rand_dir(3)
            d = sum(p * q for p, q in zip(a, b))
            b = [q - d * p for p, q in zip(a, b)]
            n = math.sqrt(sum(t * t for t in b))
            if n > 0.2:
                b = tuple(t / n for t in b)
                break
        c = (a[1] * b[2] - a[2] * b[1], a[2] * b[0] - a[0] * b[2], a[0] * b[1] - a[1] * b[0])
        return a, b, c

    def centre(self, spread):
        r = self.rng
        d = 3 if self.three_d else 2
        if r.random() < 0.2:
            return tuple(round(r.uniform(-spread, spread) * 4) / 4 for _ in range(d))
        return tuple(r.uniform(-spread, spread) for _ in range(d))

    def primitive(self):
        """a bounded primitive inside the ball of radius 3 around the origin"""
        r = self.rng
        kind = r.choice(["circle", "circle", "rect", "rect", "ngon"])
        ctr = self.centre(1.2)
        size = r.uniform(0.6, 1.8)
        self.prims.append(kind)
        if kind == "circle":
            return self.bi("sub", self.dist(ctr), self.c(size))
        d = 3 if self.three_d else 2
        if kind == "rect":
            axes = self.frame3() if d == 3 else None
            if d == 2:
                u = self.rand_dir(2)
                axes = (u, (-u[1], u[0]))
            node = None
            for ax in axes:
                hw = r.uniform(0.4, 1.5)
                c0 = sum(p * q for p, q in zip(ax, ctr))
                for sgn in (1.0, -1.0):
                    n = tuple(sgn * t for t in ax)
                    hp = self.lin(n, sgn * c0 + hw)
                    node = hp if node is None else self.bi("max", node, hp)
            return node
        # convex polygon / polytope: intersection of k half spaces at distance `size`-ish from ctr
        k = r.randint(3, 6) if d == 2 else r.randint(4, 8)
        node = self.bi("sub", self.dist(ctr), self.c(size * 1.3))   # keeps it bounded
        for _ in range(k):
            n = self.rand_dir(d)
            c0 = sum(p * q for p, q in zip(n, ctr))
            node = self.bi("max", node, self.lin(n, c0 + r.uniform(0.4, 1.0) * size))
        return node

    def halfspace(self):
        d = 3 if self.three_d else 2
        n = self.rand_dir(d)
        self.prims.append("half")
        return self.lin(n, self.rng.uniform(-1.5, 1.5))

    def solid(self, depth):
        r = self.rng
        if depth == 0 or r.random() < 0.25:
            return self.primitive()
        op = r.choice(["union", "union", "inter", "diff", "diff", "cut", "offset", "shell"])
        a = self.solid(depth - 1)
        if op == "union":
            return self.bi("min", a, self.solid(depth - 1))
        if op == "inter":
            return self.bi("max", a, self.solid(depth - 1))
        if op == "diff":
            return self.bi("max", a, self.un("neg", self.solid(depth - 1)))
        if op == "cut":
            h = self.halfspace()
            return self.bi("max", a, h if r.random() < 0.5 else self.un("neg", h))
        if op == "offset":
            return self.bi("sub", a, self.c(r.uniform(-0.15, 0.25)))
        # shell of thickness t:  max(f, -(f + t))
        t = r.uniform(0.2, 0.5)
        return self.bi("max", a, self.un("neg", self.bi("add", a, self.c(t))))


def solid_case(rng, tier):
    three_d = rng.random() < 0.4
    s = Solid(rng, three_d)
    root = s.solid(rng.choice([0, 1, 2, 2, 3, 3]))
    # everything generated lies in the ball of radius 1.2*sqrt(3) + 1.5*sqrt(3) + 3*0.25 < 5.5; the region
    # border is at distance >= 6.1 from the origin -> strictly inside with margin (re-checked on `bpt`)
    half = rng.choice([6.5, 6.5, 7.0, 8.0])
    if rng.random() < 0.3:
        ox, oy = 0.0, 0.0
    else:
        ox, oy = rng.uniform(-0.4, 0.4), rng.uniform(-0.4, 0.4)
    lo = (ox - half, oy - half)
    hi = (ox + half, oy + half)
    if rng.random() < 0.15:       # non-square region: cells are rectangles
        hi = (hi[0] + rng.uniform(0.5, 4.0), hi[1])
    z = rng.uniform(-1.0, 1.0) if three_d else 0.0
    feats = [0.5, 0.3, 0.25, 0.2, 0.125, 0.1] if tier == "quick" else [1.0, 0.5, 0.3, 0.25, 0.2, 0.125, 0.1, 0.0625, 0.04]
    min_feature = rng.choice(feats)
    max_err = rng.choice([1e-8, 1e-8, 1e-8, -1.0, 1e-6])
    workers = rng.choice([1, 2, 3, 4, 6, 8, 8, 11, 16])
    return {"three_d": three_d, "lines": list(s.g.lines), "root": root, "lo": lo, "hi": hi, "z": z,
            "min_feature": min_feature, "max_err": max_err, "workers": workers, "prims": s.prims,
            "nodes": s.g.next}


def solid_lines(cid, case, rng, npts):
    out = ["case %s" % cid] + case["lines"]
    lo, hi = case["lo"], case["hi"]
    out.append("render %d %r %r %r %r %r %r %r %d" % (case["root"], lo[0], lo[1], hi[0], hi[1], case["z"],
                                                     case["min_feature"], case["max_err"], case["workers"]))
    # border samples (shape must stay strictly inside the region)
    nb = 24
    for k in range(nb):
        t = k / nb
        for (x, y) in ((lo[0] + t * (hi[0] - lo[0]), lo[1]), (hi[0], lo[1] + t * (hi[1] - lo[1])),
                       (hi[0] - t * (hi[0] - lo[0]), hi[1]), (lo[0], hi[1] - t * (hi[1] - lo[1]))):
            out.append("bpt %r %r" % (x, y))
    # interior samples: jittered grid over the part of the region where the shape can be, plus random
    g = int(math.sqrt(npts / 2))
    for _ in range(npts - g * g):      # denser where the primitives are centred
        out.append("pt %r %r" % (rng.uniform(-2.6, 2.6), rng.uniform(-2.6, 2.6)))
    for i in range(g):
        for j in range(g):
            x = -5.5 + 11 * (i + rng.random()) / g
            y = -5.5 + 11 * (j + rng.random()) / g
            out.append("pt %r %r" % (x, y))
    out.append("end")
    return out
