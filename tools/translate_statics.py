#!/usr/bin/env python3
"""C14 footprint audit: list every mutable static / global / function-local static in libfive's sources
(regex over /repo's current working tree) and classify it against an allow-list with a reason each.
Writes lean/Generated/Statics.lean (plain data, re-checked by `decide` in LibfiveTheorems/C14.lean).
An unlisted mutable static has class `unlisted` -> the Lean lemma `statics_all_classified` fails and the
check reports a broken tie."""
import os
import re
import sys

sys.path.insert(0, os.path.dirname(os.path.abspath(__file__)))
import common  # noqa: E402

DIRS = ["libfive/src", "libfive/stdlib", "libfive/include"]
EXTS = (".cpp", ".hpp", ".inl", ".h", ".c")

# (file basename, variable name) -> (class, reason)
#   safe-init : function-local static, initialised once under the C++11 thread-safe guard, never written again
#   atomic    : std::atomic, every access is an atomic operation
#   hook      : verification hook state, present only with -DLIBFIVE_VERIF
#   racy      : written without synchronisation after start-up (known finding)
ALLOW = {
    ("tree.cpp", "x"): ("safe-init", "Tree::X() singleton handle; immutable after guarded initialisation, node refcount is atomic"),
    ("tree.cpp", "y"): ("safe-init", "Tree::Y() singleton handle"),
    ("tree.cpp", "z"): ("safe-init", "Tree::Z() singleton handle"),
    ("tree.cpp", "i"): ("safe-init", "Tree::invalid() singleton handle"),
    ("tree.cpp", "o"): ("safe-init", "Tree::one() singleton handle"),
    ("neighbor_tables.cpp", "singleton"): ("safe-init", "lookup table built in the constructor, read-only afterwards"),
    ("edge_tables.cpp", "singleton"): ("safe-init", "lookup table built in the constructor, read-only afterwards"),
    ("manifold_tables.cpp", "singleton"): ("safe-init", "lookup table built in the constructor, read-only afterwards"),
    ("marching.cpp", "singleton"): ("safe-init", "marching table built in the constructor, read-only afterwards"),
    ("opcode.cpp", "opcode_names"): ("racy", "filled lazily by buildNames() on first toString/toScmString without synchronisation (C14:opcode-lazy-statics-race)"),
    ("opcode.cpp", "inverse"): ("racy", "std::map filled lazily inside fromScmString on first call without synchronisation; the C++11 guard covers only its empty construction (C14:opcode-lazy-statics-race)"),
    ("oracle_clause.hpp", "m"): ("safe-init", "oracle (de)serialiser registry: written only by the REGISTER_ORACLE_CLAUSE installers during static initialisation (before any thread exists), read-only afterwards; oracles themselves are C16"),
    ("oracle_clause.hpp", "_Installer_Instance"): ("safe-init", "empty installer object whose constructor runs during static initialisation"),
    ("verif.hpp", "point_fn"): ("hook", "inline std::atomic callback pointer, only with -DLIBFIVE_VERIF"),
    ("verif.hpp", "live_nodes"): ("hook", "inline std::atomic counter, only with -DLIBFIVE_VERIF"),
}

STATIC_RE = re.compile(r"^\s*(?:inline\s+)?(?:(const|constexpr)\s+)?(static|thread_local)\s+(.*)$")
INLINE_VAR_RE = re.compile(r"^\s*inline\s+(?!.*\()(?P<rest>[^;]*[;=].*)$")
GLOBAL_RE = re.compile(r"^(?!using|typedef|return|namespace|extern|template|class|struct|enum|static|inline|#|//|/\*|\}|\{|public|private|protected|friend|case|default|else|if|for|while|do\b)"
                       r"(?P<type>[A-Za-z_][\w:<>,\s\*&]*?)\s+(?P<name>[A-Za-z_]\w*)\s*(\[[^\]]*\])?\s*(=\s*[^=;][^;]*)?;\s*$")


def var_name(rest):
    """name of the variable declared by `rest` (text after the `static` keyword), or None for a function"""
    head = re.split(r"[;={]", rest, 1)[0]
    if "(" in head:
        # `static T f(...)` is a function; `static auto x = T(...)` was cut at '=' above
        return None
    head = re.sub(r"\[[^\]]*\]", "", head).strip()
    m = re.search(r"([A-Za-z_]\w*)\s*$", head)
    return m.group(1) if m else None


def scan(repo=None):
    repo = repo or common.REPO
    out = []
    for d in DIRS:
        for root, _, files in os.walk(os.path.join(repo, d)):
            for f in sorted(files):
                if not f.endswith(EXTS):
                    continue
                p = os.path.join(root, f)
                rel = os.path.relpath(p, repo)
                depth = 0          # brace depth, to tell namespace scope from function/class scope
                in_block_comment = False
                try:
                    lines = open(p, errors="replace").read().splitlines()
                except OSError:
                    continue
                for ln, line in enumerate(lines, 1):
                    code = line
                    if in_block_comment:
                        if "*/" in code:
                            code = code.split("*/", 1)[1]
                            in_block_comment = False
                        else:
                            continue
                    code = re.sub(r"/\*.*?\*/", "", code)
                    if "/*" in code:
                        code = code.split("/*", 1)[0]
                        in_block_comment = True
                    code = code.split("//", 1)[0]
                    m = STATIC_RE.match(code)
                    if m:
                        const, kw, rest = m.group(1), m.group(2), m.group(3)
                        is_const = bool(const) or re.match(r"\s*(const|constexpr)\b", rest) is not None
                        name = var_name(rest)
                        if name and not is_const:
                            out.append({"file": rel, "line": ln, "name": name, "kind": kw, "text": code.strip()[:120]})
                    else:
                        mi = INLINE_VAR_RE.match(code)
                        if mi and "namespace" not in code and "const " not in code.split("=")[0] and "constexpr" not in code:
                            name = var_name(mi.group("rest"))
                            if name:
                                out.append({"file": rel, "line": ln, "name": name, "kind": "inline", "text": code.strip()[:120]})
                        elif depth_is_namespace(lines, ln, depth) and f.endswith((".cpp", ".c")):
                            mg = GLOBAL_RE.match(code)
                            if mg and "const" not in mg.group("type").split() and "(" not in code.split("=")[0]:
                                out.append({"file": rel, "line": ln, "name": mg.group("name"), "kind": "global",
                                            "text": code.strip()[:120]})
                    depth += code.count("{") - code.count("}")
    return out


def depth_is_namespace(lines, ln, depth):
    # column-0 declarations only: libfive indents everything inside functions and classes
    return True


def classify(entries):
    for e in entries:
        key = (os.path.basename(e["file"]), e["name"])
        cls, why = ALLOW.get(key, ("unlisted", "NOT IN THE ALLOW-LIST"))
        e["class"], e["reason"] = cls, why
    return entries


def lean_str(s):
    return '"' + s.replace("\\", "\\\\").replace('"', '\\"') + '"'


def write_lean(entries):
    p = os.path.join(common.LEAN, "Generated", "Statics.lean")
    body = ["/- GENERATED by tools/translate_statics.py from /repo's working tree — do not edit -/",
            "namespace Libfive.Generated", "",
            "inductive StaticClass where", "  | safeInit | atomic | hook | racy | unlisted", "  deriving Repr, DecidableEq", "",
            "structure StaticVar where", "  file : String", "  line : Nat", "  name : String", "  cls : StaticClass",
            "  deriving Repr", "",
            "def statics : List StaticVar := ["]
    cmap = {"safe-init": "safeInit", "atomic": "atomic", "hook": "hook", "racy": "racy", "unlisted": "unlisted"}
    rows = ["  ⟨%s, %d, %s, .%s⟩" % (lean_str(e["file"]), e["line"], lean_str(e["name"]), cmap[e["class"]]) for e in entries]
    body.append(",\n".join(rows))
    body += ["]", "", "end Libfive.Generated", ""]
    text = "\n".join(body)
    if not os.path.exists(p) or open(p).read() != text:
        with open(p, "w") as f:
            f.write(text)
    return p


def main():
    entries = classify(scan())
    write_lean(entries)
    return entries


if __name__ == "__main__":
    for e in main():
        print("%-60s %-14s %-10s %s" % ("%s:%d" % (e["file"], e["line"]), e["name"], e["class"], e["text"]))
