#!/usr/bin/env python3
"""Run libfive's own test suite on a build of /repo's working tree with the verification guard
OFF (the ordinary /repo/_build), and compare with /root/.vp/BASELINE.json's stable_pass list.
Exit 0 iff every baseline-stable test still passes."""
import json
import os
import subprocess
import sys
import xml.etree.ElementTree as ET

REPO = "/repo"
BUILD = os.path.join(REPO, "_build")


def main():
    if not os.path.exists(os.path.join(BUILD, "build.ninja")):
        subprocess.check_call(["cmake", "-G", "Ninja", "-S", REPO, "-B", BUILD])
    subprocess.check_call(["ninja", "-C", BUILD, "libfive-test"], stdout=subprocess.DEVNULL)
    out = "/tmp/libfive-baseline-junit.xml"
    subprocess.run(["./libfive-test", "-r", "junit", "-o", out], cwd=os.path.join(BUILD, "libfive/test"),
                   stdout=subprocess.DEVNULL, stderr=subprocess.DEVNULL)
    root = ET.parse(out).getroot()
    status = {}
    for tc in root.iter("testcase"):
        cls = tc.get("classname", "")
        name = tc.get("name", "")
        full = "%s::%s" % (cls, name) if cls else name
        bad = any(ch.tag in ("failure", "error") for ch in tc)
        status[full] = status.get(full, True) and not bad
    base = json.load(open("/root/.vp/BASELINE.json"))["stable_pass"]
    missing, failed = [], []
    for t in base:
        key = t
        if key not in status:
            # junit names: "libfive-test.global::<test>/<section>"; tolerate prefix differences
            cands = [k for k in status if k.endswith(t.split("::", 1)[1])]
            if not cands:
                missing.append(t)
                continue
            key = cands[0]
        if not status[key]:
            failed.append(t)
    print("baseline tests: %d, passed: %d, failed: %d, missing: %d" %
          (len(base), len(base) - len(failed) - len(missing), len(failed), len(missing)))
    for t in failed:
        print("FAILED", t)
    for t in missing[:20]:
        print("MISSING", t)
    os.remove(out)
    sys.exit(1 if failed or missing else 0)


if __name__ == "__main__":
    main()
