#!/usr/bin/env python3
"""Markdown table of the seeded-defect campaign from seeded/*/{meta,confirm,detection}.json"""
import json, os, sys
V = os.path.dirname(os.path.dirname(os.path.abspath(__file__)))
rows = []
for d in sorted(os.listdir(os.path.join(V, "seeded"))):
    p = os.path.join(V, "seeded", d)
    if not os.path.isdir(p):
        continue
    def load(n):
        f = os.path.join(p, n)
        return json.load(open(f)) if os.path.exists(f) else {}
    meta, conf, det = load("meta.json"), load("confirm.json") if os.path.exists(os.path.join(p, "confirm.json")) and open(os.path.join(p, "confirm.json")).read().lstrip().startswith("{") else {}, load("detection.json")
    files = ", ".join(os.path.basename(f) for f in meta.get("files_changed", []))[:60]
    res = []
    for tier, runs in det.items():
        by = {}
        for k, v in runs.items():
            prop = k.split("/")[0]
            by.setdefault(prop, []).append(v)
        for prop, vs in sorted(by.items()):
            caught = sum(1 for v in vs if v["violations"] > 0)
            noinp = all(v["violations"] == v.get("no_input", 0) for v in vs if v["violations"] > 0) and caught > 0
            res.append("%s %d/%d%s" % (prop, caught, len(vs), " (no-failing-input-found)" if noinp else ""))
    need = (meta.get("needs_to_manifest") or "")
    need = need.replace("\n", " ").replace("|", "/")
    rows.append("| %s | %s | %s | %s | %s |" % (d, files, "yes" if conf.get("confirmed") else "?", "; ".join(res) or "not run", need[:230] + ("…" if len(need) > 230 else "")))
out = "\n".join(["| seeded change | file(s) | confirmed (suite passes, demo fails) | checks that caught it (runs with a violation / runs) | what it needs to manifest |",
                 "|---|---|---|---|---|"] + rows)
if "--write" in sys.argv:
    # replace the table between the markers of DESIGN.md
    f = os.path.join(V, "DESIGN.md")
    txt = open(f).read()
    a = txt.index("<!-- SEEDTABLE BEGIN")
    a = txt.index("\n", a) + 1
    b = txt.index("<!-- SEEDTABLE END -->")
    open(f, "w").write(txt[:a] + out + "\n" + txt[b:])
    print("DESIGN.md: %d rows" % len(rows))
else:
    print(out)
