"""Seeded generator for the C09 correspondence run: shapes (tree programs), bounds, resolutions,
worker counts.  Emits program lines for harness/heightmap.cpp."""
import gen
from gen import f32, f2hex


class B:
    """tiny tree-program builder"""

    def __init__(self):
        self.lines = []
        self.n = 0

    def _e(self, *desc):
        i = self.n
        self.n += 1
        self.lines.append("n %d %s" % (i, " ".join(str(d) for d in desc)))
        return i

    def x(self): return self._e("x")
    def y(self): return self._e("y")
    def z(self): return self._e("z")
    def c(self, v): return self._e("const", f2hex(f32(v)))
    def un(self, op, a): return self._e("un", op, a)
    def bi(self, op, a, b): return self._e("bin", op, a, b)

    def affine(self, a, s, t):
        """s*a + t"""
        return self.bi("add", self.bi("mul", self.c(s), a), self.c(t))


def shape_named(rng, name, b):
    """returns root id; shapes live roughly in [-3,3]^3"""
    X, Y, Z = b.x(), b.y(), b.z()
    r = rng.uniform(0.4, 2.5)
    cx, cy, cz = (rng.uniform(-1.5, 1.5) for _ in range(3))
    dx = b.bi("sub", X, b.c(cx))
    dy = b.bi("sub", Y, b.c(cy))
    dz = b.bi("sub", Z, b.c(cz))
    if name == "sphere":
        s = b.bi("add", b.bi("add", b.un("square", dx), b.un("square", dy)), b.un("square", dz))
        return b.bi("sub", b.un("sqrt", s), b.c(r))
    if name == "circle2d":
        s = b.bi("add", b.un("square", dx), b.un("square", dy))
        return b.bi("sub", b.un("sqrt", s), b.c(r))
    if name == "box":
        hx, hy, hz = (rng.uniform(0.2, 2.0) for _ in range(3))
        m = b.bi("max", b.bi("sub", b.un("abs", dx), b.c(hx)), b.bi("sub", b.un("abs", dy), b.c(hy)))
        return b.bi("max", m, b.bi("sub", b.un("abs", dz), b.c(hz)))
    if name == "torus":
        q = b.bi("sub", b.un("sqrt", b.bi("add", b.un("square", dx), b.un("square", dy))), b.c(r))
        return b.bi("sub", b.un("sqrt", b.bi("add", b.un("square", q), b.un("square", dz))), b.c(rng.uniform(0.1, 0.6)))
    if name == "plate":        # thin feature: |z - c| - t, thinner than a voxel more often than not
        return b.bi("sub", b.un("abs", dz), b.c(rng.choice([0.01, 0.05, 0.2, 0.5])))
    if name == "rod":          # thin vertical / horizontal rod
        a, c = rng.choice([(dx, dy), (dx, dz), (dy, dz)])
        return b.bi("sub", b.un("sqrt", b.bi("add", b.un("square", a), b.un("square", c))), b.c(rng.choice([0.02, 0.1, 0.3])))
    if name == "empty":
        return b.bi("add", b.un("square", X), b.c(rng.choice([1.0, 0.001])))
    if name == "full":
        return b.bi("sub", b.un("neg", b.un("square", Y)), b.c(rng.choice([1.0, 0.001])))
    if name == "zero":         # f == 0 everywhere: nothing is inside (strict <)
        return b.bi("sub", X, X)
    if name == "halfspace":
        return b.bi("add", b.bi("add", b.bi("mul", b.c(rng.uniform(-1, 1)), X), b.bi("mul", b.c(rng.uniform(-1, 1)), Y)),
                    b.bi("add", b.bi("mul", b.c(rng.uniform(-1, 1)), Z), b.c(rng.uniform(-1, 1))))
    if name == "steps":        # terraces: height depends on x,y blocks
        return b.bi("sub", Z, b.bi("min", b.bi("max", X, Y), b.c(rng.uniform(-1, 2))))
    if name == "csg":
        s1 = b.bi("sub", b.un("sqrt", b.bi("add", b.bi("add", b.un("square", dx), b.un("square", dy)), b.un("square", dz))), b.c(r))
        s2 = b.bi("sub", b.un("sqrt", b.bi("add", b.bi("add", b.un("square", X), b.un("square", Y)), b.un("square", Z))), b.c(rng.uniform(0.5, 2)))
        op = rng.choice(["min", "max", "diff"])
        if op == "diff":
            return b.bi("max", s1, b.un("neg", s2))
        return b.bi(op, s1, s2)
    raise KeyError(name)


def shape_nan(rng, name, b):
    """shapes whose value is NaN on part of the grid (sqrt/log of sign-changing arguments)"""
    X, Y, Z = b.x(), b.y(), b.z()
    a = rng.choice([X, Y, Z])
    t = rng.uniform(-2, 2)
    arg = b.bi("sub", a, b.c(t)) if rng.random() < 0.7 else b.bi("add", b.bi("mul", X, Y), b.c(t))
    if name == "sqrt-minus":      # sqrt(arg) - c : negative where 0 <= arg < c^2, NaN where arg < 0
        return b.bi("sub", b.un("sqrt", arg), b.c(rng.choice([10.0, 1.0, 2.5])))
    if name == "log-minus":       # log(arg) - c
        return b.bi("sub", b.un("log", arg), b.c(rng.choice([10.0, 2.0])))
    if name == "neg-sqrt":        # -sqrt(arg) - c : negative wherever defined
        return b.bi("sub", b.un("neg", b.un("sqrt", arg)), b.c(rng.choice([0.5, 3.0])))
    if name == "sqrt-csg":        # min(sphere, sqrt(arg) - c)
        s = b.bi("sub", b.un("sqrt", b.bi("add", b.bi("add", b.un("square", X), b.un("square", Y)), b.un("square", Z))), b.c(1.5))
        return b.bi(rng.choice(["min", "max"]), s, b.bi("sub", b.un("sqrt", arg), b.c(10.0)))
    if name == "sqrt-pos":        # sqrt(arg) + c : never negative; NaN region harmless
        return b.bi("add", b.un("sqrt", arg), b.c(1.0))
    raise KeyError(name)


NAMED = ["sphere", "circle2d", "box", "torus", "plate", "rod", "empty", "full", "zero", "halfspace", "steps", "csg"]
NANS = ["sqrt-minus", "log-minus", "neg-sqrt", "sqrt-csg", "sqrt-pos"]

# operators for random trees.  Until the C02 flag fixes (nth-root parity, mod, compare, recip/pow over 0, sin/cos/tan
# of infinite operands, inf-inf, NaN bounds) these were restricted to neg/abs/square/sqrt/log and add/sub/mul/min/max;
# now every opcode the renderer can meet is drawn.
RAND_UNARY = ["neg", "abs", "square", "sqrt"]
RAND_BINARY = ["add", "sub", "mul", "min", "max"]
WIDE_UNARY = gen.UNARY_EXACT + gen.UNARY_TRANS                      # + recip sin cos tan asin acos atan exp log
WIDE_BINARY = gen.BINARY_EXACT + gen.BINARY_OTHER                   # + div atan2 pow nth-root mod nanfill compare


def shape_wide_named(rng, name, b):
    """hand shapes around the opcodes whose interval flags were repaired"""
    X, Y, Z = b.x(), b.y(), b.z()
    a = rng.choice([X, Y, Z])
    t = rng.uniform(-1.5, 1.5)
    arg = b.bi("sub", a, b.c(t))
    if name == "recip":            # 1/(a-t) - c : pole inside the grid
        return b.bi("sub", b.un("recip", arg), b.c(rng.choice([1.0, -1.0, 4.0])))
    if name == "div":              # z / (a-t) - c
        return b.bi("sub", b.bi("div", Z, arg), b.c(rng.choice([0.5, -0.5, 2.0])))
    if name == "div-zero-zero":    # (a-t)/(a-t) - 2 : 0/0 = NaN on one plane of voxel centres at most, else -1
        return b.bi("sub", b.bi("div", arg, arg), b.c(2.0))
    if name == "mod":              # repeating slabs: mod(a, p) - p/2
        per = rng.choice([0.5, 1.0, 1.5, -1.0])
        return b.bi("sub", b.bi("mod", a, b.c(per)), b.c(per / 2))
    if name == "mod-z":            # z - mod(x, 1): sawtooth terrain
        return b.bi("sub", Z, b.bi("mod", X, b.c(rng.choice([1.0, 0.7, 2.0]))))
    if name == "compare":          # compare(a, t) * r + z : step of height r
        return b.bi("add", b.bi("mul", b.bi("compare", a, b.c(t)), b.c(rng.uniform(0.2, 1.5))), Z)
    if name == "compare-nan":      # compare(sqrt(arg), c) - 0.5 : NaN operand
        return b.bi("sub", b.bi("compare", b.un("sqrt", arg), b.c(1.0)), b.c(0.5))
    if name == "pow-neg":          # (a-t)^-2 - c : pole
        return b.bi("sub", b.bi("pow", arg, b.c(float(rng.choice([-1, -2])))), b.c(rng.choice([1.0, 4.0])))
    if name == "pow":              # z - (x-t)^k
        return b.bi("sub", Z, b.bi("pow", b.bi("sub", X, b.c(t)), b.c(float(rng.choice([2, 3, 4])))))
    if name == "nth-root":         # nth-root(a-t, k) - c : NaN for even k on the negative side
        return b.bi("sub", b.bi("nth-root", arg, b.c(float(rng.choice([2, 3, 4, 5])))), b.c(rng.choice([0.5, 1.0, 10.0])))
    if name == "trig":             # z - sin(2x)*cos(3y)
        return b.bi("sub", Z, b.bi("mul", b.un("sin", b.bi("mul", b.c(2.0), X)), b.un("cos", b.bi("mul", b.c(3.0), Y))))
    if name == "tan":              # tan(a) - z : poles
        return b.bi("sub", b.un("tan", a), Z)
    if name == "asin":             # asin / acos outside [-1,1] is NaN
        return b.bi("sub", b.un(rng.choice(["asin", "acos"]), arg), b.c(rng.choice([0.5, 1.0, 3.0])))
    if name == "atan2":            # angular wedge
        return b.bi("sub", b.un("abs", b.bi("atan2", Y, X)), b.c(rng.uniform(0.3, 2.5)))
    if name == "exp-log":          # log(exp(a) - 1) - c : NaN / -inf region
        return b.bi("sub", b.un("log", b.bi("sub", b.un("exp", a), b.c(1.0))), b.c(rng.choice([0.0, -1.0, 5.0])))
    if name == "exp-big":          # exp(40 a) - exp(40 b) - 1 : overflow to inf - inf
        c = rng.choice([x for x in (X, Y, Z) if x != a])
        return b.bi("sub", b.bi("sub", b.un("exp", b.bi("mul", b.c(40.0), a)), b.un("exp", b.bi("mul", b.c(40.0), c))), b.c(1.0))
    if name == "nanfill":          # nanfill(sqrt(arg) - 10, z)
        return b.bi("nanfill", b.bi("sub", b.un("sqrt", arg), b.c(10.0)), Z)
    raise KeyError(name)


WIDE = ["recip", "div", "div-zero-zero", "mod", "mod-z", "compare", "compare-nan", "pow-neg", "pow", "nth-root", "trig",
        "tan", "asin", "atan2", "exp-log", "exp-big", "nanfill"]


def shape_random(rng, b_unused=None):
    style = rng.choice(["csg", "arith", "nan", "wide", "wide", "wide-csg"])
    un = list(RAND_UNARY)
    bi = list(RAND_BINARY)
    if style == "nan":
        un += ["sqrt", "log"]
    if style.startswith("wide"):
        un, bi = list(WIDE_UNARY), list(WIDE_BINARY)
    g = gen.TreeGen(rng, size=rng.randint(4, 16), unary=un, binary=bi,
                    p_minmax=0.45 if style.endswith("csg") else 0.2, consts="mixed")
    root = g.build()
    return g.lines, root, "rand-" + style, g.hist


def pick_grid(rng, tier, kind):
    """bounds, per-axis resolution, scalar-ctor flag.  Sizes: odd, single-voxel axes, zero-height Z."""
    max_vox = 40000 if tier == "quick" else 150000
    while True:
        mode = rng.choice(["cube", "aniso", "aniso", "flat", "2d", "single"])
        lo, hi, target = [], [], []
        for a in range(3):
            c = rng.uniform(-1, 1)
            e = rng.choice([rng.uniform(0.5, 8), rng.choice([1.0, 2.0, 4.0, 8.0])])
            lo.append(f32(c - e / 2))
            hi.append(f32(c + e / 2))
            target.append(rng.choice([rng.randint(1, 12), rng.randint(8, 48), rng.choice([1, 2, 3, 7, 17, 31, 33])]))
        if mode == "cube":
            n = rng.randint(3, 34)
            target = [n, n, n]
        if mode == "2d":                       # zero-height Z
            z = f32(rng.choice([0.0, rng.uniform(-1, 1)]))
            lo[2] = hi[2] = z
            target[2] = 1
            target[0] = rng.randint(8, 120)
            target[1] = rng.randint(8, 120)
        if mode == "flat":
            target[2] = rng.choice([1, 2, 3])
            target[0] = rng.randint(10, 90)
            target[1] = rng.randint(10, 90)
        if mode == "single":
            target[rng.randrange(3)] = 1
        scalar = rng.random() < 0.35
        res = []
        for a in range(3):
            ext = f32(hi[a] - lo[a])
            if ext <= 0:
                res.append(f32(rng.choice([1.0, 10.0, 0.5])))
            else:
                u = rng.choice([0.0, rng.uniform(0.05, 0.95)])      # u = 0: product lands on an integer
                res.append(f32(max(target[a] - u, 0.05) / ext))
        if scalar:
            res = [res[0]] * 3
        if rng.random() < 0.04:
            res[rng.randrange(3)] = 0.0          # resolution zero on one axis (masked in Voxels::Voxels)
            if scalar:
                res = [res[0]] * 3
        sizes, prods = [], []
        for a in range(3):
            p = f32(f32(res[a]) * f32(hi[a] - lo[a]))
            prods.append(p)
            import math
            sizes.append(max(1, math.ceil(p)))
        vox = sizes[0] * sizes[1] * sizes[2]
        if vox <= max_vox and max(sizes) <= 160:
            return lo, hi, res, scalar, prods, sizes


def workers_for(rng, tier):
    if tier == "quick":
        ws = {1, rng.randint(2, 16), rng.choice([2, 3, 4, 8, 16])}
        return sorted(ws)
    return list(range(1, 17))


def gen_cases(rng, n, tier):
    """returns (lines, meta)"""
    lines, meta = [], []
    # deterministic head: the DESIGN §7 probe  sqrt(x) - 10  on [-4,4]^3, res 2  (16^3 voxels)
    fixed = [("sqrt-x-minus-10", None)]
    for k in range(n):
        if k < len(fixed):
            b = B()
            X = b.x()
            root = b.bi("sub", b.un("sqrt", X), b.c(10.0))
            tl, name, hist = b.lines, fixed[k][0], {}
            lo, hi, res, scalar = [-4.0] * 3, [4.0] * 3, [2.0] * 3, True
            prods, sizes = [16.0] * 3, [16] * 3
            ws = [1, 4] if tier == "quick" else list(range(1, 17))
        else:
            u = rng.random()
            if u < 0.38:
                b = B()
                name = rng.choice(NAMED)
                root = shape_named(rng, name, b)
                tl, hist = b.lines, {}
            elif u < 0.58:
                b = B()
                name = rng.choice(NANS)
                root = shape_nan(rng, name, b)
                tl, hist = b.lines, {}
            elif u < 0.72:
                b = B()
                name = rng.choice(WIDE)
                root = shape_wide_named(rng, name, b)
                tl, hist = b.lines, {}
            else:
                tl, root, name, hist = shape_random(rng)
            lo, hi, res, scalar, prods, sizes = pick_grid(rng, tier, name)
            ws = workers_for(rng, tier)
        lines.append("case %d" % k)
        lines += tl
        lines.append("root %d" % root)
        lines.append("vox %s %s %s %d %s" % (gen.pt_hex(lo), gen.pt_hex(hi), gen.pt_hex(res), 1 if scalar else 0,
                                             gen.pt_hex(prods)))
        lines.append("workers " + " ".join(str(w) for w in ws))
        lines.append("end")
        meta.append({"case": k, "shape": name, "sizes": sizes, "workers": ws, "scalar_ctor": scalar,
                     "lo": lo, "hi": hi, "res": res, "hist": hist})
    return lines, meta
