#!/usr/bin/env python3
"""Regenerate MANIFEST.json from the table below (kept here so the manifest stays consistent)."""
import json
import os
import subprocess

V = os.path.dirname(os.path.dirname(os.path.abspath(__file__)))
TB = ("Trusted: Lean 4.33 kernel; axioms propext / Classical.choice / Quot.sound only (audited every run; no sorry, "
      "native_decide, bv_decide, extra axioms); the C++ harness and the Lean line-protocol driver of this property. ")

CLAIMS = {
 "C01": ("Theorems: a tape denotes the expression it decompiles to (any interpretation), batched evaluation is slot-wise and independent of other slots, construction-time folding is sound; with C07's rewriting theorems this chains expression -> optimised expression -> tape -> every slot of every batch. Tie per run: the real Deck's tape is well-formed and decompiles to the real optimised tree (AC-canonical equality); oracle: real single and batched values (sizes 1..256, every slot) vs a double-precision reference of the unrewritten expression within a forward single-precision error bound.",
         "Not modelled: float rounding inside kernels, Eigen's vector transcendental kernels (error-bound constants are trusted).",
         "Lean 4 proof (tape/expression refinement) + decompilation of real tapes + bounded-error reference evaluation"),
 "C02": ("Theorems over any linearly ordered floor-field with explicit NaN/±inf: per-opcode enclosure (op_enclosure) for all 25 value opcodes given Boost's primitive contracts, lifted to whole tapes by induction (tape_enclosure, state_sound); for opcodes whose flag logic is incomplete the missing hypothesis is spelled out (SafeArgs) and the negation is proved with a concrete witness. Tie: exhaustive landmark-endpoint grid (~4.7e5 cases) through the real IntervalEvaluator vs the model's flag/case logic, exactly; oracle: ~2e7 sampled points per run inside the operand intervals through the real ArrayEvaluator.",
         "Boost.Interval's outward rounding and transcendental enclosures are assumed as hypotheses (BoostSound); Eigen kernel ulp slack is empirical.",
         "Lean 4 proof (flag completeness per opcode + tape induction) + exhaustive order-type correspondence"),
 "C03": ('Proved: complete-table lemmas by kernel decide over tables regenerated from the mesher sources and the running library, the lifting theorems marching_closed (closed, consistently oriented) and marching_manifold (each directed side at most once) for ANY oriented tet complex satisfying the face-matching hypothesis (H) with distinct vertices / tet vertex sets, dc_quad_boundary, marching_no_repeated_vertex, collect_children_once. Tie: every tet / quad the real meshers march is dumped through hooks; the model re-marches them and must reproduce the real triangles; (H) and the side hypotheses are checked on the dumped complex. Oracle: directed-edge pairing, repeated vertices, index validity on the real meshes.',
         'Hypothesis (H) is PROVED for every uniform simplex grid (grid_hypH ... grid_marching_closed_manifold); for the adaptive octree (mixed levels, collapsed cells) it is validated per run on the dumped complex; interleavings are sampled (workers 1..16).',
         'Lean 4 proof (table lemmas by decide + double-counting lifting theorems) over tables regenerated from source + tet/quad trace replay'),
 "C04": ("Theorems: tet_triangle_outward (decide over all masks), search_bracket / search_finds_zero (edge search brackets a zero to L/50625 by the intermediate value theorem, constants regenerated from source), vertex_in_region (convexity), winding_partial (combinatorial part). Oracle on real meshes: winding number by solid angle at points with |f| > k*min_feature, vertices inside the region and within k' * min_feature of the level set, all three algorithms, with and without VolTree.",
         "The geometric winding-number and distance clauses are oracle-only (float geometry); DC vertex placement is not derived.",
         "Lean 4 proof (IVT bracket, table orientation lemma) + geometric oracle on rendered meshes"),
 "C05": ("Theorems push_sound, push_wf, nested_push_sound, push_sound_on, pointKeep_sound, intervalKeep_sound, interval_push_sound (interval evaluation + push agrees with the full tape at EVERY point of the box, joining C02's tape enclosure with the push invariant; keep function mirrors the repaired IntervalEvaluator::push), getBase_sound over the model of Tape::push/getBase for every tape, keep function and environment. Tie: every tape the real evaluators produce in the run is re-derived by the model from the real slot values, bounds and maybe-NaN flags (clause-by-clause equality); WF and keep-soundness hypotheses are checked on the real data; exact tapes are re-evaluated at Float32. Oracle: bit-identity of specialised vs full evaluation.",
         "Not modelled: oracle contexts in push (C16), float kernels (bit-identity observed only); Boost's primitive contracts are hypotheses of interval_push_sound.",
         "Lean 4 proof (invariant of the two loops of Tape::push; enclosure => keep soundness) + replay of real tapes through the model"),
 "C06": ("Theorems over the reals (Mathlib): kernel_hasDerivAt for every smooth opcode kernel of eval_deriv_array.cpp under its domain condition, tape_gradient / spatial_gradient by tape induction, jacobian_packing_bijection, jacobian_seed_unit, jacobian_gradient, constVar_kernel, feature_is_branch_gradient (for every compatibility oracle), isInside_sign. Tie: every derivative kernel of every query recomputed from the real operand values; Jacobian packing and feature walk replayed. Oracle: binary64 forward-mode reference at smooth points, batch vs single, features within the brute-force branch-gradient set.",
         "Float rounding not modelled; Feature::check geometry is an abstract oracle in the theorems.",
         "Lean 4 proof (HasDerivAt per kernel + tape induction) + per-clause kernel correspondence"),
 "C07": ("Theorems over any field with a lawful interpretation (all non-arithmetic opcodes uninterpreted): unary_sound, binary_sound (every construction-time rewrite incl. the order of the else-if chain), remap_is_composition, apply_is_lexical_substitution, flatten_sound, optimize_sound / optimized_sound (big-step model of optimized_helper's four stacks: affine collapse, commutative flattening, canonical map; for every comparison used for sorting), collapse_sound, eq_sound (eq => same denotation). Tie: programs of tree-building calls run on the real API and on the model (Tree::unary/binary/remap/apply/flatten/optimized); results compared after AC-canonicalisation; the optimiser tie alarms on the mismatch rate (model exact on ~99.5% of programs). Oracle: real values vs a reference of the unrewritten expression within a single-precision error bound; eq => equal functions; optimized idempotent.",
         "Soundness of the AC-canonicaliser used by the tie is not proved; pointer identity is modelled by structural equality; optimize idempotence is observed, not proved.",
         "Lean 4 proof (rewrite and optimiser soundness over an arbitrary field) + program-level correspondence up to AC-canonical form"),
 "C08": ("Theorems: opcodes_pinned / enum_is_table / numbering_injective / codes_below_reserved / args_pinned ... by `decide` over the table regenerated from opcode.hpp/.cpp; string_roundtrip, word_roundtrip, tree_roundtrip, archive_roundtrip_partial, roundtrip_same_denotation by induction over a byte-level model of serializer/deserializer; the failing case (named variable) is proved to fail with a concrete witness. Tie: real serialize bytes = model bytes, real deserialize = model deserialize, malformed streams rejected alike. Oracle: round trip through the real code compared bit-exactly at sample points, names, docs, bindings.",
         "Load-time rewriting by Tree::unary / Tree::binary is now inside the theorems (C08Fold: archive_roundtrip_fold_denote — same function after reload whatever was rewritten, under RewriteLaws, which are field laws: exact arithmetic with an exact folder; binary32 violates the zero laws, named in the doc comment); remap/apply trees are correspondence-only.",
         "Lean 4 proof (byte-level round trip by induction; table pinned by decide over regenerated data) + byte-exact correspondence"),
 "C09": ("Theorems: split_partitions, split_enumerates, voxels_cover_partial, recurse_eq_bruteforce, render_eq_bruteforce, render_workers_independent, regions_partition for every classifier, every sound interval oracle, every view and worker count. Tie: the model's render, fed the real per-voxel signs and the real interval answers, must equal the real depth image pixel for pixel; splits and regions compared exactly. Oracle: Heightmap::render == brute-force column scan for workers 1..16.",
         "Real threads are not modelled (independence from recurse_local + observation); float voxel positions are observed.",
         "Lean 4 proof (induction on the voxel recursion) + control-flow replay with real evaluator answers"),
 "C10": ('Proved: collect_partition (no precondition), collect_closed (in=out=1 => every polyline closed, every segment used once), and the PREMISE for every uniform grid: grid_degree_one / grid_contours_closed (any w x h grid of DC cells, any corner signs with a uniform outer ring), dual_walk_calls (the recursive dual walk visits each edge-adjacent pair exactly once); table lemmas by decide over MarchingTable<2> dumped from the running library. Tie: the real Contours::collect on hand-built and captured per-thread b-reps vs the model (exact polylines); the real DCContourer::load on all 128 mask pairs. Oracle: closedness, degrees, polygon winding, vertex distance on rendered slices.',
         'Winding / distance clauses are oracle-only; merged cells and mixed levels are outside the grid theorems (oracle only).',
         'Lean 4 proof (welding induction; degree-one premise for uniform grids; table lemmas by decide over regenerated tables) + exact replay of collect'),
 "C11": ('Model: control flow of Mesh::render (as repaired by f00be3c: cancel checked after every phase) and the worker-pool transition system. Proved: the result is none or complete for every cancellation point (render_all_or_nothing) with the pre-fix counter-trace kept; last_arriver; no_lost_task; cell_ownership; a strictly decreasing measure with explicit bounds on non-spinning steps; deadlock freedom; worker_progress in full (without cancel every execution that exhausts its non-spinning steps ends with the root collected and done set; with cancel every worker leaves at its next loop-head check). Tie: cancel raised at the k-th visit of every hook site; controlled-mode traces replayed event by event through the pool model; render outcome predicted by the control-flow model. Oracle: returns within a watchdog; a non-null result is a complete closed mesh.',
         'Fairness of the OS scheduler (busy-waiting workers) and wall-clock bounds are not modelled; worker ids are bounded by hypothesis workersBelow.',
         'Lean 4 proof (invariants, measure and deadlock freedom of the pool transition system + control-flow model) + trace refinement under cancel injection'),
 "C12": ("Theorems: bracket discipline (balanced_history, history_preserves) applied to a call table regenerated on every run from Boost.Interval's and libfive's headers (all_rounding_calls_guarded is a kernel `decide`); exhaustive observation of rounding mode / MXCSR / x87 CW over opcode x evaluator kind x operand class x initial mode.",
         "The theorem is thin by nature; the regex scanners are trusted; libm/Eigen effects on control registers are observed only.",
         "Lean 4 proof over a table regenerated from source + exhaustive observation"),
 "C15": ('Proved: values_frame, derivs_frame, interval_frame, gradient_frame, features frame (no hypothesis on scratch since fixes aa9f57c / 3ea66fb), updateVars_effect, history_independent (induction over any finite history: answers depend only on variable values and constants), core_preserved. Tie: count_simd / clear_vars / seeds predicted after every query on real histories. Oracle: one long-lived Evaluator vs a fresh one per query (same optimised tree), ~13k queries per run.',
         'Float kernels are not modelled (bit-identity is observed).',
         'Lean 4 proof (frame argument over evaluator state) + long-lived vs fresh differential'),
 "C17": ("Theorems for every scalar, evaluator, initial state, mask and budget: residual_is_value, mask_untouched, outer_bounded, absent_untouched_partial, inner_terminates_partial, and the negations with concrete witnesses (findRoot_not_total, zero_step_hang, absent_touched_nonfinite, gas_zero_iterates); fixed_inner_terminates for the proposed guard. Tie: the model at Float32 fed the real evaluator's values/gradients reproduces every trial point bit for bit and every accepted state over the first 24 iterations. Oracle: recomputed residual, masked/absent variables, watchdog.",
         "Iteration counts are inferred from a gas sweep (no hook); Laws are landmark-tested for Float32, not proved.",
         "Lean 4 proof (state-machine model with explicit non-finite values) + bit-exact trajectory replay"),
 "C18": ("54 theorems over the reals: each primitive is negative exactly on its documented set (sphere, circle, ring, rectangle, triangle, boxes, extrude, cylinder, torus, half-space, cones as actually coded), CSG = set algebra on inside-ness, transforms = documented point maps (compose), *_exact = signed Euclidean distance; the documented cone claim is refuted with a witness. Tie: every C entry point called with symbolic parameters must build the tree the Lean transcription builds (AC-canonical). Oracle: sign vs documented membership at ~6e4 points.",
         "Theorems are about symbolic-parameter trees; constant folding of float parameters is covered by the oracle only.",
         "Lean 4 proof (real-analysis statements per shape) + symbolic tree correspondence"),
 "C19": ("17 theorems: solveBounded_in_box for every inner solver and comparison semantics, unconstrained_kept, constrained_on_face, reported_error_is_qef, error_sum_of_squares / error_nonneg, accumulate_comm_assoc, reduced_system(_optimal), shrink_inside. Tie: real per-subspace candidates replayed through the model's selection logic, bit-identical choice. Oracle: exact-rational recomputation from the raw samples.",
         "Eigen's eigen-solver is abstract; float rounding is tolerance-checked only.",
         "Lean 4 proof (selection logic for arbitrary solver; QEF algebra over a field) + candidate replay"),
 "C20": ("Theorems: total_formula, ticks_eq_total (every octree shape, every interleaving), walk_ticks, reset_ticks (exact condition) and reset_ticks_defect (decide), progress_monotone, finish_idempotent. Tie: tick events and octree shape from hooks replayed; announced totals and handler counters compared. Oracle: reported values in [0,1], monotone, every phase complete; life-cycle scenarios under a watchdog.",
         "Rounded fraction (C20Rounded): monotone for EVERY monotone idempotent rounding with rnd 0 = 0, in the C++ order of operations; <= 1 and exactly 1 on completion for unit weights (what every render uses); that IEEE binary32 round-to-nearest is such a rounding is a hypothesis. For weights >= 2 the bound is false (kernel-checked witness; the real handler reports 1.00000012 for start({3}), total 2^24+1 — outside renders).",
         "Lean 4 proof (structural induction over octree shapes; state machine of the handler) + tick-trace replay"),
 "C13": ("Theorems about the refcount machine (every operation = micro-steps of the C++: refcount++, explicit-stack destructor, node construction; tree-building calls with ANY admissible outcome): reachable_inv, rc_invariant (rc n = #handles + #parent edges), no_dangling, no_undefined_behaviour, api_preserves_args, leak_free, destructor_iterative / destructor_fuel_suffices (native stack O(1) in tree depth). Tie: after every operation of seeded random sequences over the Tree value type and the C API the live-node counter, every handle's target and refcount and every live node's refcount equal the model's prediction (hook events give allocations / deletions). Oracle: live nodes return to the baseline once every handle is deleted; 3e5..1e6-node chains / fans destroyed with a 256 kB native stack; ASan/LSan run of the same sequences.",
         "Allocator and C++ temporary lifetime rules not modelled; ASan/LSan is a validator (exploration); TreeOracle nodes are exercised in C16.",
         "Lean 4 proof (invariants of the refcount transition system) + op-by-op state correspondence with the live-node hook"),
 "C14": ('Two models: the atomic-step acceptor (one seq-cst counter per node + the delete protocol of ~Tree) and a per-thread PROGRAM model (copy/destroy ops, the explicit work stack, delete) proved to refine it (prog_refines_acceptor). Proved: interleaving_confluent in full (any two complete schedules of any programs over any DAG end in the same state = the sequential one), no_use_after_free_prog, fault_free_prog, quiescent_heap, unique_deleter, deleter_is_observer, freed_untouched, statics_all_classified (decide over the list of mutable statics regenerated from the sources). Tie (R): controlled-mode traces (cooperative scheduler at the refcount hooks, seeded) replayed event by event through the acceptor; free-mode and TSan runs (shared-DAG and cold-start families) as validators. Oracle: per-thread results equal a sequential run; live-node count restored.',
         'Data-race freedom of the C++ rests on TSan exploration + the statics footprint audit, not on a proof; move/assign/release are compositions of copy/destroy on the counters.',
         'Lean 4 proof (refcount program model: confluence over all interleavings, refinement to the trace acceptor) + trace refinement under a seeded scheduler + statics audit regenerated from source'),
 "C16": ("Theorems over an abstract scalar: transformed_value / oracle_tree_value (TransformedOracle = wrapped expression composed with the coordinate maps), remap_chain, transformed_interval_sound, transformed_interval_sound_flagged (maybe-NaN coordinate ranges, the repaired evalInterval) with transformed_interval_old_unsound as witness against the previous code, transformed_interval_eq_plain, transformed_gradient / oracle_tree_gradient (chain rule as a ring identity), transformed_features, context_balanced / balanced_spec / context_forwarding (bind-push-unbind protocol), push_preserves_oracle_value, transformed_push_value. Tie: wrapped-oracle trees vs the plain remapped expression on generated inputs (values, every batch slot, intervals, gradients, Jacobian products, context traces replayed through the protocol model, nested pushes, meshes). Oracle: long-double reference with running error bound.",
         "User oracles' own answers are hypotheses; at exact min/max ties only non-emptiness of the feature list is judged; comparisons at points where a coordinate map or sub-expression is undefined are skipped and counted; per-case time budget (skipped cases counted).",
         "Lean 4 proof (composition / chain-rule identities, flagged enclosure, context protocol) + oracle-vs-plain differential"),
}
PENDING = {
}


def theorem_names(p):
    """names listed in Audit/<p>*.lean (what every run re-checks with #print axioms)"""
    import re
    d = os.path.join(V, "lean", "Audit")
    names = []
    for f in sorted(os.listdir(d)):
        if f.endswith(".lean") and f.startswith(p) and (f == p + ".lean" or not f[len(p)].isdigit()):
            for m in re.finditer(r"^#print axioms\s+(\S+)", open(os.path.join(d, f)).read(), re.M):
                names.append(m.group(1).split(".")[-1])
    return names


def main():
    props = [json.loads(l)["id"] for l in open(os.path.join(V, "properties.jsonl"))]
    pend = dict(PENDING)
    for p in list(pend):
        if os.path.exists(os.path.join(V, "tools", "checks", p.lower() + ".py")) and os.path.exists(os.path.join(V, "evidence", p + ".json")):
            pass
    checks = []
    for p in props:
        if p in CLAIMS and os.path.exists(os.path.join(V, "tools", "checks", p.lower() + ".py")):
            text, note, tech = CLAIMS[p]
            checks.append({
                "property_id": p,
                "quick_cmd": "python3 tools/vcheck.py %s --tier quick" % p,
                "thorough_cmd": "python3 tools/vcheck.py %s --tier thorough" % p,
                "evidence_file": "/verif/evidence/%s.json" % p,
                "replay_cmd_template": "cat {path}",
                "engine": "lean+harness",
                "level_claimed": {"category": "proof",
                                  "text": text + " Kernel-checked theorems audited on every run (%d): %s." % (
                                      len(theorem_names(p)), ", ".join(theorem_names(p))),
                                  "design_ref": "DESIGN.md §5 %s, §11, §12" % p},
                "level_note": TB + note,
                "technique": tech,
            })
    claimed = {c["property_id"] for c in checks}
    na = [{"property_id": p, "reason": pend.get(p, "check not built yet")} for p in props if p not in claimed]
    hooks = subprocess.run(["git", "-C", "/repo", "log", "--format=%H %s"], capture_output=True, text=True).stdout.splitlines()
    hook_commits = [l.split()[0] for l in hooks if "verif hooks" in l]
    m = {
        "version": 1,
        "setup_cmd": "python3 tools/setup.py",
        "hooks": {"guard": "LIBFIVE_VERIF",
                  "enable": "tools/common.py build_lib(): cmake -DCMAKE_CXX_FLAGS=-DLIBFIVE_VERIF into /verif/.build/<flavour>, then ninja (incremental, from /repo's working tree)",
                  "baseline_off_cmd": "python3 tools/baseline_off.py",
                  "source_commits": hook_commits, "add_only": True},
        "engines": [{"name": "lean+harness", "path": "tools/vcheck.py", "serves_properties": sorted(claimed),
                     "kind_free_text": "Lean 4 theorems over an executable model + C++ correspondence harness against the freshly built library + property oracle search"}],
        "checks": checks,
        "not_applicable": na,
        "notes": "See DESIGN.md. known_findings.json and known_findings.d/*.json list recorded and fixed libfive defects; proposed_fixes/ holds the patches.",
    }
    json.dump(m, open(os.path.join(V, "MANIFEST.json"), "w"), indent=1)
    print("claimed:", sorted(claimed), "not applicable:", [n["property_id"] for n in na])


if __name__ == "__main__":
    main()
