#!/usr/bin/env python3
"""Entry point of every check:  python3 tools/vcheck.py <Cxx> --tier quick|thorough
Exit 0: property held on everything explored (KNOWN-FINDING lines may be printed).
Exit 1: at least one line `VIOLATION property=<id> replay=<path>` was printed."""
import argparse
import importlib
import os
import sys
import traceback

sys.path.insert(0, os.path.dirname(os.path.abspath(__file__)))
import common  # noqa: E402


def main():
    ap = argparse.ArgumentParser()
    ap.add_argument("prop")
    ap.add_argument("--tier", default=os.environ.get("VERIF_TIER", "quick"), choices=["quick", "thorough"])
    ap.add_argument("--replay", default=None)
    a = ap.parse_args()
    seed = int(os.environ.get("VERIF_SEED", "1"))
    mod = importlib.import_module("checks." + a.prop.lower())
    rep = common.Report(a.prop, a.tier, seed)
    try:
        rc = mod.run(rep, a.tier, seed, replay=a.replay)
    except Exception as e:  # a crashed check must not look like a pass
        traceback.print_exc()
        rep.violation("check crashed: %r" % (e,), {"kind": "check-crashed", "error": repr(e)}, no_input=True)
        rc = rep.finish("proof", {"obligations": 1, "discharged": 0, "checker_cmd": "n/a", "trusted_base": [],
                                  "explanation": "check crashed"}, [])
    sys.exit(rc)


if __name__ == "__main__":
    main()
