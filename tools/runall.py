#!/usr/bin/env python3
"""Run the quick (or thorough) tier of every check registered in MANIFEST.json; print a summary."""
import json, os, subprocess, sys, time
V = os.path.dirname(os.path.dirname(os.path.abspath(__file__)))
tier = sys.argv[1] if len(sys.argv) > 1 else "quick"
only = sys.argv[2:]
m = json.load(open(os.path.join(V, "MANIFEST.json")))
res = []
for c in m["checks"]:
    p = c["property_id"]
    if only and p not in only:
        continue
    cmd = c["quick_cmd"] if tier == "quick" else c.get("thorough_cmd", c["quick_cmd"])
    t = time.time()
    try:
        r = subprocess.run(cmd, shell=True, cwd=V, capture_output=True, text=True, timeout=3600)
        out = r.stdout
        rc = r.returncode
    except subprocess.TimeoutExpired:
        out, rc = "TIMEOUT", -1
    dt = time.time() - t
    viol = [l for l in out.splitlines() if l.startswith("VIOLATION")]
    known = [l for l in out.splitlines() if l.startswith("KNOWN-FINDING")]
    res.append((p, rc, dt, len(viol), len(known)))
    print("%s rc=%d %.0fs violations=%d known=%d" % (p, rc, dt, len(viol), len(known)), flush=True)
    for l in viol[:3]:
        print("   ", l[:200], flush=True)
print("SUMMARY", "all-green" if all(r[1] == 0 for r in res) else "RED", flush=True)
