"""C06/C15: generators (smooth expression DAGs, Jacobian sums, CSG of lattice planes) and an
independent reference semantics with forward-mode derivatives (sparse gradients over
x, y, z and free variables), in binary64 and in simulated binary32."""
import math
import struct

import gen

INF = float("inf")


def r32(x):
    try:
        return struct.unpack("<f", struct.pack("<f", x))[0]
    except OverflowError:
        return math.copysign(INF, x)


# ----------------------------------------------------------------------------- generators

SMOOTH_UNARY = ["neg", "abs", "square", "sqrt", "recip", "sin", "cos", "tan", "asin", "acos", "atan", "exp", "log"]
SMOOTH_BINARY = ["add", "sub", "mul", "div", "min", "max", "atan2", "pow", "nth-root", "mod"]


class SmoothGen(gen.TreeGen):
    """TreeGen + `mod` with a constant divisor, `cvars` barriers."""

    def __init__(self, rng, p_cvars=0.0, **o):
        super().__init__(rng, **o)
        self.p_cvars = p_cvars

    def step(self):
        r = self.rng
        o = self.o
        u = r.random()
        if u < o["p_minmax"]:
            node = self._emit(("bin", r.choice(["min", "max"]), self.pick_nonconst(), self.pick_nonconst()))
        elif u < o["p_minmax"] + o["p_unary"] * (1 - o["p_minmax"]) and o["unary"]:
            node = self._emit(("un", r.choice(o["unary"]), self.pick_nonconst()))
        else:
            op = r.choice(o["binary"])
            a = self.pick()
            if op == "pow":
                b = self.const(float(r.choice([-2, -1, 1, 2, 3, 4])))
            elif op == "nth-root":
                b = self.const(float(r.choice([1, 2, 3, 4, 5])))
            elif op == "mod":
                a = self.pick_nonconst()
                b = self.const(float(r.choice([0.75, 1.0, 1.5, 2.0, -1.25, 3.0])))
            else:
                b = self.pick()
                if self.kind[a][0] == "const" and self.kind[b][0] == "const":
                    b = self.pick_nonconst()
            node = self._emit(("bin", op, a, b))
        if self.p_cvars and self.vars and r.random() < self.p_cvars:
            node = self._emit(("cvars", node))
        self.pool.append(node)
        return node


class Builder:
    """Minimal DAG builder sharing TreeGen's line format and `kind` table."""

    def __init__(self):
        self.lines, self.kind, self.vars, self.next = [], {}, [], 0
        self.hist = {}

    def emit(self, *desc):
        i = self.next
        self.next += 1
        self.kind[i] = desc
        self.lines.append("n %d %s" % (i, " ".join(str(d) for d in desc)))
        k = desc[1] if desc[0] in ("un", "bin") else desc[0]
        self.hist[k] = self.hist.get(k, 0) + 1
        if desc[0] == "var":
            self.vars.append(i)
        return i

    def const(self, v):
        return self.emit("const", gen.f2hex(v))

    def un(self, op, a):
        return self.emit("un", op, a)

    def bin(self, op, a, b):
        return self.emit("bin", op, a, b)


def jacobian_case(rng, nvars):
    """f = sin(c*S) + c*S*x with S a sum of per-variable terms, some chunks behind const-var
    barriers.  Returns (builder, root, cvars_vars)."""
    b = Builder()
    x, y, z = b.emit("x"), b.emit("y"), b.emit("z")
    vs = [b.emit("var") for _ in range(nvars)]
    chunks, blocked = [], set()
    i = 0
    while i < nvars:
        k = min(nvars - i, rng.randint(1, 40))
        terms = []
        for j in range(i, i + k):
            kind = rng.choice(["lin", "x", "sin", "sq", "prev", "yz"])
            v = vs[j]
            if kind == "lin":
                t = b.bin("mul", v, b.const(rng.choice([0.5, -1.0, 2.0, 1.5, 0.25])))
            elif kind == "x":
                t = b.bin("mul", v, x)
            elif kind == "sin":
                t = b.bin("mul", b.un("sin", v), y)
            elif kind == "sq":
                t = b.un("square", v)
            elif kind == "prev" and j > 0:
                t = b.bin("mul", v, vs[j - 1])
            else:
                t = b.bin("mul", v, b.bin("add", y, z))
            terms.append(t)
        s = terms[0]
        for t in terms[1:]:
            s = b.bin("add", s, t)
        if rng.random() < 0.3:
            s = b.emit("cvars", s)
            blocked.update(range(i, i + k))
        chunks.append(s)
        i += k
    S = chunks[0]
    for c in chunks[1:]:
        S = b.bin("add", S, c)
    cS = b.bin("mul", S, b.const(gen.f32(2.0 / max(4, nvars))))
    root = b.bin("add", b.un("sin", cS), b.bin("mul", cS, x))
    if rng.random() < 0.3:
        root = b.bin("max", root, b.bin("sub", x, b.const(10.0)))
    return b, root, blocked


def lattice_point(rng, k=8, lim=2):
    return tuple(rng.randint(-lim * k, lim * k) / k for _ in range(3))


def plane(b, rng, xyz, p0, offset=0.0):
    """a*x + b*y + c*z + d through p0 (+offset), dyadic coefficients: exact in float"""
    while True:
        co = [rng.choice([-2, -1, -0.5, 0, 0, 0.5, 1, 2]) for _ in range(3)]
        if any(co):
            break
    d = -(co[0] * p0[0] + co[1] * p0[1] + co[2] * p0[2]) + offset
    t = None
    for c, ax in zip(co, xyz):
        if c == 0:
            continue
        term = ax if c == 1 else b.bin("mul", b.const(c), ax)
        t = term if t is None else b.bin("add", t, term)
    if d != 0:
        t = b.bin("add", t, b.const(d))
    return t, co


def csg(b, rng, leaves):
    nodes = list(leaves)
    while len(nodes) > 1:
        i = rng.randrange(len(nodes))
        a = nodes.pop(i)
        j = rng.randrange(len(nodes))
        c = nodes.pop(j)
        nodes.append(b.bin(rng.choice(["min", "max"]), a, c))
    return nodes[0]


def pyramid(b, rng, xyz, p0, n, op="max"):
    """n distinct planes through p0 joined by one operator: n features at the apex"""
    seen, leaves = set(), []
    while len(leaves) < n:
        t, co = plane(b, rng, xyz, p0)
        if tuple(co) in seen:
            continue
        seen.add(tuple(co))
        leaves.append(t)
    s = leaves[0]
    for t in leaves[1:]:
        s = b.bin(op, s, t)
    return s


def feature_case(rng, style):
    """Returns (builder, root, [query points]) — query points sit exactly on ties."""
    b = Builder()
    xyz = (b.emit("x"), b.emit("y"), b.emit("z"))
    p0 = lattice_point(rng)
    pts = [p0]
    if style == "csg":
        k = rng.randint(2, 5)
        leaves = [plane(b, rng, xyz, p0, offset=rng.choice([0, 0, 0, 0.5, -0.25]))[0] for _ in range(k)]
        root = csg(b, rng, leaves)
    elif style == "csg-smooth":
        k = rng.randint(2, 4)
        c = csg(b, rng, [plane(b, rng, xyz, p0)[0] for _ in range(k)])
        w = rng.choice(["neg", "scale", "addz", "square1", "exp", "mulz"])
        if w == "neg":
            root = b.un("neg", c)
        elif w == "scale":
            root = b.bin("mul", c, b.const(rng.choice([2.0, -0.5, 3.0])))
        elif w == "addz":
            root = b.bin("add", c, plane(b, rng, xyz, p0, offset=rng.choice([0, 0.5]))[0])
        elif w == "square1":
            root = b.un("square", b.bin("add", c, b.const(1.0)))
        elif w == "exp":
            root = b.bin("sub", b.un("exp", c), b.const(1.0))
        else:
            root = b.bin("mul", c, b.bin("add", xyz[2], b.const(3.0)))
    elif style == "sqrt":
        # sqrt(csg + c): the OP_SQRT kernel with several features on its operand
        k = rng.randint(2, 3)
        c = csg(b, rng, [plane(b, rng, xyz, p0)[0] for _ in range(k)])
        root = b.un("sqrt", b.bin("add", c, b.const(rng.choice([0.25, 1.0, 4.0]))))
        if rng.random() < 0.5:
            root = b.bin("sub", root, b.const(0.5))
    elif style == "pyramids":
        # sum of two pyramids with a common apex: |f(a)|*|f(b)| pairs in the binary path
        n1, n2 = rng.choice([(2, 2), (3, 3), (4, 4), (5, 4), (3, 6), (5, 5)])
        root = b.bin("add", pyramid(b, rng, xyz, p0, n1, rng.choice(["max", "min"])),
                     pyramid(b, rng, xyz, p0, n2, rng.choice(["max", "min"])))
    elif style == "shared":
        # a tied min/max reached along two paths of a binary clause
        m = b.bin(rng.choice(["min", "max"]), plane(b, rng, xyz, p0, offset=1.0)[0], plane(b, rng, xyz, p0, offset=1.0)[0])
        other = rng.choice([xyz[2], plane(b, rng, xyz, p0, offset=0.5)[0]])
        root = b.bin("mul", m, b.bin("add", m, other))
    elif style == "axis":
        # A bare coordinate is a DIRECT operand of a non-linear binary clause whose other operand is a tied
        # min/max of two (shifted) coordinates: the evaluator replicates the coordinate's row into the lanes of
        # the features (the `filled` bookkeeping), so stale lanes show only with this shape.  The tie locus
        # u == v contains many lattice points: several of them are returned.
        ax = rng.sample(range(3), 2)
        offs = [rng.choice([0, 0, 0.5, -0.25, 1.0]) for _ in range(2)]
        def shifted(i, o):
            return xyz[i] if o == 0 else b.bin("add", xyz[i], b.const(o))
        m = b.bin(rng.choice(["min", "max"]), shifted(ax[0], offs[0]), shifted(ax[1], offs[1]))
        if rng.random() < 0.4:      # a second tied level on top
            third = [i for i in range(3) if i not in ax][0]
            m = b.bin(rng.choice(["min", "max"]), m, shifted(third, rng.choice([0, 0.5])))
        w = xyz[rng.choice(ax + [rng.randrange(3)])]
        op = rng.choice(["mul", "mul", "div", "atan2"])
        root = b.bin(op, m, w) if rng.random() < 0.6 else b.bin(op, w, m)
        if rng.random() < 0.3:
            root = b.bin("add", root, b.const(rng.choice([0.5, -1.0])))
        pts = []
        for _ in range(4):
            q = list(lattice_point(rng))
            q[ax[1]] = q[ax[0]] + offs[0] - offs[1]          # u == v exactly
            if op in ("div", "atan2") and q[rng.choice(ax)] == 0:
                q[ax[0]] += 0.5; q[ax[1]] += 0.5
            pts.append(tuple(q))
        return b, root, pts
    else:
        raise ValueError(style)
    # a few neighbours: some still on a tie of a subset of planes, most not
    for _ in range(2):
        pts.append(tuple(p0[i] + rng.choice([0, 0, 0.125, -0.25]) for i in range(3)))
    return b, root, pts


# ----------------------------------------------------------------------------- reference semantics

class Ref:
    """Reference evaluation of a generator DAG at a point with gradients.
    mode32: round every intermediate (value and partials) to binary32 — only used to estimate
    how well conditioned the reference is.
    select: dict node -> 'a'/'b' forcing the operand of a (tied) min/max node.
    After eval: self.bad (list of reasons the point is not smooth / well conditioned),
    self.ties (min/max nodes whose operands are (nearly) equal), self.negroot."""

    def __init__(self, kind, point, varvals, mode32=False, select=None, tie_tol=1e-3):
        self.kind, self.p, self.vv = kind, point, varvals
        self.m32 = mode32
        self.select = select or {}
        self.tie_tol = tie_tol
        self.bad, self.ties, self.negroot = [], [], False
        self.cache = {}
        self.maxabs = 0.0

    def r(self, x):
        return r32(x) if self.m32 else x

    def lin(self, ca, ga, cb=0.0, gb=None):
        out = {}
        for k, v in ga.items():
            out[k] = self.r(ca * v)
        if gb:
            for k, v in gb.items():
                out[k] = self.r(out.get(k, 0.0) + self.r(cb * v))
        return out

    def eval(self, i):
        """iterative post-order evaluation (DAGs can be deep chains)"""
        stack = [i]
        while stack:
            n = stack[-1]
            if n in self.cache:
                stack.pop()
                continue
            d = self.kind[n]
            kids = [c for c in d[1:] if isinstance(c, int)] if d[0] == "cvars" else \
                   [d[2]] if d[0] == "un" else [d[2], d[3]] if d[0] == "bin" else []
            todo = [c for c in kids if c not in self.cache]
            if todo:
                stack.extend(todo)
                continue
            stack.pop()
            try:
                v, g = self.node(n)
            except (OverflowError, ValueError, ZeroDivisionError):
                self.bad.append("arith")
                v, g = float("nan"), {}
            if v != v or abs(v) > 1e3:
                self.bad.append("range")
            for q in g.values():
                if q != q or abs(q) > 1e4:
                    self.bad.append("grad-range")
                    break
            self.cache[n] = (v, g)
        return self.cache[i]

    def node(self, i):
        d = self.kind[i]
        k = d[0]
        r = self.r
        if k == "x":
            return self.p[0], {"x": 1.0}
        if k == "y":
            return self.p[1], {"y": 1.0}
        if k == "z":
            return self.p[2], {"z": 1.0}
        if k == "const":
            return gen.hex2f(d[1]), {}
        if k == "var":
            return self.vv.get(i, 0.0), {i: 1.0}
        if k == "cvars":
            v, g = self.cache[d[1]]
            return v, {q: w for q, w in g.items() if q in ("x", "y", "z")}
        if k == "un":
            a, ga = self.cache[d[2]]
            return self.unary(d[1], a, ga)
        if k == "bin":
            a, ga = self.cache[d[2]]
            b, gb = self.cache[d[3]]
            return self.binary(i, d[1], a, ga, b, gb)
        raise ValueError(k)

    def unary(self, op, a, ga):
        r, lin, bad = self.r, self.lin, self.bad
        if op == "neg":
            return -a, lin(-1.0, ga)
        if op == "abs":
            if abs(a) < 1e-3:
                bad.append("abs0")
            return abs(a), lin(1.0 if a > 0 else -1.0, ga)
        if op == "square":
            return r(a * a), lin(r(2 * a), ga)
        if op == "sqrt":
            if a < 1e-2:
                bad.append("sqrt-domain")
                return (math.sqrt(a) if a >= 0 else float("nan")), {}
            s = r(math.sqrt(a))
            return s, lin(r(0.5 / s), ga)
        if op == "recip":
            if abs(a) < 1e-2:
                bad.append("recip0")
                return float("nan"), {}
            return r(1 / a), lin(r(-1 / (a * a)), ga)
        if op == "sin":
            return r(math.sin(a)), lin(r(math.cos(a)), ga)
        if op == "cos":
            return r(math.cos(a)), lin(r(-math.sin(a)), ga)
        if op == "tan":
            c = math.cos(a)
            if abs(c) < 0.05:
                bad.append("tan-pole")
            return r(math.tan(a)), lin(r(1 / (c * c)), ga)
        if op in ("asin", "acos"):
            if abs(a) > 0.98:
                bad.append("asin-domain")
                return float("nan"), {}
            s = 1 / math.sqrt(1 - a * a)
            return (r(math.asin(a)), lin(r(s), ga)) if op == "asin" else (r(math.acos(a)), lin(r(-s), ga))
        if op == "atan":
            return r(math.atan(a)), lin(r(1 / (1 + a * a)), ga)
        if op == "exp":
            if a > 20:
                bad.append("exp-range")
                return INF, {}
            e = r(math.exp(a))
            return e, lin(e, ga)
        if op == "log":
            if a < 1e-2:
                bad.append("log-domain")
                return float("nan"), {}
            return r(math.log(a)), lin(r(1 / a), ga)
        raise ValueError(op)

    def binary(self, i, op, a, ga, b, gb):
        r, lin, bad = self.r, self.lin, self.bad
        if op == "add":
            return r(a + b), lin(1.0, ga, 1.0, gb)
        if op == "sub":
            return r(a - b), lin(1.0, ga, -1.0, gb)
        if op == "mul":
            return r(a * b), lin(b, ga, a, gb)
        if op == "div":
            if abs(b) < 1e-2:
                bad.append("div0")
                return float("nan"), {}
            return r(a / b), lin(r(1 / b), ga, r(-a / (b * b)), gb)
        if op in ("min", "max"):
            if abs(a - b) <= self.tie_tol * (1 + abs(a) + abs(b)) and self.kind[i][2] != self.kind[i][3]:
                self.ties.append(i)
                if i not in self.select:
                    bad.append("tie")
            if i in self.select and i in self.ties:
                pick_a = self.select[i] == "a"
            elif op == "min":
                pick_a = a <= b
            else:
                pick_a = a >= b
            return (a, dict(ga)) if pick_a else (b, dict(gb))
        if op == "atan2":
            q = a * a + b * b
            if q < 1e-2 or (abs(a) < 1e-2 and b < 0):
                bad.append("atan2-cut")
                return float("nan"), {}
            return r(math.atan2(a, b)), lin(r(b / q), ga, r(-a / q), gb)
        if op == "pow":
            n = b
            if gb or n != int(n):
                bad.append("pow-nonconst")
                return float("nan"), {}
            n = int(n)
            if n < 0 and abs(a) < 0.1:
                bad.append("pow-pole")
                return float("nan"), {}
            return r(a ** n), lin(r(n * a ** (n - 1)), ga)
        if op == "nth-root":
            n = b
            if gb or n != int(n) or n < 1:
                bad.append("root-nonconst")
                return float("nan"), {}
            n = int(n)
            if abs(a) < 1e-2:
                bad.append("root0")
                return float("nan"), {}
            if a < 0:
                if n % 2 == 0:
                    bad.append("root-domain")
                    return float("nan"), {}
                self.negroot = True
                v = -((-a) ** (1.0 / n))
            else:
                v = a ** (1.0 / n)
            return r(v), lin(r(v / (n * a)), ga)
        if op == "mod":
            if gb or b == 0:
                bad.append("mod-divisor")
                return float("nan"), {}
            q = a / b
            if abs(q - round(q)) < 1e-3:
                bad.append("mod-jump")
            return r(a - b * math.floor(q)), dict(ga)
        raise ValueError(op)


def branch_gradients(kind, root, point, varvals, cap=4096):
    """Gradients of all branch selections at (near-)tied min/max nodes.
    Returns (consistent, per_occurrence, nties, bad): `consistent` — one operand per tied NODE;
    `per_occurrence` — every occurrence of a tied node may choose independently (tree unfolding)."""
    base = Ref(kind, point, varvals, tie_tol=1e-5)
    base.eval(root)
    ties = sorted(set(base.ties))
    bad0 = [b for b in base.bad if b != "tie"]
    cons = []
    if len(ties) <= 12:
        for mask in range(1 << len(ties)):
            sel = {t: ("a" if (mask >> j) & 1 else "b") for j, t in enumerate(ties)}
            e = Ref(kind, point, varvals, select=sel, tie_tol=1e-5)
            v, g = e.eval(root)
            cons.append(tuple(g.get(k, 0.0) for k in "xyz"))
    # per-occurrence: set-valued forward mode (only the ops the feature generator uses)
    memo = {}

    def occ(i):
        if i in memo:
            return memo[i]
        d = kind[i]
        v = base.cache[i][0]
        if d[0] in ("x", "y", "z"):
            out = {tuple(1.0 if d[0] == k else 0.0 for k in "xyz")}
        elif d[0] in ("const", "var"):
            out = {(0.0, 0.0, 0.0)}
        elif d[0] == "cvars":
            out = occ(d[1])
        elif d[0] == "un":
            a = base.cache[d[2]][0]
            out = set()
            for ga in occ(d[2]):
                e = Ref(kind, point, varvals)
                _, g = e.unary(d[1], a, dict(zip("xyz", ga)))
                out.add(tuple(g.get(k, 0.0) for k in "xyz"))
        else:
            a = base.cache[d[2]][0]
            b = base.cache[d[3]][0]
            if d[1] in ("min", "max") and i in ties:
                out = occ(d[2]) | occ(d[3])
            elif d[1] in ("min", "max"):
                pick_a = (a <= b) if d[1] == "min" else (a >= b)
                out = occ(d[2]) if pick_a else occ(d[3])
            else:
                out = set()
                for ga in occ(d[2]):
                    for gb in occ(d[3]):
                        e = Ref(kind, point, varvals)
                        _, g = e.binary(i, d[1], a, dict(zip("xyz", ga)), b, dict(zip("xyz", gb)))
                        out.add(tuple(g.get(k, 0.0) for k in "xyz"))
                        if len(out) > cap:
                            raise OverflowError("too many branch gradients")
        memo[i] = out
        return out

    try:
        per_occ = occ(root)
    except (OverflowError, RecursionError):
        per_occ = None
    return cons, per_occ, len(ties), bad0, base.cache[root][0]
