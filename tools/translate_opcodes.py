#!/usr/bin/env python3
"""C08 translator: regenerate lean/Generated/Opcodes.lean from /repo's *current*
  * include/libfive/tree/opcode.hpp   (OPCODES X-macro of the active, i.e. non-PACKED, branch as the
                                       preprocessor sees it; LAST_OP)
  * src/tree/opcode.cpp               (Opcode::args / isCommutative / isIdempotent switch tables)
  * src/tree/serializer.cpp           (END_OF_ITEM byte, the static_assert bound on LAST_OP, the two
                                       shape tags, the string quote / escape characters)
The output is plain Lean data; every judgement about it is a `decide` in LibfiveTheorems/C08.lean."""
import os
import re
import subprocess
import sys
import tempfile

sys.path.insert(0, os.path.dirname(os.path.abspath(__file__)))
import common

OUT = os.path.join(common.LEAN, "Generated", "Opcodes.lean")


def strip_comments(s):
    s = re.sub(r"/\*.*?\*/", " ", s, flags=re.S)
    return re.sub(r"//[^\n]*", " ", s)


def preprocess_table(repo):
    """Expand OPCODES exactly as the compiler does for the library build (no LIBFIVE_PACKED_OPCODES)."""
    src = ('#include "libfive/tree/opcode.hpp"\n'
           '#define OPCODE(s, i) @OP s i ;\n'
           '@BEGIN OPCODES @END\n')
    with tempfile.NamedTemporaryFile("w", suffix=".cpp", delete=False) as f:
        f.write(src)
        path = f.name
    try:
        r = subprocess.run(["g++", "-std=gnu++17", "-E", "-P", "-I", os.path.join(repo, "libfive/include"), path],
                           stdout=subprocess.PIPE, stderr=subprocess.PIPE, text=True, timeout=900)
    finally:
        os.unlink(path)
    if r.returncode != 0:
        raise RuntimeError("preprocessing opcode.hpp failed: " + r.stderr[-2000:])
    text = r.stdout
    m = re.search(r"@BEGIN(.*?)@END", text, re.S)
    if not m:
        raise RuntimeError("OPCODES expansion not found")
    table = []
    for name, val in re.findall(r"@OP\s+([A-Za-z_0-9]+)\s+([^;]+?)\s*;", m.group(1)):
        table.append((name, int(val, 0)))
    # the enum as compiled: every enumerator with its value (LAST_OP included)
    e = re.search(r"enum\s+Opcode\s*\{(.*?)\}", text, re.S)
    if not e:
        raise RuntimeError("enum Opcode not found")
    enum = []
    for item in e.group(1).split(","):
        item = item.strip()
        if not item:
            continue
        mm = re.match(r"([A-Za-z_0-9]+)\s*=\s*(\S+)$", item)
        if not mm:
            raise RuntimeError("enumerator without explicit value: %r" % item)
        enum.append((mm.group(1), int(mm.group(2), 0)))
    return table, enum


def switch_table(text, func):
    """Parse `... Opcode::<func>(Opcode op) { switch (op) { case A: case B: return V; ... } }` into
    [(enumerator, value-text)]."""
    m = re.search(r"Opcode::%s\s*\(\s*Opcode\s+op\s*\)\s*\{" % func, text)
    if not m:
        raise RuntimeError("function Opcode::%s not found" % func)
    i = m.end() - 1
    d = 0
    for j in range(i, len(text)):
        if text[j] == "{":
            d += 1
        elif text[j] == "}":
            d -= 1
            if d == 0:
                break
    body = text[i:j + 1]
    sw = re.search(r"switch\s*\(\s*op\s*\)\s*\{", body)
    if not sw:
        raise RuntimeError("switch not found in Opcode::%s" % func)
    k = sw.end() - 1
    d = 0
    for j in range(k, len(body)):
        if body[j] == "{":
            d += 1
        elif body[j] == "}":
            d -= 1
            if d == 0:
                break
    sbody = body[k + 1:j]
    out, pending = [], []
    for tok in re.finditer(r"case\s+([A-Za-z_0-9:]+)\s*:|return\s+([^;]+);|default\s*:", sbody):
        if tok.group(1):
            pending.append(tok.group(1).split("::")[-1])
        elif tok.group(2) is not None:
            for p in pending:
                out.append((p, tok.group(2).strip()))
            pending = []
        else:
            pending.append("default")
    if pending:
        raise RuntimeError("case labels without return in Opcode::%s: %r" % (func, pending))
    return out


def serializer_constants(repo):
    s = strip_comments(open(os.path.join(repo, "libfive/src/tree/serializer.cpp")).read())
    m = re.search(r"Serializer::END_OF_ITEM\s*=\s*(0[xX][0-9a-fA-F]+|\d+)\s*;", s)
    if not m:
        raise RuntimeError("END_OF_ITEM not found")
    eoi = int(m.group(1), 0)
    m = re.search(r"static_assert\s*\(\s*Opcode::LAST_OP\s*<=\s*(\d+)", s)
    bound = int(m.group(1)) if m else -1
    m = re.search(r"out\.put\s*\(\s*already_stored\s*\?\s*'(.)'\s*:\s*'(.)'\s*\)", s)
    tags = (ord(m.group(1)), ord(m.group(2))) if m else (-1, -1)
    return eoi, bound, tags


def lean_str(s):
    return '"' + s.replace("\\", "\\\\").replace('"', '\\"') + '"'


def generate(repo=None):
    repo = repo or common.REPO
    table, enum = preprocess_table(repo)
    cpp = strip_comments(open(os.path.join(repo, "libfive/src/tree/opcode.cpp")).read())
    args = switch_table(cpp, "args")
    comm = switch_table(cpp, "isCommutative")
    idem = switch_table(cpp, "isIdempotent")
    eoi, bound, tags = serializer_constants(repo)
    last = [v for n, v in enum if n == "LAST_OP"]
    if len(last) != 1:
        raise RuntimeError("LAST_OP not found in enum")

    def intval(t):
        t = t.strip()
        if re.fullmatch(r"-?\d+", t):
            return int(t)
        raise RuntimeError("unexpected return value %r" % t)

    def boolval(t):
        if t in ("true", "false"):
            return t
        raise RuntimeError("unexpected return value %r" % t)

    L = []
    L.append("-- GENERATED by tools/translate_opcodes.py from /repo's opcode.hpp, opcode.cpp, serializer.cpp.")
    L.append("-- Do not edit: rewritten on every run.")
    L.append("namespace Generated.Opcodes")
    L.append("")
    L.append("/-- OPCODES X-macro as expanded by the preprocessor for the library build: (enumerator, code) -/")
    L.append("def table : List (String × Nat) := [")
    L.append(",\n".join("  (%s, %d)" % (lean_str(n), v) for n, v in table))
    L.append("]")
    L.append("")
    L.append("/-- every enumerator of `enum Opcode` with its value, in declaration order (LAST_OP included) -/")
    L.append("def enumerators : List (String × Nat) := [")
    L.append(",\n".join("  (%s, %d)" % (lean_str(n), v) for n, v in enum))
    L.append("]")
    L.append("")
    L.append("def lastOp : Nat := %d" % last[0])
    L.append("")
    L.append("/-- `Opcode::args`: (case label, returned value); -1 is what `return -1` yields before the\n"
             "    conversion to size_t -/")
    L.append("def args : List (String × Int) := [")
    L.append(",\n".join("  (%s, %d)" % (lean_str(n), intval(v)) for n, v in args))
    L.append("]")
    L.append("")
    L.append("def commutative : List (String × Bool) := [")
    L.append(",\n".join("  (%s, %s)" % (lean_str(n), boolval(v)) for n, v in comm))
    L.append("]")
    L.append("")
    L.append("def idempotent : List (String × Bool) := [")
    L.append(",\n".join("  (%s, %s)" % (lean_str(n), boolval(v)) for n, v in idem))
    L.append("]")
    L.append("")
    L.append("/-- `Serializer::END_OF_ITEM` -/")
    L.append("def endOfItem : Nat := %d" % eoi)
    L.append("/-- bound in `static_assert(Opcode::LAST_OP <= N)` of Serializer::run (or 0 if it is gone) -/")
    L.append("def staticAssertBound : Nat := %d" % max(bound, 0))
    L.append("/-- shape tags: (already stored, fully serialised) -/")
    L.append("def tagRef : Nat := %d" % max(tags[0], 0))
    L.append("def tagFull : Nat := %d" % max(tags[1], 0))
    L.append("")
    L.append("end Generated.Opcodes")
    text = "\n".join(L) + "\n"
    old = open(OUT).read() if os.path.exists(OUT) else None
    if old != text:
        os.makedirs(os.path.dirname(OUT), exist_ok=True)
        with open(OUT, "w") as f:
            f.write(text)
    return {"table": table, "enum": enum, "args": args, "commutative": comm, "idempotent": idem,
            "end_of_item": eoi, "static_assert_bound": bound, "tags": tags, "last_op": last[0],
            "changed": old != text}


if __name__ == "__main__":
    info = generate()
    print("table entries: %d, LAST_OP=%d, END_OF_ITEM=%d, rewritten=%s" % (
        len(info["table"]), info["last_op"], info["end_of_item"], info["changed"]))
