"""Seeded generators for C19: sample sets (position, normal, value) x boxes in 1/2/3-D.

Every case is a dict
  {id, N, lo, hi, shrink, target (None = default | (tpos, tval)), samples [(pos, nrm, val)],
   perms [[i...]], splits [k], cls (sample class), boxcls}
and is serialised by `case_lines` into the line protocol of harness/qef.cpp."""
import math
import struct

INF = float("inf")
NAN = float("nan")


def d2hex(x):
    return "%016x" % struct.unpack(">Q", struct.pack(">d", x))[0]


def hex2d(s):
    return struct.unpack(">d", struct.pack(">Q", int(s, 16)))[0]


def lattice(rng, x, q=0.125):
    return round(x / q) * q


SAMPLE_CLASSES_QUICK = [
    ("empty", 2), ("single", 3), ("vertex", 14), ("vertex_corners", 10), ("plane", 6), ("sphere", 8),
    ("edge", 8), ("parallel", 6), ("zero_normals", 4), ("axis_only", 5), ("nonfinite", 8), ("far", 8),
    ("many", 5), ("duplicate", 3), ("scaled", 5), ("tie", 8), ("near_parallel", 6), ("random", 6),
]
# thorough adds adversarial conditioning
SAMPLE_CLASSES_THOROUGH = SAMPLE_CLASSES_QUICK + [
    ("ill_conditioned", 10), ("huge", 5), ("tiny_normals", 5), ("mixed_scale", 6), ("many_far", 4),
]


def weighted(rng, table):
    tot = sum(w for _, w in table)
    r = rng.uniform(0, tot)
    for name, w in table:
        r -= w
        if r <= 0:
            return name
    return table[-1][0]


def gen_box(rng, N, tier):
    kind = weighted(rng, [("unit", 4), ("random", 8), ("cube", 4), ("offset", 2), ("tiny", 2), ("degenerate", 1),
                          ("lattice", 4)])
    if kind == "unit":
        lo, hi = rng.choice([(0.0, 1.0), (-1.0, 1.0), (1.0, 2.0), (-2.0, -1.0), (-0.5, 0.5)])
        return kind, [lo] * N, [hi] * N
    if kind == "cube":
        c = [rng.uniform(-10, 10) for _ in range(N)]
        s = 10 ** rng.uniform(-3, 1)
        return kind, [c[i] - s / 2 for i in range(N)], [c[i] + s / 2 for i in range(N)]
    if kind == "lattice":
        lo = [lattice(rng, rng.uniform(-4, 4)) for _ in range(N)]
        hi = [lo[i] + rng.choice([0.125, 0.25, 0.5, 1.0, 2.0]) for i in range(N)]
        return kind, lo, hi
    if kind == "offset":
        c = [rng.choice([-1, 1]) * 10 ** rng.uniform(2, 6) for _ in range(N)]
        s = [10 ** rng.uniform(-2, 1) for _ in range(N)]
        return kind, [c[i] - s[i] / 2 for i in range(N)], [c[i] + s[i] / 2 for i in range(N)]
    if kind == "tiny":
        c = [rng.uniform(-2, 2) for _ in range(N)]
        s = [10 ** rng.uniform(-9, -5) for _ in range(N)]
        return kind, [c[i] - s[i] / 2 for i in range(N)], [c[i] + s[i] / 2 for i in range(N)]
    if kind == "degenerate":
        c = [rng.uniform(-4, 4) for _ in range(N)]
        s = [10 ** rng.uniform(-2, 1) for _ in range(N)]
        ax = rng.randrange(N)
        s[ax] = 0.0
        return kind, [c[i] - s[i] / 2 for i in range(N)], [c[i] + s[i] / 2 for i in range(N)]
    c = [rng.uniform(-10, 10) for _ in range(N)]
    s = [10 ** rng.uniform(-3, 1) for _ in range(N)]
    return "random", [c[i] - s[i] / 2 for i in range(N)], [c[i] + s[i] / 2 for i in range(N)]


def unit_vec(rng, N):
    while True:
        v = [rng.gauss(0, 1) for _ in range(N)]
        n = math.sqrt(sum(x * x for x in v))
        if n > 1e-6:
            return [x / n for x in v]


def corners(lo, hi):
    N = len(lo)
    return [[hi[a] if (i >> a) & 1 else lo[a] for a in range(N)] for i in range(1 << N)]


def rand_in(rng, lo, hi, spread=0.0):
    """random point in the box blown up by `spread` box sizes on each side"""
    return [rng.uniform(lo[i] - spread * (hi[i] - lo[i]), hi[i] + spread * (hi[i] - lo[i])) if hi[i] > lo[i]
            else lo[i] + spread * rng.uniform(-1, 1) for i in range(len(lo))]


def goal_point(rng, lo, hi):
    """a point that is, independently per axis, below / inside / above the box, so that the
    optimum leaves the box through every kind of face, edge and corner"""
    g = []
    for i in range(len(lo)):
        s = (hi[i] - lo[i]) or 1.0
        where = rng.choice(["below", "in", "in", "above", "on_lo", "on_hi"])
        if where == "below":
            g.append(lo[i] - s * 10 ** rng.uniform(-2, 1))
        elif where == "above":
            g.append(hi[i] + s * 10 ** rng.uniform(-2, 1))
        elif where == "on_lo":
            g.append(lo[i])
        elif where == "on_hi":
            g.append(hi[i])
        else:
            g.append(rng.uniform(lo[i], hi[i]))
    return g


def dot(a, b):
    return sum(x * y for x, y in zip(a, b))


def gen_samples(rng, N, lo, hi, cls):
    size = max([hi[i] - lo[i] for i in range(N)] + [1e-9])
    S = []
    if cls == "empty":
        return S
    if cls == "single":
        p = rand_in(rng, lo, hi, 0.5)
        return [(p, unit_vec(rng, N), rng.uniform(-size, size))]
    if cls in ("vertex", "vertex_corners", "far", "many", "many_far", "scaled", "huge", "tiny_normals", "mixed_scale"):
        g = goal_point(rng, lo, hi)
        m = {"many": rng.randint(20, 60), "many_far": rng.randint(40, 120)}.get(cls, rng.randint(N + 1, 2 * N + 4))
        pts = corners(lo, hi) if cls == "vertex_corners" else None
        for k in range(m):
            if pts:
                p = pts[k % len(pts)]
            elif cls in ("far", "many_far"):
                d = unit_vec(rng, N)
                r = size * 10 ** rng.uniform(2, 6)
                p = [(lo[i] + hi[i]) / 2 + r * d[i] for i in range(N)]
            else:
                p = rand_in(rng, lo, hi, 0.2)
            n = unit_vec(rng, N)
            if cls == "scaled":
                sc = 10 ** rng.uniform(-4, 4)
                n = [x * sc for x in n]
            elif cls == "huge":
                sc = 10 ** rng.uniform(20, 50)
                n = [x * sc for x in n]
            elif cls == "tiny_normals":
                sc = 10 ** rng.uniform(-60, -20)
                n = [x * sc for x in n]
            elif cls == "mixed_scale":
                sc = 10 ** rng.uniform(-8, 8)
                n = [x * sc for x in n]
            noise = rng.choice([0.0, 0.0, 1e-6 * size, 1e-2 * size]) * rng.uniform(-1, 1)
            S.append((p, n, dot(n, [p[i] - g[i] for i in range(N)]) + noise))
        return S
    if cls == "plane":
        n = unit_vec(rng, N)
        c = dot(n, goal_point(rng, lo, hi))
        for p in (corners(lo, hi) if rng.random() < 0.6 else [rand_in(rng, lo, hi) for _ in range(rng.randint(2, 8))]):
            S.append((p, list(n), dot(n, p) - c))
        return S
    if cls == "sphere":
        c = goal_point(rng, lo, hi)
        r = size * 10 ** rng.uniform(-1, 0.7)
        for p in (corners(lo, hi) if rng.random() < 0.6 else [rand_in(rng, lo, hi, 0.1) for _ in range(rng.randint(3, 9))]):
            d = [p[i] - c[i] for i in range(N)]
            L = math.sqrt(dot(d, d))
            n = [x / L for x in d] if L > 0 else [0.0] * N     # gradient undefined at the centre
            S.append((p, n, L - r))
        return S
    if cls == "edge":
        # max of two or three planes through a goal point: a sharp feature
        g = goal_point(rng, lo, hi)
        ns = [unit_vec(rng, N) for _ in range(rng.randint(2, 3))]
        for p in (corners(lo, hi) if rng.random() < 0.7 else [rand_in(rng, lo, hi) for _ in range(rng.randint(3, 9))]):
            vals = [dot(n, [p[i] - g[i] for i in range(N)]) for n in ns]
            k = max(range(len(ns)), key=lambda j: vals[j])
            S.append((p, list(ns[k]), vals[k]))
        return S
    if cls in ("parallel", "near_parallel", "ill_conditioned"):
        n0 = unit_vec(rng, N)
        g = goal_point(rng, lo, hi)
        e = {"parallel": 0.0, "near_parallel": 10 ** rng.uniform(-9, -3), "ill_conditioned": 10 ** rng.uniform(-15, -5)}[cls]
        for _ in range(rng.randint(2, 8)):
            p = rand_in(rng, lo, hi, 0.2)
            n = [n0[i] + e * rng.uniform(-1, 1) for i in range(N)]
            S.append((p, n, dot(n, [p[i] - g[i] for i in range(N)]) + rng.choice([0.0, 0.0, 1e-3]) * rng.uniform(-1, 1)))
        return S
    if cls == "zero_normals":
        for _ in range(rng.randint(1, 6)):
            S.append((rand_in(rng, lo, hi, 0.3), [0.0] * N, lattice(rng, rng.uniform(-2, 2))))
        return S
    if cls == "axis_only":
        ax = rng.randrange(N)
        g = goal_point(rng, lo, hi)
        for _ in range(rng.randint(1, 6)):
            p = rand_in(rng, lo, hi, 0.3)
            n = [0.0] * N
            n[ax] = rng.choice([1.0, -1.0, 0.5, 2.0])
            S.append((p, n, n[ax] * (p[ax] - g[ax])))
        return S
    if cls == "nonfinite":
        g = goal_point(rng, lo, hi)
        for _ in range(rng.randint(1, 8)):
            p = rand_in(rng, lo, hi, 0.2)
            n = unit_vec(rng, N)
            v = dot(n, [p[i] - g[i] for i in range(N)])
            if rng.random() < 0.6:
                n[rng.randrange(N)] = rng.choice([NAN, INF, -INF])
                if rng.random() < 0.3:
                    n = [rng.choice([NAN, INF, -INF]) for _ in range(N)]
            S.append((p, n, v))
        return S
    if cls == "duplicate":
        base = gen_samples(rng, N, lo, hi, "vertex")
        return [base[rng.randrange(len(base))] for _ in range(rng.randint(2, 10))]
    if cls == "tie":
        # lattice data with symmetric / position-independent errors: exact ties between subspaces
        mode = rng.choice(["zero", "sym", "axis"])
        c = [(lo[i] + hi[i]) / 2 for i in range(N)]
        if mode == "zero":
            for _ in range(rng.randint(1, 4)):
                S.append(([lattice(rng, x) for x in rand_in(rng, lo, hi)], [0.0] * N, float(rng.randint(-2, 2))))
        elif mode == "sym":
            # mirror-symmetric planes about the box centre
            for _ in range(rng.randint(1, 3)):
                n = [float(rng.randint(-2, 2)) for _ in range(N)]
                off = float(rng.randint(1, 4))
                S.append((list(c), n, -off))
                S.append((list(c), [-x for x in n], -off))
        else:
            ax = rng.randrange(N)
            n = [0.0] * N
            n[ax] = 1.0
            off = rng.choice([-2.0, 2.0, 4.0])
            S.append(([c[i] + (off if i == ax else 0.0) for i in range(N)], n, 0.0))
        return S
    # "random": unrelated samples
    for _ in range(rng.randint(1, 12)):
        S.append((rand_in(rng, lo, hi, 1.0), [rng.uniform(-2, 2) for _ in range(N)], rng.uniform(-size, size)))
    return S


OOS_CLASSES = ["oos_nan_target", "oos_nan_sample", "oos_overflow"]


def gen_case0(rng, k):
    """N = 0 (QEF<0>, instantiated by the simplex tree for cell corners): only distance values"""
    m = rng.choice([0, 1, 1, 2, 3, 6])
    samples = [([], [], rng.choice([0.0, rng.uniform(-2, 2), lattice(rng, rng.uniform(-2, 2))])) for _ in range(m)]
    target = None if rng.random() < 0.6 else ([], rng.uniform(-1, 1))
    perms = [list(reversed(range(m)))] if m >= 2 else []
    return {"id": str(k), "N": 0, "lo": [], "hi": [], "shrink": rng.choice([1 - 1e-9, 1.0, 0.5]), "target": target,
            "samples": samples, "perms": perms, "splits": [rng.randint(0, m)] if m else [], "cls": "dim0",
            "boxcls": "none"}


def gen_case(rng, k, tier):
    N = rng.choice([0, 1, 1, 1, 2, 2, 2, 3, 3, 3, 3])
    if N == 0:
        return gen_case0(rng, k)
    if rng.random() < 0.03:
        return gen_oos(rng, k, N, tier)
    boxcls, lo, hi = gen_box(rng, N, tier)
    cls = weighted(rng, SAMPLE_CLASSES_THOROUGH if tier == "thorough" else SAMPLE_CLASSES_QUICK)
    samples = gen_samples(rng, N, lo, hi, cls)
    shrink = rng.choice([1 - 1e-9] * 5 + [1.0] * 3 + [0.5, 0.9, 0.999])
    target = None
    tmode = rng.random()
    if cls == "tie" or tmode < 0.3:
        # explicit target: inside, outside, or on the boundary of the box
        tpos = goal_point(rng, lo, hi)
        if cls == "tie":
            tpos = [lattice(rng, x) for x in tpos]
        target = (tpos, rng.choice([0.0, rng.uniform(-1, 1)]))
    m = len(samples)
    perms, splits = [], []
    if m >= 2:
        for _ in range(2):
            p = list(range(m))
            rng.shuffle(p)
            perms.append(p)
        splits = sorted({rng.randint(0, m), rng.randint(1, m - 1)})
    elif m == 1:
        splits = [rng.choice([0, 1])]
    return {"id": str(k), "N": N, "lo": lo, "hi": hi, "shrink": shrink, "target": target, "samples": samples,
            "perms": perms, "splits": splits, "cls": cls, "boxcls": boxcls}


def gen_oos(rng, k, N, tier):
    """Inputs OUTSIDE the property's quantifier (non-finite target, non-finite sample position or
    value, magnitudes that overflow): only observed — this is exactly where the hypothesis of
    `qef_solveBounded_in_box` ("some corner error compares < +inf") can fail."""
    boxcls, lo, hi = gen_box(rng, N, tier)
    cls = rng.choice(OOS_CLASSES)
    samples = gen_samples(rng, N, lo, hi, "vertex")
    target = None
    bad = lambda: rng.choice([NAN, INF, -INF])
    if cls == "oos_nan_target":
        tpos = goal_point(rng, lo, hi)
        tval = 0.0
        if rng.random() < 0.6:
            tval = bad()
        else:
            tpos[rng.randrange(N)] = bad()
        target = (tpos, tval)
    elif cls == "oos_nan_sample":
        i = rng.randrange(len(samples))
        p, n, v = samples[i]
        p = list(p)
        if rng.random() < 0.5:
            v = bad()
        else:
            p[rng.randrange(N)] = bad()
        samples[i] = (p, n, v)
    else:
        sc = 10.0 ** rng.uniform(150, 300)
        samples = [(p, n, v * sc + sc) for (p, n, v) in samples]
    return {"id": str(k), "N": N, "lo": lo, "hi": hi, "shrink": rng.choice([1 - 1e-9, 1.0]), "target": target,
            "samples": samples, "perms": [], "splits": [], "cls": cls, "boxcls": boxcls, "oos": True}


def fixed_cases():
    """Deterministic cases run before the random ones: empty QEFs (0 samples) in every dimension
    with the origin inside / outside the box, and the systems of libfive/test/qef.cpp."""
    out = []

    def add(name, N, lo, hi, samples, shrink=1 - 1e-9, target=None):
        m = len(samples)
        out.append({"id": "fixed-" + name, "N": N, "lo": lo, "hi": hi, "shrink": shrink, "target": target,
                    "samples": samples, "perms": [list(reversed(range(m)))] if m >= 2 else [],
                    "splits": [m // 2] if m >= 1 else [], "cls": "fixed", "boxcls": "fixed"})
    for N in (1, 2, 3):
        add("empty-origin-outside-%d" % N, N, [1.0] * N, [2.0] * N, [])
        add("empty-origin-inside-%d" % N, N, [-1.0] * N, [2.0] * N, [])
        add("empty-explicit-target-%d" % N, N, [1.0] * N, [2.0] * N, [], target=([1.25] * N, 0.0))
        add("empty-shrink1-%d" % N, N, [1.0] * N, [2.0] * N, [], shrink=1.0)
    add("dim0-empty", 0, [], [], [])
    add("dim0-two-values", 0, [], [], [([], [], 1.0), ([], [], 3.0)])
    add("dim0-explicit-target", 0, [], [], [([], [], 1.0)], target=([], 5.0))
    # test/qef.cpp "Underconstrained (flat surface)": f = x on [0,1]^2 corners
    flat = [([0.0, 0.0], [1.0, 0.0], 0.0), ([1.0, 0.0], [1.0, 0.0], 1.0),
            ([0.0, 1.0], [1.0, 0.0], 0.0), ([1.0, 1.0], [1.0, 0.0], 1.0)]
    add("flat-surface", 2, [0.0, 0.0], [1.0, 1.0], flat)
    add("flat-surface-box-away", 2, [2.0, 2.0], [3.0, 3.0], flat)
    # "Fully constrained (1D line)"
    add("line-1d", 1, [0.0], [1.0], [([1.0], [1.0], 2.0), ([2.0], [1.0], 3.0)])
    # "Circle outside of region": distance to a circle of radius 1 at the origin, sampled at the
    # corners of [1,2]^2
    circ = []
    for p in ([1.0, 1.0], [2.0, 1.0], [1.0, 2.0], [2.0, 2.0]):
        L = math.hypot(*p)
        circ.append((p, [p[0] / L, p[1] / L], L - 1.0))
    add("circle-outside", 2, [1.0, 1.0], [2.0, 2.0], circ)
    # planes x=0, y=0 (, z=0): optimum on a diagonal, leaves [1,2]^N
    for N in (2, 3):
        smp = [([0.0] * N, [1.0 if a == k else 0.0 for a in range(N)], 0.0) for k in range(N)]
        add("axis-planes-%d" % N, N, [1.0] * N, [2.0] * N, smp)
        add("axis-planes-target-%d" % N, N, [1.0] * N, [2.0] * N, smp, shrink=1.0, target=([0.0] * N, 0.0))
    return out


def case_lines(c):
    L = ["case %s %d" % (c["id"], c["N"]),
         "box " + " ".join(d2hex(x) for x in c["lo"] + c["hi"]),
         "shrink " + d2hex(c["shrink"])]
    if c["target"] is None:
        L.append("target default")
    else:
        L.append("target " + " ".join(d2hex(x) for x in c["target"][0]) + " " + d2hex(c["target"][1]))
    for (p, n, v) in c["samples"]:
        L.append("sample " + " ".join(d2hex(x) for x in list(p) + list(n) + [v]))
    for p in c["perms"]:
        L.append("perm " + " ".join(str(i) for i in p))
    for k in c["splits"]:
        L.append("split %d" % k)
    L.append("end")
    return L
