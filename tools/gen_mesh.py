"""Seeded generator of solids for C03 / C04: CSG (union / intersection / difference / smooth blends)
of 2-4 rotated and translated spheres, boxes, cylinders, tori.  Every primitive is an exact or
conservative distance field and every combinator preserves 1-Lipschitz-ness, so |f(p)| is a lower
bound of the distance from p to the surface {f = 0} (used by the C04 winding oracle).
The solid lies strictly inside the region (checked on the primitives' bounding spheres)."""
import math
import struct


def f2hex(x):
    return "%08x" % struct.unpack("<I", struct.pack("<f", x))[0]


def f32(x):
    return struct.unpack("<f", struct.pack("<f", x))[0]


class Builder:
    def __init__(self):
        self.lines = []
        self.n = 0
        self.cache = {}
        self.X = self.emit("x")
        self.Y = self.emit("y")
        self.Z = self.emit("z")

    def emit(self, *desc):
        key = tuple(desc)
        if key in self.cache:
            return self.cache[key]
        i = self.n
        self.n += 1
        self.lines.append("n %d %s" % (i, " ".join(str(d) for d in desc)))
        self.cache[key] = i
        return i

    def const(self, v):
        return self.emit("const", f2hex(f32(v)))

    def un(self, op, a):
        return self.emit("un", op, a)

    def bin(self, op, a, b):
        return self.emit("bin", op, a, b)

    def eval(self, root, x, y, z):
        """double-precision reference value of node `root` (constants rounded to float32 as in the tree)"""
        v = []
        for ln in self.lines:
            w = ln.split()
            k = w[2]
            if k == "const":
                r = struct.unpack("<f", struct.pack("<I", int(w[3], 16)))[0]
            elif k == "x":
                r = x
            elif k == "y":
                r = y
            elif k == "z":
                r = z
            elif k == "un":
                a = v[int(w[4])]
                op = w[3]
                r = (-a if op == "neg" else abs(a) if op == "abs" else a * a if op == "square" else
                     math.sqrt(a) if op == "sqrt" else math.exp(a) if op == "exp" else math.log(a))
            else:
                a, c = v[int(w[4])], v[int(w[5])]
                op = w[3]
                r = (a + c if op == "add" else a - c if op == "sub" else a * c if op == "mul" else
                     a / c if op == "div" else min(a, c) if op == "min" else max(a, c))
            v.append(r)
            if len(v) - 1 == root:
                return r
        return v[root]

    def add(self, a, b): return self.bin("add", a, b)
    def sub(self, a, b): return self.bin("sub", a, b)
    def mul(self, a, b): return self.bin("mul", a, b)
    def min(self, a, b): return self.bin("min", a, b)
    def max(self, a, b): return self.bin("max", a, b)


def rand_rotation(rng):
    """uniform-ish random rotation matrix (rows), from a random unit quaternion"""
    while True:
        q = [rng.gauss(0, 1) for _ in range(4)]
        n = math.sqrt(sum(c * c for c in q))
        if n > 1e-6:
            break
    w, x, y, z = (c / n for c in q)
    return [[1 - 2 * (y * y + z * z), 2 * (x * y - z * w), 2 * (x * z + y * w)],
            [2 * (x * y + z * w), 1 - 2 * (x * x + z * z), 2 * (y * z - x * w)],
            [2 * (x * z - y * w), 2 * (y * z + x * w), 1 - 2 * (x * x + y * y)]]


def local_coords(b, R, t):
    """u = R^T (p - t) as three node ids"""
    p = [b.sub(ax, b.const(tv)) if tv != 0 else ax for ax, tv in zip((b.X, b.Y, b.Z), t)]
    out = []
    for i in range(3):
        acc = None
        for j in range(3):
            c = R[j][i]
            if abs(c) < 1e-9:
                continue
            term = p[j] if abs(c - 1) < 1e-9 else b.mul(b.const(c), p[j])
            acc = term if acc is None else b.add(acc, term)
        out.append(acc if acc is not None else b.const(0.0))
    return out


def primitive(b, rng, centre_range, size_range, axis_aligned_p=0.25):
    """returns (node, description, bounding radius about the origin)"""
    kind = rng.choice(["sphere", "box", "box", "cylinder", "torus", "wedge"])
    t = [rng.uniform(-centre_range, centre_range) for _ in range(3)]
    if rng.random() < 0.3:      # lattice-aligned centres: surfaces through cell corners / faces
        t = [round(c * 4) / 4 for c in t]
    R = [[1, 0, 0], [0, 1, 0], [0, 0, 1]] if rng.random() < axis_aligned_p else rand_rotation(rng)
    u = local_coords(b, R, t)
    s = lambda: rng.uniform(*size_range)
    tn = math.sqrt(sum(c * c for c in t))
    if kind == "sphere":
        r = s()
        d2 = b.add(b.add(b.un("square", u[0]), b.un("square", u[1])), b.un("square", u[2]))
        node = b.sub(b.un("sqrt", d2), b.const(r))
        desc, br = ("sphere", r), r
    elif kind == "box":
        h = [s(), s(), s()]
        q = [b.sub(b.un("abs", u[i]), b.const(h[i])) for i in range(3)]
        node = b.max(b.max(q[0], q[1]), q[2])
        desc, br = ("box", h), math.sqrt(sum(c * c for c in h))
    elif kind == "cylinder":
        r, h = s(), s()
        rad = b.sub(b.un("sqrt", b.add(b.un("square", u[0]), b.un("square", u[1]))), b.const(r))
        node = b.max(rad, b.sub(b.un("abs", u[2]), b.const(h)))
        desc, br = ("cylinder", r, h), math.sqrt(r * r + h * h)
    elif kind == "wedge":
        # thin truncated wedge / blade: two planes at a small dihedral angle whose common line lies OUTSIDE the
        # solid (cut away by a third plane), thinner than a cell near the cut: a cell there sees both faces but
        # not the truncating one (bounded vertex placement matters exactly here).  All faces are planes with unit
        # normals, so the field is a 1-Lipschitz lower bound of the distance.
        th = math.radians(rng.uniform(3.0, 9.0))
        L, tipd, h = rng.uniform(0.5, 0.9), rng.uniform(0.3, 0.6), rng.uniform(0.25, 0.5)
        # local frame: thin direction u1, length direction u0; faces meet at u0 = L/2 + tipd, cut at u0 = L/2
        tip = L / 2 + tipd
        cs, sn = math.cos(th), math.sin(th)
        d0 = b.sub(u[0], b.const(tip))
        fp = b.add(b.mul(b.const(cs), u[1]), b.mul(b.const(sn), d0))
        fm = b.add(b.mul(b.const(-cs), u[1]), b.mul(b.const(sn), d0))
        ends = b.max(b.sub(u[0], b.const(L / 2)), b.sub(b.const(-L / 2), u[0]))
        node = b.max(b.max(b.max(fp, fm), ends), b.sub(b.un("abs", u[2]), b.const(h)))
        thick = (L + tipd) * math.tan(th)
        desc, br = ("wedge", math.degrees(th), L, tipd, h), math.sqrt((L / 2) ** 2 + thick ** 2 + h * h)
    else:
        R0 = s()
        r = rng.uniform(0.25, 0.6) * R0
        ring = b.sub(b.un("sqrt", b.add(b.un("square", u[0]), b.un("square", u[1]))), b.const(R0))
        node = b.sub(b.un("sqrt", b.add(b.un("square", ring), b.un("square", u[2]))), b.const(r))
        desc, br = ("torus", R0, r), R0 + r
    return node, {"kind": desc, "t": t, "R": R}, tn + br


def combine(b, rng, a, c, smooth_p=0.25):
    op = rng.choice(["union", "union", "intersection", "difference"])
    if op == "difference":
        c = b.un("neg", c)
    if rng.random() < smooth_p:
        k = rng.choice([0.1, 0.2, 0.3])
        if rng.random() < 0.5:
            # polynomial smooth min / max:  min(a,b) - h^2/(4k),  h = max(k - |a-b|, 0)
            h = b.max(b.sub(b.const(k), b.un("abs", b.sub(a, c))), b.const(0.0))
            corr = b.mul(b.un("square", h), b.const(1.0 / (4 * k)))
            if op == "union":
                return b.sub(b.min(a, c), corr), "smooth-" + op
            return b.add(b.max(a, c), corr), "smooth-" + op
        # exponential blend (libfive's blend_expt):  -log(exp(-m a) + exp(-m b)) / m
        m = rng.choice([8.0, 12.0])
        if op == "union":
            e = b.add(b.un("exp", b.mul(b.const(-m), a)), b.un("exp", b.mul(b.const(-m), c)))
            return b.mul(b.un("log", e), b.const(-1.0 / m)), "blend-" + op
        e = b.add(b.un("exp", b.mul(b.const(m), a)), b.un("exp", b.mul(b.const(m), c)))
        return b.mul(b.un("log", e), b.const(1.0 / m)), "blend-" + op
    if op == "union":
        return b.min(a, c), op
    return b.max(a, c), op


def gen_shape(rng, half=2.0):
    """returns dict(lines, root, desc, region)"""
    while True:
        b = Builder()
        nprim = rng.choice([1, 2, 2, 3, 3, 4])
        prims, ops = [], []
        node, d, br = primitive(b, rng, 0.7, (0.25, 0.6))
        prims.append(d)
        maxbr = br
        for _ in range(nprim - 1):
            n2, d2, br2 = primitive(b, rng, 0.7, (0.25, 0.6))
            node, op = combine(b, rng, node, n2)
            prims.append(d2)
            ops.append(op)
            maxbr = max(maxbr, br2)
        # smooth unions bulge by at most k/4 <= 0.075, blends by log(2)/m <= 0.09
        if maxbr + 0.1 >= half - 0.2:
            continue
        # reject (nearly) empty solids: at least 1 % of the cube [-1.6, 1.6]^3 must be inside
        inside = sum(1 for _ in range(300)
                     if b.eval(node, rng.uniform(-1.6, 1.6), rng.uniform(-1.6, 1.6), rng.uniform(-1.6, 1.6)) < 0)
        if inside >= 3:
            break
    # region: the cube [-half, half]^3, sometimes shifted / non-cubic but always containing the solid
    lo = [-half] * 3
    hi = [half] * 3
    mode = rng.random()
    if mode < 0.25:
        sh = [rng.uniform(-0.1, 0.1) for _ in range(3)]
        lo = [l + s for l, s in zip(lo, sh)]
        hi = [h + s for h, s in zip(hi, sh)]
    elif mode < 0.4:
        hi = [h + rng.uniform(0, 1.0) for h in hi]
    return {"builder": b, "lines": b.lines, "root": node, "prims": prims, "ops": ops, "region": (lo, hi), "nodes": b.n}


def gen_blade(rng, levels):
    """Directed family for the 'bounded vertex placement' mechanism (C04): an axis-aligned thin truncated wedge
    whose two faces fall into ONE row of cells of the level-`levels` grid of the cube [-1,1]^3 near its cut-off end,
    so that a cell there sees both faces (an exact planar fit whose crease line lies outside the cell and off the
    solid) but not the truncating plane.  Returns the same dict as gen_shape plus the min_feature to use."""
    b = Builder()
    half = 1.0
    cell = 2 * half / (2 ** levels)
    perm = rng.choice([(0, 1, 2), (1, 2, 0), (2, 0, 1), (0, 2, 1), (1, 0, 2), (2, 1, 0)])
    ax = [(b.X, b.Y, b.Z)[i] for i in perm]            # ax[0] length, ax[1] thin, ax[2] width
    th = math.radians(rng.uniform(3.5, 8.0))
    sgn = rng.choice([1.0, -1.0])                      # which way the blade points
    # the SOLID must lie strictly inside the region (|coordinates| <= 0.85): choose the cut first, the faces'
    # common line `tip` beyond it (possibly outside the region: it is not part of the solid)
    cut = rng.uniform(0.1, 0.8)
    tip = cut + rng.uniform(3.0, 5.0) * cell           # thickness at the cut: 2*(tip-cut)*tan(th) below one cell
    while 2 * (tip - cut) * math.tan(th) > 0.9 * cell:
        tip -= 0.5 * cell
    base = max(cut - rng.uniform(0.5, 0.9), -0.85)
    row = rng.randint(-(2 ** levels) // 4, (2 ** levels) // 4)
    c1 = (row + 0.5) * cell + rng.uniform(-0.1, 0.1) * cell      # thin direction centred in a row of cells
    w = rng.uniform(0.35, 0.6)
    u0 = b.mul(b.const(sgn), ax[0]) if sgn < 0 else ax[0]
    u1 = b.sub(ax[1], b.const(c1))
    d0 = b.sub(u0, b.const(tip))
    cs, sn = math.cos(th), math.sin(th)
    fp = b.add(b.mul(b.const(cs), u1), b.mul(b.const(sn), d0))
    fm = b.add(b.mul(b.const(-cs), u1), b.mul(b.const(sn), d0))
    ends = b.max(b.sub(u0, b.const(cut)), b.sub(b.const(base), u0))
    node = b.max(b.max(b.max(fp, fm), ends), b.sub(b.un("abs", ax[2]), b.const(w)))
    mf = cell * rng.uniform(1.02, 1.5)
    return {"builder": b, "lines": b.lines, "root": node, "prims": [{"kind": ("blade", math.degrees(th), tip, cut, base, c1, w, perm, sgn)}],
            "ops": [], "region": ([-half] * 3, [half] * 3), "nodes": b.n, "min_feature": mf}


def gen_octant_sphere(rng):
    """Directed family for the acceleration volume tree (C04): a sphere in the cube [-4,4]^3 placed so that, for a
    coarse volume tree (4x the mesh's min_feature), some level-1 cell of the volume tree is entered by the surface
    through ONE octant only (all eight octants over the runs: the centre's signs are random)."""
    b = Builder()
    sg = [rng.choice([-1.0, 1.0]) for _ in range(3)]
    c = [sg[i] * rng.choice([1.0, 1.0, 0.75, 1.25]) for i in range(3)]
    r = rng.choice([2.3, 2.3, 2.2, 2.4, 1.9])
    u = [b.sub(ax, b.const(cv)) for ax, cv in zip((b.X, b.Y, b.Z), c)]
    d2 = b.add(b.add(b.un("square", u[0]), b.un("square", u[1])), b.un("square", u[2]))
    node = b.sub(b.un("sqrt", d2), b.const(r))
    return {"builder": b, "lines": b.lines, "root": node, "prims": [{"kind": ("octant-sphere", r, c)}], "ops": [],
            "region": ([-4.0] * 3, [4.0] * 3), "nodes": b.n, "min_feature": rng.choice([0.25, 0.25, 0.3])}


def min_feature_for_levels(rng, size, levels):
    """a min_feature for which Region::withResolution picks exactly `levels` subdivisions of `size`"""
    cell = size / (2 ** levels)
    return cell * rng.uniform(1.02, 1.9)
