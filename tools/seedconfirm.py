#!/usr/bin/env python3
"""Confirm a seeded defect independently:  seedconfirm.py <dir with patch.diff + demo.cpp> [--keep]
In a scratch worktree of /repo (/tmp/wt-confirm, RelWithDebInfo like the baseline build, guard OFF):
  1. clean tree: build, demo must exit 0
  2. patch applied: build, libfive's suite must pass every BASELINE stable test, demo must exit non-zero
Prints a JSON summary; exit 0 iff all of that holds.  The worktree is left clean (and kept for the
next confirmation; remove it with `git -C /repo worktree remove --force /tmp/wt-confirm`)."""
import json, os, subprocess, sys, xml.etree.ElementTree as ET

WT = "/tmp/wt-confirm"
B = os.path.join(WT, "_build")


def sh(cmd, **kw):
    return subprocess.run(cmd, shell=True, text=True, stdout=subprocess.PIPE, stderr=subprocess.STDOUT, **kw)


def build():
    r = sh("ninja -C %s -j12 libfive-test libfive-stdlib 2>&1 | tail -n 30" % B)
    return r.returncode == 0 and "FAILED" not in r.stdout, r.stdout[-3000:]


def suite():
    out = "/tmp/wt-confirm-junit.xml"
    sh("./libfive-test -r junit -o %s" % out, cwd=os.path.join(B, "libfive/test"), timeout=3600)
    status = {}
    for tc in ET.parse(out).getroot().iter("testcase"):
        full = "%s::%s" % (tc.get("classname", ""), tc.get("name", ""))
        bad = any(ch.tag in ("failure", "error") for ch in tc)
        status[full] = status.get(full, True) and not bad
    os.remove(out)
    base = json.load(open("/root/.vp/BASELINE.json"))["stable_pass"]
    failed, missing = [], []
    for t in base:
        key = t
        if key not in status:
            c = [k for k in status if k.endswith(t.split("::", 1)[1])]
            if not c:
                missing.append(t); continue
            key = c[0]
        if not status[key]:
            failed.append(t)
    return len(base), failed, missing


def demo(src):
    exe = "/tmp/wt-confirm-demo"
    r = sh("g++ -std=gnu++17 -O2 -march=native -DNDEBUG -I libfive/include -I libfive/stdlib -isystem /usr/include/eigen3 "
           "%s -o %s _build/libfive/src/libfive.so _build/libfive/stdlib/libfive-stdlib.so "
           "-Wl,-rpath,%s/libfive/src -Wl,-rpath,%s/libfive/stdlib -lpthread 2>&1 | tail -n 20" % (src, exe, B, B), cwd=WT)
    if not os.path.exists(exe):
        return None, "demo does not compile: " + r.stdout[-1500:]
    try:
        r = sh("timeout 900 " + exe, cwd=WT)
    finally:
        pass
    rc = r.returncode
    os.remove(exe)
    return rc, r.stdout[-800:]


def main():
    d = os.path.abspath(sys.argv[1])
    res = {"dir": d}
    if not os.path.exists(WT):
        sh("git -C /repo worktree add --detach %s HEAD" % WT)
    sh("git checkout -- . && git checkout --detach $(git -C /repo rev-parse HEAD)", cwd=WT)
    if not os.path.exists(os.path.join(B, "build.ninja")):
        sh("cmake -G Ninja -S . -B _build -DBUILD_STUDIO_APP=OFF -DBUILD_GUILE_BINDINGS=OFF -DBUILD_PYTHON_BINDINGS=OFF "
           "-DCMAKE_BUILD_TYPE=RelWithDebInfo -DCMAKE_CXX_FLAGS=-Wno-error", cwd=WT)
    ok, out = build()
    if not ok:
        print(json.dumps({"error": "clean build failed", "out": out})); return 2
    rc0, out0 = demo(os.path.join(d, "demo.cpp"))
    res["demo_clean"] = {"rc": rc0, "tail": out0[-300:]}
    r = sh("git apply %s" % os.path.join(d, "patch.diff"), cwd=WT)
    if r.returncode != 0:
        print(json.dumps({"error": "patch does not apply", "out": r.stdout})); return 2
    try:
        ok, out = build()
        res["build_patched"] = ok
        if ok:
            n, failed, missing = suite()
            res["suite_patched"] = {"baseline": n, "failed": failed, "missing": missing[:5]}
            rc1, out1 = demo(os.path.join(d, "demo.cpp"))
            res["demo_patched"] = {"rc": rc1, "tail": out1[-600:]}
    finally:
        sh("git checkout -- .", cwd=WT)
    build()
    good = (rc0 == 0 and res.get("build_patched") and not res["suite_patched"]["failed"]
            and not res["suite_patched"]["missing"] and res["demo_patched"]["rc"] not in (0, None))
    res["confirmed"] = bool(good)
    print(json.dumps(res, indent=1))
    return 0 if good else 1


if __name__ == "__main__":
    sys.exit(main())
