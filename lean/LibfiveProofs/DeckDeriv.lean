/-
  Helper lemmas for C06Ext (gradients at EXPRESSION level): the real-number interpretation `IR` of
  the opcodes that C06's value kernels `evR` correspond to, the structure of the clauses emitted by
  `Deck.build`, the leaf seeds of the derivative evaluator on a deck, and the induction
  `deck_gradient_aux` that carries the chain rule of the tape (LibfiveProofs/Deriv.lean,
  `tape_gradient_aux`) over to the denotation of every node of the deck.
-/
import LibfiveProofs.Deriv
import LibfiveProofs.Deck
import LibfiveProofs.OptimizeSound
import LibfiveProofs.WellArity

set_option linter.unusedSimpArgs false
set_option linter.unusedVariables false

namespace Libfive.DeckDeriv
open Libfive Expr Libfive.Deck Libfive.DerivR Libfive.Optimize

variable {C : Type}

/-! ### the interpretation C06's value kernels correspond to -/

/-- The interpretation of expressions over the reals whose tape reading (`evTape`) is exactly C06's
    value semantics `evR` (`Real.sin`, `Real.sqrt`, `Real.rpow`, …).  Constants are read through
    `cst`; oracles are excluded from the theorems, their value and the value of the invalid tree
    are fixed to `0`. -/
noncomputable def IR (cst : C → ℝ) : Interp C ℝ where
  const := cst
  un := fun op a => evR op a 0
  bin := evR
  orc := fun _ _ _ _ => 0
  bad := 0

/-- the value kernel of a unary opcode does not read its second operand slot -/
theorem evR_unary (op : Op) (h : op.args = some 1) (a b b' : ℝ) : evR op a b = evR op a b' := by
  cases op <;> first | rfl | (simp [Op.args] at h)

/-- **correspondence**: the point evaluator's reading of a clause under `IR` is `evR` -/
theorem evTape_IR (cst : C → ℝ) : evTape (IR cst) = evR := by
  funext op a b
  unfold evTape
  by_cases h : op.args = some 1
  · simp only [h, if_true, IR]
    exact evR_unary op h a 0 b
  · simp only [h, if_false, IR]

/-! ### exact real constants: a lawful instance -/

/-- constants are real numbers, folding is exact -/
noncomputable def KR : ConstOps ℝ where
  isZero c := decide (c = 0)
  isOne c := decide (c = 1)
  isNegOne c := decide (c = -1)
  foldUn op c := evR op c 0
  foldBin := evR
  zero := 0
  one := 1
  lt a b := decide (a < b)
  eqC a b := decide (a = b)
  fma a b c := a * b + c

/-- the hypotheses `LawfulOpt` of `optimize_sound` / `flatten_sound` hold for the real
    interpretation with exact real constants -/
theorem IR_lawful : LawfulOpt KR (IR (fun c : ℝ => c)) where
  add _ _ := rfl
  sub _ _ := rfl
  mul _ _ := rfl
  div _ _ := rfl
  neg _ := rfl
  square _ := rfl
  min_self a := min_self a
  max_self a := max_self a
  abs_abs a := abs_abs a
  abs_square a := abs_of_nonneg (mul_self_nonneg a)
  pow_one a c h := by
    have hc : c = 1 := by simpa [KR] using h
    subst hc
    show a ^ (1 : ℝ) = a
    exact Real.rpow_one a
  nthRoot_one a c h := by
    have hc : c = 1 := by simpa [KR] using h
    subst hc
    show (if 0 ≤ a then a ^ ((1 : ℝ) / 1) else -((-a) ^ ((1 : ℝ) / 1))) = a
    split <;> simp
  isZero c h := by simpa [KR, IR] using h
  isOne c h := by simpa [KR, IR] using h
  isNegOne c h := by simpa [KR, IR] using h
  foldUn _ _ := rfl
  foldBin _ _ _ := rfl
  zero_val := rfl
  one_val := rfl
  eqC_sound a b h := by simpa [KR, IR] using h
  fma_val _ _ _ := rfl
  min_ac := ⟨fun a b => min_comm a b, fun a b c => min_assoc a b c⟩
  max_ac := ⟨fun a b => max_comm a b, fun a b c => max_assoc a b c⟩

/-! ### the clauses `Deck.build` emits -/

section
variable [DecidableEq C]

theorem mem_tapeK (flat : List (Expr C)) : ∀ k, ∀ c ∈ tapeK flat k,
    ∃ i, i < k ∧ clauseAt flat i (flat.getD i invalid) = some c := by
  intro k
  induction k with
  | zero => intro c hc; simp [tapeK] at hc
  | succ k ih =>
    intro c hc
    simp only [tapeK] at hc
    split at hc
    · rename_i c' hc'
      rcases List.mem_cons.mp hc with h | h
      · subst h; exact ⟨k, Nat.lt_succ_self k, hc'⟩
      · obtain ⟨i, hi, e⟩ := ih c h
        exact ⟨i, Nat.lt_succ_of_lt hi, e⟩
    · obtain ⟨i, hi, e⟩ := ih c hc
      exact ⟨i, Nat.lt_succ_of_lt hi, e⟩

/-- Every clause of the deck's tape comes from a unary or a binary node of `flat` whose operands
    are nodes of `flat`; its operand slots are the operands' slots (`0` for a missing operand). -/
theorem clause_cases (flat : List (Expr C)) (root : Expr C) (hT : TopoFlat flat)
    (hA : ∀ m ∈ flat, nodeArity m) (hno : ∀ m ∈ flat, isOracle m = false)
    (c : Clause) (hc : c ∈ (build flat root).t) :
    (∃ op a, un op a ∈ flat ∧ a ∈ flat ∧ op.args = some 1 ∧
        c.op = op ∧ c.a = idOf flat a ∧ c.b = 0) ∨
    (∃ op a b, bin op a b ∈ flat ∧ a ∈ flat ∧ b ∈ flat ∧ op.args = some 2 ∧
        c.op = op ∧ c.a = idOf flat a ∧ c.b = idOf flat b) := by
  obtain ⟨i, hi, hci⟩ := mem_tapeK flat flat.length c hc
  have hmem := getD_mem flat i hi
  obtain ⟨_, _, htopo⟩ := hT
  have hin : ∀ a ∈ children (flat.getD i invalid), a ∈ flat := fun a ha =>
    List.idxOf_lt_length_iff.mp (Nat.lt_trans (htopo i hi a ha) hi)
  cases hm : flat.getD i invalid with
  | un op a =>
    rw [hm] at hci hmem hin
    simp only [clauseAt, Option.some.injEq] at hci
    have har : op.args = some 1 := hA _ hmem
    left
    refine ⟨op, a, hmem, hin a (by simp [children]), har, ?_, ?_, ?_⟩ <;> rw [← hci]
  | bin op a b =>
    rw [hm] at hci hmem hin
    simp only [clauseAt, Option.some.injEq] at hci
    have har : op.args = some 2 := hA _ hmem
    right
    refine ⟨op, a, b, hmem, hin a (by simp [children]), hin b (by simp [children]), har, ?_, ?_, ?_⟩ <;>
      rw [← hci]
  | oracle k =>
    rw [hm] at hmem
    have := hno _ hmem
    simp [isOracle] at this
  | const c0 => rw [hm] at hci; simp [clauseAt] at hci
  | x => rw [hm] at hci; simp [clauseAt] at hci
  | y => rw [hm] at hci; simp [clauseAt] at hci
  | z => rw [hm] at hci; simp [clauseAt] at hci
  | var v => rw [hm] at hci; simp [clauseAt] at hci
  | remap t a b c' => rw [hm] at hci; simp [clauseAt] at hci
  | apply t v w => rw [hm] at hci; simp [clauseAt] at hci
  | invalid => rw [hm] at hci; simp [clauseAt] at hci

theorem args_ne_oracle {op : Op} {n : Nat} (h : op.args = some (n + 1)) : op ≠ Op.oracle := by
  intro e; rw [e] at h; simp [Op.args] at h

/-- a deck without oracle nodes has no ORACLE clause -/
theorem build_no_oracle (flat : List (Expr C)) (root : Expr C) (hT : TopoFlat flat)
    (hA : ∀ m ∈ flat, nodeArity m) (hno : ∀ m ∈ flat, isOracle m = false) :
    ∀ c ∈ (build flat root).t, c.op ≠ Op.oracle := by
  intro c hc
  rcases clause_cases flat root hT hA hno c hc with ⟨op, a, _, _, har, ho, _, _⟩ | ⟨op, a, b, _, _, _, har, ho, _, _⟩
  · rw [ho]; exact args_ne_oracle har
  · rw [ho]; exact args_ne_oracle har

theorem idOf_le (flat : List (Expr C)) (m : Expr C) : idOf flat m ≤ flat.length := Nat.sub_le _ _

theorem idOf_pos (flat : List (Expr C)) (m : Expr C) (hm : m ∈ flat) : 0 < idOf flat m := by
  have := List.idxOf_lt_length_iff.mpr hm
  unfold idOf; omega

/-- slot `0` (the dummy slot) is no clause's output -/
theorem zero_notin_ids_build (flat : List (Expr C)) (root : Expr C) : 0 ∉ ids (build flat root).t := by
  intro h
  obtain ⟨j, hj, e⟩ := ids_tapeK flat flat.length 0 h
  omega

/-- the node stored in slot `idOf flat m` is `m` -/
theorem node_of_slot (flat : List (Expr C)) (m : Expr C) (hm : m ∈ flat) :
    flat.getD (flat.length - idOf flat m) invalid = m := by
  have hlt := List.idxOf_lt_length_iff.mpr hm
  have : flat.length - idOf flat m = flat.idxOf m := by unfold idOf; omega
  rw [this]
  exact getD_idxOf flat m hlt

/-- a slot `k ≤ n` that holds a (valid) node `m` is `m`'s slot -/
theorem slot_of_node (flat : List (Expr C)) (hnd : flat.Nodup) (k : Nat) (hk : k ≤ flat.length)
    (m : Expr C) (hne : m ≠ invalid) (h : flat.getD (flat.length - k) invalid = m) :
    m ∈ flat ∧ idOf flat m = k := by
  by_cases hk0 : k = 0
  · subst hk0
    have : flat.getD (flat.length - 0) invalid = invalid := by simp [List.getD]
    rw [this] at h
    exact absurd h.symm hne
  · have hlt : flat.length - k < flat.length := by omega
    rw [getD_of_lt flat _ hlt] at h
    have hmem : m ∈ flat := h ▸ List.getElem_mem hlt
    refine ⟨hmem, ?_⟩
    have hidx : flat.idxOf m = flat.length - k := by
      rw [← h]; exact hnd.idxOf_getElem _ hlt
    unfold idOf; omega

end

/-! ### leaf seeds -/

/-- the derivative of a leaf slot along a curve of environments with velocity `d` -/
def leafSeed (d : Env ℝ) : Expr C → ℝ
  | Expr.x => d.x
  | Expr.y => d.y
  | Expr.z => d.z
  | Expr.var v => d.vars v
  | _ => 0

/-- the seed lane matching `slots0`: slot `s` holds the velocity of the leaf stored there -/
def seed0 (d : Env ℝ) (flat : List (Expr C)) : Nat → ℝ :=
  fun s => leafSeed d (flat.getD (flat.length - s) invalid)

/-- a curve of environments `γ` has velocity `d` at `s0` -/
structure CurveDeriv (γ : ℝ → Env ℝ) (d : Env ℝ) (s0 : ℝ) : Prop where
  x : HasDerivAt (fun s => (γ s).x) d.x s0
  y : HasDerivAt (fun s => (γ s).y) d.y s0
  z : HasDerivAt (fun s => (γ s).z) d.z s0
  vars : ∀ v, HasDerivAt (fun s => (γ s).vars v) (d.vars v) s0

theorem slots0_hasDerivAt (cst : C → ℝ) (flat : List (Expr C)) (γ : ℝ → Env ℝ) (d : Env ℝ) (s0 : ℝ)
    (h : CurveDeriv γ d s0) (k : Nat) :
    HasDerivAt (fun s => slots0 (IR cst) (γ s) flat k) (seed0 d flat k) s0 := by
  unfold slots0 seed0
  cases flat.getD (flat.length - k) invalid with
  | x => exact h.x
  | y => exact h.y
  | z => exact h.z
  | var v => exact h.vars v
  | _ => exact hasDerivAt_const _ _

/-- the three axis curves through `e` -/
def shiftX (e : Env ℝ) (s : ℝ) : Env ℝ := { e with x := e.x + s }
def shiftY (e : Env ℝ) (s : ℝ) : Env ℝ := { e with y := e.y + s }
def shiftZ (e : Env ℝ) (s : ℝ) : Env ℝ := { e with z := e.z + s }
/-- moving the free variable `v` -/
def shiftVar (e : Env ℝ) (v : Nat) (s : ℝ) : Env ℝ :=
  { e with vars := fun w => if w = v then e.vars w + s else e.vars w }

def unitX : Env ℝ := ⟨1, 0, 0, fun _ => 0⟩
def unitY : Env ℝ := ⟨0, 1, 0, fun _ => 0⟩
def unitZ : Env ℝ := ⟨0, 0, 1, fun _ => 0⟩
def unitVar (v : Nat) : Env ℝ := ⟨0, 0, 0, fun w => if w = v then 1 else 0⟩

theorem shiftX_zero (e : Env ℝ) : shiftX e 0 = e := by cases e; simp [shiftX]
theorem shiftY_zero (e : Env ℝ) : shiftY e 0 = e := by cases e; simp [shiftY]
theorem shiftZ_zero (e : Env ℝ) : shiftZ e 0 = e := by cases e; simp [shiftZ]
theorem shiftVar_zero (e : Env ℝ) (v : Nat) : shiftVar e v 0 = e := by
  cases e; simp [shiftVar]

theorem curve_shiftX (e : Env ℝ) : CurveDeriv (shiftX e) unitX 0 :=
  ⟨(hasDerivAt_id (0 : ℝ)).const_add e.x, hasDerivAt_const _ _, hasDerivAt_const _ _,
    fun _ => hasDerivAt_const _ _⟩
theorem curve_shiftY (e : Env ℝ) : CurveDeriv (shiftY e) unitY 0 :=
  ⟨hasDerivAt_const _ _, (hasDerivAt_id (0 : ℝ)).const_add e.y, hasDerivAt_const _ _,
    fun _ => hasDerivAt_const _ _⟩
theorem curve_shiftZ (e : Env ℝ) : CurveDeriv (shiftZ e) unitZ 0 :=
  ⟨hasDerivAt_const _ _, hasDerivAt_const _ _, (hasDerivAt_id (0 : ℝ)).const_add e.z,
    fun _ => hasDerivAt_const _ _⟩
theorem curve_shiftVar (e : Env ℝ) (v : Nat) : CurveDeriv (shiftVar e v) (unitVar v) 0 := by
  refine ⟨hasDerivAt_const _ _, hasDerivAt_const _ _, hasDerivAt_const _ _, fun w => ?_⟩
  by_cases h : w = v
  · simp only [shiftVar, unitVar, h, if_true]
    exact (hasDerivAt_id (0 : ℝ)).const_add (e.vars v)
  · simp only [shiftVar, unitVar, h, if_false]
    exact hasDerivAt_const _ _

/-! ### where the evaluators keep X, Y, Z -/

section
variable [DecidableEq C]

/-- `deck->X`, `deck->Y`, `deck->Z` (deck.cpp, "Make sure that X, Y, Z have been allocated space"):
    the slot of the axis node if the tree mentions it, otherwise the next fresh slot
    (`clauses.size()`, which starts at `flat.size() + 1` because of the dummy entry). -/
def deckAxes (flat : List (Expr C)) : Nat × Nat × Nat :=
  let n0 := flat.length + 1
  let X := if Expr.x ∈ flat then idOf flat Expr.x else n0
  let n1 := if Expr.x ∈ flat then n0 else n0 + 1
  let Y := if Expr.y ∈ flat then idOf flat Expr.y else n1
  let n2 := if Expr.y ∈ flat then n1 else n1 + 1
  let Z := if Expr.z ∈ flat then idOf flat Expr.z else n2
  (X, Y, Z)

/-- what the theorems need of an axis slot: the axis node's slot, or a slot outside the deck -/
def AxisSlot (flat : List (Expr C)) (ax : Expr C) (S : Nat) : Prop :=
  if ax ∈ flat then S = idOf flat ax else flat.length < S

theorem deckAxes_spec (flat : List (Expr C)) :
    AxisSlot flat Expr.x (deckAxes flat).1 ∧ AxisSlot flat Expr.y (deckAxes flat).2.1 ∧
    AxisSlot flat Expr.z (deckAxes flat).2.2 := by
  unfold AxisSlot deckAxes
  refine ⟨?_, ?_, ?_⟩
  · by_cases hx : Expr.x ∈ flat <;> simp [hx]
  · by_cases hx : Expr.x ∈ flat <;> by_cases hy : Expr.y ∈ flat <;> simp [hx, hy]
  · by_cases hx : Expr.x ∈ flat <;> by_cases hy : Expr.y ∈ flat <;> by_cases hz : Expr.z ∈ flat
    all_goals simp [hx, hy, hz]
    all_goals omega

/-- on the slots of the deck, the unit seed of an axis slot is the velocity of the leaf stored
    there: `1` exactly in the slot that holds the axis node -/
theorem axisSeed_eq (flat : List (Expr C)) (hnd : flat.Nodup) (ax : Expr C) (hax : ax ≠ invalid)
    (S : Nat) (hS : AxisSlot flat ax S) (k : Nat) (hk : k ≤ flat.length) :
    (k = S) ↔ flat.getD (flat.length - k) invalid = ax := by
  unfold AxisSlot at hS
  constructor
  · intro h
    subst h
    by_cases hm : ax ∈ flat
    · rw [if_pos hm] at hS
      rw [hS]; exact node_of_slot flat ax hm
    · rw [if_neg hm] at hS; omega
  · intro h
    obtain ⟨hm, hid⟩ := slot_of_node flat hnd k hk ax hax h
    rw [if_pos hm] at hS
    rw [hS, hid]

/-- the constructor's seed rows (`d(X).row(0) = 1` …), restricted to the deck's slots, are the
    velocities of the three axis curves -/
theorem spatialSeed_eq_seed0 (flat : List (Expr C)) (hnd : flat.Nodup) (X Y Z : Nat)
    (hX : AxisSlot flat Expr.x X) (hY : AxisSlot flat Expr.y Y) (hZ : AxisSlot flat Expr.z Z)
    (k : Nat) (hk : k ≤ flat.length) :
    spatialSeed RO X Y Z 0 k = seed0 unitX flat k ∧
    spatialSeed RO X Y Z 1 k = seed0 unitY flat k ∧
    spatialSeed RO X Y Z 2 k = seed0 unitZ flat k := by
  have ex := axisSeed_eq flat hnd Expr.x (by simp) X hX k hk
  have ey := axisSeed_eq flat hnd Expr.y (by simp) Y hY k hk
  have ez := axisSeed_eq flat hnd Expr.z (by simp) Z hZ k hk
  unfold seed0
  simp only [spatialSeed, RO]
  cases hm : flat.getD (flat.length - k) invalid <;> rw [hm] at ex ey ez <;>
    simp [leafSeed, unitX, unitY, unitZ, ex, ey, ez]

end

/-- the Jacobian evaluator's unit seed in the slot of the free variable `v`, restricted to the
    deck's slots, is the velocity of the curve that moves `v` -/
theorem varSeed_eq_seed0 [DecidableEq C] (flat : List (Expr C)) (hnd : flat.Nodup) (v : Nat)
    (hv : Expr.var v ∈ flat) (k : Nat) (hk : k ≤ flat.length) :
    (if k = idOf flat (Expr.var v) then (1 : ℝ) else 0) = seed0 (unitVar v) flat k := by
  have ev := axisSeed_eq flat hnd (Expr.var v) (by simp) (idOf flat (Expr.var v))
    (by unfold AxisSlot; rw [if_pos hv]) k hk
  unfold seed0
  cases hm : flat.getD (flat.length - k) invalid <;> rw [hm] at ev <;>
    simp [leafSeed, unitVar, ev]

/-! ### the chain rule along the deck -/

section
variable [DecidableEq C]

/-- the clause-level side condition `D` (C06's `Dom`) of a node, on the denotations of its operands
    along the curve `γ`; the missing operand of a unary node is the dummy slot, which holds `0` -/
def nodeDom (D : Op → (ℝ → ℝ) → (ℝ → ℝ) → ℝ → Prop) (cst : C → ℝ) (γ : ℝ → Env ℝ) (s0 : ℝ) :
    Expr C → Prop
  | un op a => D op (fun s => denote (IR cst) a (γ s)) (fun _ => 0) s0
  | bin op a b => D op (fun s => denote (IR cst) a (γ s)) (fun s => denote (IR cst) b (γ s)) s0
  | _ => True

/-- running the deck's tape under `evR` (as `evalListG`, the shape `tape_gradient_aux` is stated
    for) leaves every node's denotation under `IR` in its slot -/
theorem build_evalG (cst : C → ℝ) (e : Env ℝ) (flat : List (Expr C)) (root : Expr C)
    (hT : TopoFlat flat) (hA : ∀ m ∈ flat, nodeArity m) (hno : ∀ m ∈ flat, isOracle m = false)
    (m : Expr C) (hm : m ∈ flat) :
    evalListG (fun c => evR c.op) (build flat root).t (slots0 (IR cst) e flat) (idOf flat m)
      = denote (IR cst) m e := by
  rw [evalListG_eq_evalList evR (orcTable (IR cst) e flat) _ (build_no_oracle flat root hT hA hno)]
  have := build_eval (IR cst) e flat root hT hA m hm
  rw [evTape_IR] at this
  exact this

/-- the dummy slot keeps the value `0` -/
theorem build_evalG_zero (cst : C → ℝ) (e : Env ℝ) (flat : List (Expr C)) (root : Expr C)
    (hT : TopoFlat flat) (hA : ∀ m ∈ flat, nodeArity m) (hno : ∀ m ∈ flat, isOracle m = false) :
    evalListG (fun c => evR c.op) (build flat root).t (slots0 (IR cst) e flat) 0 = 0 := by
  rw [evalListG_eq_evalList evR (fun _ => 0) _ (build_no_oracle flat root hT hA hno)]
  rw [evalList_notin _ _ _ _ _ (zero_notin_ids_build flat root)]
  simp [slots0, List.getD, leafVal, IR]

/-- **The chain rule along a deck.**  `D` / `hK` are C06's `Dom` / `kernel_hasDerivAt` (passed as
    parameters so that this file does not depend on the theorem file).  For a curve of
    environments `γ`, a seed lane `denv` holding the velocities of the leaf slots, and the clause
    side conditions at every node: the derivative pass over the deck's tape (values = the value
    pass at `γ s0`) computes, in the slot of every node `m`, the derivative of `s ↦ ⟦m⟧ (γ s)`. -/
theorem deck_gradient_aux (D : Op → (ℝ → ℝ) → (ℝ → ℝ) → ℝ → Prop) (cv : Bool)
    (hK : ∀ (op : Op) (a b : ℝ → ℝ) (a' b' t : ℝ), HasDerivAt a a' t → HasDerivAt b b' t →
      D op a b t → (op = Op.constVar → cv = false) →
      HasDerivAt (fun s => evR op (a s) (b s)) (dk RO cv op (a t) (b t) (evR op (a t) (b t)) a' b') t)
    (cst : C → ℝ) (flat : List (Expr C)) (root : Expr C)
    (hT : TopoFlat flat) (hA : ∀ m ∈ flat, nodeArity m) (hno : ∀ m ∈ flat, isOracle m = false)
    (hcv : ∀ a, un Op.constVar a ∈ flat → cv = false)
    (γ : ℝ → Env ℝ) (denv : Nat → ℝ) (s0 : ℝ) (orc : Nat → ℝ)
    (hleaf : ∀ k, k ≤ flat.length →
      HasDerivAt (fun s => slots0 (IR cst) (γ s) flat k) (denv k) s0)
    (hdom : ∀ m ∈ flat, nodeDom D cst γ s0 m)
    (m : Expr C) (hm : m ∈ flat) :
    HasDerivAt (fun s => denote (IR cst) m (γ s))
      (derivRow RO cv (evalList evR orc (build flat root).t (slots0 (IR cst) (γ s0) flat))
        (build flat root).t denv (idOf flat m)) s0 := by
  have hnoc := build_no_oracle flat root hT hA hno
  have hEv : ∀ v, evalList evR orc (build flat root).t v =
      evalListG (fun c => evR c.op) (build flat root).t v :=
    fun v => (evalListG_eq_evalList evR orc _ hnoc v).symm
  have hval : ∀ m' ∈ flat, (fun s => evalListG (fun c => evR c.op) (build flat root).t
      (slots0 (IR cst) (γ s) flat) (idOf flat m')) = fun s => denote (IR cst) m' (γ s) := by
    intro m' hm'
    funext s
    exact build_evalG cst (γ s) flat root hT hA hno m' hm'
  have hzero : (fun s => evalListG (fun c => evR c.op) (build flat root).t
      (slots0 (IR cst) (γ s) flat) 0) = fun _ => (0 : ℝ) := by
    funext s
    exact build_evalG_zero cst (γ s) flat root hT hA hno
  have key := tape_gradient_aux (fun c => evR c.op) cv (fun s => slots0 (IR cst) (γ s) flat) denv s0
    (evalList evR orc (build flat root).t (slots0 (IR cst) (γ s0) flat)) (build flat root).t
    (fun k => flat.length < k) (build_wf flat root hT) hnoc
    (fun k _ hk => hleaf k (Nat.le_of_not_lt hk))
    (by
      intro c hc
      rcases clause_cases flat root hT hA hno c hc with
        ⟨op, a, _, _, _, _, ha, hb⟩ | ⟨op, a, b, _, _, _, _, _, ha, hb⟩
      · rw [ha, hb]; exact ⟨Nat.not_lt.mpr (idOf_le flat a), by omega⟩
      · rw [ha, hb]; exact ⟨Nat.not_lt.mpr (idOf_le flat a), Nat.not_lt.mpr (idOf_le flat b)⟩)
    (by intro c hc; rw [hEv]; exact ⟨rfl, rfl, rfl⟩)
    (by
      intro c hc A' B' hA' hB'
      rcases clause_cases flat root hT hA hno c hc with
        ⟨op, a, hmem, hain, har, hop, ha, hb⟩ | ⟨op, a, b, hmem, hain, hbin, har, hop, ha, hb⟩
      · refine hK c.op _ _ A' B' s0 hA' hB' ?_ ?_
        · have hd := hdom _ hmem
          simp only [nodeDom] at hd
          rw [ha, hb, hop, hval a hain, hzero]
          exact hd
        · intro hcop
          rw [hop] at hcop
          subst hcop
          exact hcv a hmem
      · refine hK c.op _ _ A' B' s0 hA' hB' ?_ ?_
        · have hd := hdom _ hmem
          simp only [nodeDom] at hd
          rw [ha, hb, hop, hval a hain, hval b hbin]
          exact hd
        · intro hcop
          rw [hop] at hcop
          rw [hcop] at har
          simp [Op.args] at har)
    (idOf flat m) (Nat.not_lt.mpr (idOf_le flat m))
  simpa only [hval m hm] using key

end

/-! ### worked example: `sqrt(x*x + y*y) - 1`
    The optimiser model is evaluated symbolically (it is not kernel-reducible: `List.mergeSort` is
    defined by well-founded recursion and the constants are real numbers), one stage per lemma. -/

namespace Ex

/-- a pointer order under which every list is already sorted (the theorems hold for every order) -/
def leT : Expr ℝ → Expr ℝ → Bool := fun _ _ => true

theorem mergeSort_leT {β : Type} (l : List β) : l.mergeSort (fun _ _ => true) = l :=
  List.mergeSort_of_pairwise (List.pairwise_of_forall (fun _ _ => rfl))

local notation "sqx" => (un Op.square x : Expr ℝ)
local notation "sqy" => (un Op.square y : Expr ℝ)
local notation "exS" => (bin Op.add (un Op.square x) (un Op.square y) : Expr ℝ)
local notation "exR" => (un Op.sqrt (bin Op.add (un Op.square x) (un Op.square y)) : Expr ℝ)

/-- `sqrt(x*x + y*y) - 1` as the tree API builds it (`x*x` becomes `square x`) -/
noncomputable def exT : Expr ℝ := bin Op.sub exR (const 1)

theorem opt_x (f : Nat) : opt KR leT f x = x := by
  cases f with
  | zero => rfl
  | succ f => cases f <;> simp [opt, isAffineRoot, optNonAffine]

theorem opt_y (f : Nat) : opt KR leT f y = y := by
  cases f with
  | zero => rfl
  | succ f => cases f <;> simp [opt, isAffineRoot, optNonAffine]

theorem opt_var (v f : Nat) : opt KR leT f (var v) = var v := by
  cases f with
  | zero => rfl
  | succ f => cases f <;> simp [opt, isAffineRoot, optNonAffine]

theorem optNA_un (op : Op) (a : Expr ℝ) (h : ∀ f, opt KR leT f a = a) (f : Nat) :
    optNonAffine KR leT f (un op a) = un op a := by
  cases f with
  | zero => rfl
  | succ f => simp [optNonAffine, h]

theorem aff_sq (a : Expr ℝ) (h : ∀ f, opt KR leT f a = a) (f : Nat) (s : ℝ) (acc : AffMap ℝ) :
    affineTerms KR leT f (un Op.square a) s acc = addCoef KR (un Op.square a) s acc := by
  cases f with
  | zero => simp [affineTerms, addTerm]
  | succ f => simp [affineTerms, optNA_un _ _ h, addTerm]

theorem collapse_S (c1 c2 : ℝ) (h1 : c1 = 1) (h2 : c2 = 1) :
    collapse KR leT [(sqy, c1), (sqx, c2)] = exS := by
  subst h1 h2
  simp [collapse, splitPosNeg, collapseList, sortByCoef, mergeSort_leT, leT, insertByCoef, collapseGo,
    takeGroup, KR, mkBinary, mkBinaryF, constOf, Op.args, size]

theorem opt_S (f : Nat) : opt KR leT (f + 2) exS = exS := by
  have e : affineTerms KR leT (f + 1) exS KR.one [] = [(sqy, 0 + 1), (sqx, 0 + 1)] := by
    simp only [affineTerms, ↓reduceIte, aff_sq _ opt_x, aff_sq _ opt_y]
    simp [addCoef, KR, evR]
  have ha : isAffineRoot exS = true := rfl
  rw [opt, ha, if_pos rfl, e]
  exact collapse_S _ _ (by norm_num) (by norm_num)

theorem optNA_R (f : Nat) : optNonAffine KR leT (f + 3) exR = exR := by
  simp [optNonAffine, opt_S]

theorem aff_R (f : Nat) (s : ℝ) (acc : AffMap ℝ) :
    affineTerms KR leT (f + 4) exR s acc = addCoef KR exR s acc := by
  simp only [affineTerms, reduceCtorEq, ↓reduceIte, optNA_R, addTerm]

theorem aff_const (c : ℝ) (f : Nat) (s : ℝ) (acc : AffMap ℝ) :
    affineTerms KR leT f (const c) s acc = addConst KR s c acc := by
  cases f with
  | zero => simp [affineTerms, addTerm]
  | succ f => cases f <;> simp [affineTerms, optNonAffine, addTerm]

theorem affineTerms_sub (f : Nat) (a b : Expr ℝ) (s : ℝ) (acc : AffMap ℝ) :
    affineTerms KR leT (f + 1) (bin Op.sub a b) s acc =
      affineTerms KR leT f a s (affineTerms KR leT f b (KR.foldUn Op.neg s) acc) := by
  simp [affineTerms]

theorem collapseList_one (t : Expr ℝ) : collapseList KR leT [(t, 1)] = t := by
  simp [collapseList, sortByCoef, mergeSort_leT, leT, insertByCoef, collapseGo, takeGroup, KR]

theorem collapse_T (c1 c2 : ℝ) (h1 : c1 = -1) (h2 : c2 = 1) :
    collapse KR leT [(const 1, c1), (exR, c2)] = exT := by
  subst h1 h2
  have sp : splitPosNeg KR [((const 1 : Expr ℝ), (-1 : ℝ)), (exR, (1 : ℝ))] =
      ([(exR, 1)], [(const 1, 1)]) := by
    simp [splitPosNeg, KR, evR]
  rw [collapse, sp]
  simp only [collapseList_one]
  simp [mkBinary, mkBinaryF, constOf, KR, Op.args, size, exT]

theorem opt_exT (f : Nat) : opt KR leT (f + 6) exT = exT := by
  have e : affineTerms KR leT (f + 5) exT KR.one [] = [(const 1, (-1) * 1 + 0), (exR, 0 + 1)] := by
    rw [exT, affineTerms_sub, aff_R, aff_const]
    simp [addCoef, addConst, KR, evR]
  have ha : isAffineRoot exT = true := rfl
  rw [opt, ha, if_pos rfl, e]
  exact collapse_T _ _ (by norm_num) (by norm_num)

theorem flatten_exT : flatten KR exT = exT := by
  simp [flatten, exT, hasRemap]

/-- `Tree::optimized()` leaves `sqrt(square x + square y) - 1` unchanged -/
theorem optimize_exT : optimize KR leT (flatten KR exT) = exT := by
  rw [flatten_exT]
  have : 4 * size exT + 4 = 30 + 6 := by simp [exT, size]
  rw [optimize, this]
  exact opt_exT 30

/-- its node list in post-order: slots 8 … 1 -/
noncomputable def exFlat : List (Expr ℝ) := [x, sqx, y, sqy, exS, exR, const 1, exT]

theorem exFlat_tape : (build exFlat exT).t =
    [⟨Op.sub, 1, 3, 2⟩, ⟨Op.sqrt, 3, 4, 0⟩, ⟨Op.add, 4, 7, 5⟩, ⟨Op.square, 5, 6, 0⟩,
      ⟨Op.square, 7, 8, 0⟩] ∧ (build exFlat exT).root = 1 := by
  have hl : exFlat.length = 8 := rfl
  simp only [build, hl, tapeK]
  simp [exFlat, exT, clauseAt, idOf]

theorem exFlat_topo : TopoFlat exFlat := by
  refine ⟨by simp [exFlat, exT], by simp [exFlat, exT, plainNode], ?_⟩
  intro i hi c hc
  have hi' : i < 8 := hi
  have h8 : i = 0 ∨ i = 1 ∨ i = 2 ∨ i = 3 ∨ i = 4 ∨ i = 5 ∨ i = 6 ∨ i = 7 := by omega
  rcases h8 with rfl | rfl | rfl | rfl | rfl | rfl | rfl | rfl <;>
    simp [exFlat, exT, children] at hc ⊢
  all_goals first | (subst hc; simp) | (rcases hc with rfl | rfl <;> simp)

theorem exFlat_arity : ∀ m ∈ exFlat, nodeArity m := by
  simp [exFlat, exT, nodeArity, Op.args]

theorem exFlat_noOracle : ∀ m ∈ exFlat, isOracle m = false := by
  simp [exFlat, exT, isOracle]

theorem exFlat_root : optimize KR leT (flatten KR exT) ∈ exFlat := by
  rw [optimize_exT]; simp [exFlat]

/-- `deck->X = 8`, `deck->Y = 6`, and `z` does not occur: `deck->Z = 9` is a fresh slot -/
theorem exFlat_axes : deckAxes exFlat = (8, 6, 9) := by
  simp [deckAxes, exFlat, exT, idOf]

theorem exT_wellArity : wellArity exT := by simp [exT, wellArity, Op.args]

/-! `sin(v₀)`: a tree with a free variable (for the Jacobian form) -/

noncomputable def exV : Expr ℝ := un Op.sin (var 0)

theorem optimize_exV : optimize KR leT (flatten KR exV) = exV := by
  have hf : flatten KR exV = exV := by simp [flatten, exV, hasRemap]
  have : 4 * size exV + 4 = 11 + 1 := by simp [exV, size]
  have ha : isAffineRoot exV = false := rfl
  rw [hf, optimize, this, opt, ha]
  simp only [Bool.false_eq_true, if_false]
  exact optNA_un _ _ (opt_var 0) 11

noncomputable def exVFlat : List (Expr ℝ) := [var 0, exV]

theorem exVFlat_topo : TopoFlat exVFlat := by
  refine ⟨by simp [exVFlat, exV], by simp [exVFlat, exV, plainNode], ?_⟩
  intro i hi c hc
  have hi' : i < 2 := hi
  have h2 : i = 0 ∨ i = 1 := by omega
  rcases h2 with rfl | rfl <;> simp [exVFlat, exV, children] at hc ⊢
  subst hc; simp

end Ex

end Libfive.DeckDeriv
