/-
  Boolean specifications used by the complete-table theorems of C03 / C04 (core Lean only):
  face-locality of the tet table, orientation of the tets generated from
  `cell_vertices × tet_vertices`, the partition property of MarchingTable<3>, and the
  outward-normal test on a reference tet.
-/
import LibfiveModel.Marching

namespace Libfive.Marching
open Generated.MeshTables

/-! ### tet table: face locality -/

/-- the directed edge lies on the face opposite local vertex `k` -/
def onFace (k : Nat) (e : Edge (SV Nat)) : Bool :=
  e.1.1 != k && e.1.2 != k && e.2.1 != k && e.2.2 != k

/-- the two tet edges of the side span all four tet vertices (the side is interior to the tet) -/
def spansTet (e : Edge (SV Nat)) : Bool :=
  (List.range 4).all fun k => !onFace k e

def bitSet (m i : Nat) : Bool := m.testBit i

/-- every triangle corner `(first, second)` of the row has `first` inside and `second` outside -/
def insideFirst (m : Nat) : Bool :=
  (localTris m).all fun t =>
    [t.1, t.2.1, t.2.2].all fun p => p.1 < 4 && p.2 < 4 && bitSet m p.1 && !bitSet m p.2

/-- all statements of `tet_face_local` for one mask -/
def faceLocal (b0 b1 b2 b3 : Bool) : Bool :=
  let L := dirEdges (localTris (maskOf b0 b1 b2 b3))
  -- the sides on each face are exactly the segment determined by that face
  L.filter (onFace 0) == seg b1 b2 b3 1 2 3 &&
  L.filter (onFace 1) == seg b0 b3 b2 0 3 2 &&
  L.filter (onFace 2) == seg b0 b1 b3 0 1 3 &&
  L.filter (onFace 3) == seg b0 b2 b1 0 2 1 &&
  -- every side lies on exactly one face or is interior
  (L.all fun e => ((List.range 4).filter fun k => onFace k e).length == (if spansTet e then 0 else 1)) &&
  -- interior sides cancel pairwise
  (L.all fun e => !spansTet e || L.count e == L.count (rev e))

/-! ### the tets generated around one cell edge -/

/-- Reference positions of the 11 subspace vertices of `load<A>` in the right-handed frame
    `(A, Q, R)` on the `ℤ` lattice (cell half-size 1), as documented in the mesher:
    0 edge; 1, 2 the corners at the low / high end of the edge; 3..6 the faces between
    ts[0]-ts[1], ts[1]-ts[3], ts[2]-ts[3], ts[0]-ts[2]; 7..10 the cells ts[0], ts[1], ts[3], ts[2]
    (cell `i` sits at `Q` offset `i & 1`, `R` offset `i & 2`, see `edge3` in dual.hpp). -/
def refPos : List (Int × Int × Int) :=
  [(0, 0, 0), (-1, 0, 0), (1, 0, 0),
   (0, 0, -1), (0, 1, 0), (0, 0, 1), (0, -1, 0),
   (0, -1, -1), (0, 1, -1), (0, 1, 1), (0, -1, 1)]

def sub3 (p q : Int × Int × Int) : Int × Int × Int := (p.1 - q.1, p.2.1 - q.2.1, p.2.2 - q.2.2)
def det3 (a b c : Int × Int × Int) : Int :=
  a.1 * (b.2.1 * c.2.2 - b.2.2 * c.2.1) - a.2.1 * (b.1 * c.2.2 - b.2.2 * c.1) + a.2.2 * (b.1 * c.2.1 - b.2.1 * c.1)
def dot3 (a b : Int × Int × Int) : Int := a.1 * b.1 + a.2.1 * b.2.1 + a.2.2 * b.2.2
def cross3 (a b : Int × Int × Int) : Int × Int × Int :=
  (a.2.1 * b.2.2 - a.2.2 * b.2.1, a.2.2 * b.1 - a.1 * b.2.2, a.1 * b.2.1 - a.2.1 * b.1)

/-- the 16 tets (as indices into the 11 subspace vertices) of a uniform-level edge neighbourhood -/
def cellTets (cv tv : List (List Nat)) : List Tet :=
  cv.flatMap fun vs => tv.map fun t =>
    ⟨vs.getD (t.getD 0 0) 0, vs.getD (t.getD 1 0) 0, vs.getD (t.getD 2 0) 0, vs.getD (t.getD 3 0) 0⟩

def tetVolume6 (t : Tet) : Int :=
  let p := fun i => refPos.getD i (0, 0, 0)
  det3 (sub3 (p t.v1) (p t.v0)) (sub3 (p t.v2) (p t.v0)) (sub3 (p t.v3) (p t.v0))

/-- every face of the 16 tets that contains the edge vertex 0 is shared by exactly two tets with
    opposite orientation; every other face (on the boundary of the star) occurs once -/
def starConsistent (ts : List Tet) : Bool :=
  let F := allFaces ts
  F.all fun f =>
    let k := (canon f).1
    if k.1 == 0 then oriCount F k true == 1 && oriCount F k false == 1
    else oriCount F k true + oriCount F k false == 1

/-! ### MarchingTable<3> -/

/-- patches of one mask as every consumer reads them: stop at the first patch whose first edge
    is -1; inside a patch stop at the first -1 edge -/
def patchesOf (row : List (List (Int × Int))) : List (List (Nat × Nat)) :=
  (row.takeWhile fun p => match p with
      | (a, _) :: _ => a != -1
      | [] => false).map fun p =>
    (p.takeWhile fun e => e.1 != -1).map fun e => (e.1.toNat, e.2.toNat)

def cubeEdge (a b : Nat) : Bool :=
  a < 8 && b < 8 && ((a ^^^ b) == 1 || (a ^^^ b) == 2 || (a ^^^ b) == 4)

/-- the 24 directed edges of the cube -/
def cubeEdges : List (Nat × Nat) :=
  (List.range 8).flatMap fun a => ((List.range 8).filter (cubeEdge a)).map fun b => (a, b)

def edgeId (e : List (List Int)) (a b : Nat) : Int := (e.getD a []).getD b (-1)

def maskOK (v : List (List (List (Int × Int)))) (e p : List (List Int)) (m : Nat) : Bool :=
  let ps := patchesOf (v.getD m [])
  let all := ps.flatten
  let prow := p.getD m []
  -- only sign-changing cube edges are listed, oriented inside -> outside
  (all.all fun x => cubeEdge x.1 x.2 && bitSet m x.1 && !bitSet m x.2) &&
  -- every sign-changing cube edge is in exactly one patch, exactly once
  (cubeEdges.all fun x =>
    all.count x == (if bitSet m x.1 && !bitSet m x.2 then 1 else 0)) &&
  -- `p` inverts `v`: edge id -> index of the patch containing it; -1 where there is no sign change
  ((List.range ps.length).all fun i =>
    (ps.getD i []).all fun x => prow.getD (edgeId e x.1 x.2).toNat (-1) == Int.ofNat i) &&
  (cubeEdges.all fun x =>
    (bitSet m x.1 && !bitSet m x.2) || prow.getD (edgeId e x.1 x.2).toNat (-1) == -1) &&
  -- no patch is empty (an empty patch would terminate the list early)
  (ps.all fun q => !q.isEmpty)

/-- `e` numbers the 24 directed cube edges 0..23 injectively and is -1 elsewhere -/
def edgeTableOK (e : List (List Int)) : Bool :=
  (let ids := cubeEdges.map fun x => edgeId e x.1 x.2
   ids.length == 24 && (ids.all fun i => decide (0 ≤ i) && decide (i < 24)) && decide ids.Nodup) &&
  ((List.range 8).all fun a => (List.range 8).all fun b => cubeEdge a b || edgeId e a b == -1)

/-! ### reference tet for the outward-normal test (C04) -/

/-- positively oriented reference tet with integer coordinates -/
def refTet : List (Int × Int × Int) := [(0, 0, 0), (2, 0, 0), (0, 2, 0), (0, 0, 2)]

/-- twice the position of the midpoint of tet edge `p` -/
def svPos (p : SV Nat) : Int × Int × Int :=
  let a := refTet.getD p.1 (0, 0, 0)
  let b := refTet.getD p.2 (0, 0, 0)
  (a.1 + b.1, a.2.1 + b.2.1, a.2.2 + b.2.2)

/-- every triangle of the row has a normal with a positive component from every inside vertex
    to every outside vertex -/
def outwardOK (m : Nat) : Bool :=
  (localTris m).all fun t =>
    let n := cross3 (sub3 (svPos t.2.1) (svPos t.1)) (sub3 (svPos t.2.2) (svPos t.1))
    (List.range 4).all fun i => (List.range 4).all fun o =>
      !(bitSet m i && !bitSet m o) ||
        decide (0 < dot3 n (sub3 (refTet.getD o (0, 0, 0)) (refTet.getD i (0, 0, 0))))

end Libfive.Marching
