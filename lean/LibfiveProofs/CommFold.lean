/-
  Folding a non-empty list with an associative-commutative (and possibly idempotent) operation
  without unit: invariance under permutation, append, and removal of duplicates.
  Used for the commutative lists of the optimiser (mul / min / max chains).
-/
import Mathlib.Data.List.Perm.Basic
import Mathlib.Algebra.BigOperators.Group.List.Basic

namespace Libfive.CommFold

variable {α : Type}

/-- value of a list under `f`, `none` for the empty list -/
def foldV (f : α → α → α) : List α → Option α
  | [] => none
  | a :: rest => some (rest.foldl f a)

/-- `f` lifted to `Option` with `none` as unit -/
def lift (f : α → α → α) : Option α → Option α → Option α
  | none, y => y
  | x, none => x
  | some a, some b => some (f a b)

structure AC (f : α → α → α) : Prop where
  comm : ∀ a b, f a b = f b a
  assoc : ∀ a b c, f (f a b) c = f a (f b c)

theorem lift_none_left (f : α → α → α) (y : Option α) : lift f none y = y := by
  cases y <;> rfl

theorem lift_none_right (f : α → α → α) (x : Option α) : lift f x none = x := by
  cases x <;> rfl

theorem lift_assoc {f : α → α → α} (h : AC f) (x y z : Option α) :
    lift f (lift f x y) z = lift f x (lift f y z) := by
  cases x <;> cases y <;> cases z <;> simp [lift, h.assoc]

theorem lift_comm {f : α → α → α} (h : AC f) (x y : Option α) : lift f x y = lift f y x := by
  cases x <;> cases y <;> simp [lift, h.comm]

theorem foldl_lift (f : α → α → α) (a : α) (l : List α) :
    some (l.foldl f a) = (l.map some).foldl (lift f) (some a) := by
  induction l generalizing a with
  | nil => rfl
  | cons b rest ih => simp only [List.foldl_cons, List.map_cons, lift]; exact ih (f a b)

/-- `foldV` as a fold of the lifted operation from the unit -/
theorem foldV_eq (f : α → α → α) (l : List α) :
    foldV f l = (l.map some).foldl (lift f) none := by
  cases l with
  | nil => rfl
  | cons a rest => simp only [foldV, List.map_cons, List.foldl_cons, lift]; exact foldl_lift f a rest

theorem foldl_lift_init {f : α → α → α} (h : AC f) (x : Option α) (l : List (Option α)) :
    l.foldl (lift f) x = lift f x (l.foldl (lift f) none) := by
  induction l generalizing x with
  | nil => simp [lift_none_right]
  | cons y rest ih =>
    simp only [List.foldl_cons]
    rw [ih (lift f x y), ih (lift f none y), lift_none_left, lift_assoc h]

theorem foldV_append {f : α → α → α} (h : AC f) (l₁ l₂ : List α) :
    foldV f (l₁ ++ l₂) = lift f (foldV f l₁) (foldV f l₂) := by
  rw [foldV_eq, foldV_eq, foldV_eq, List.map_append, List.foldl_append, foldl_lift_init h]

theorem foldV_singleton (f : α → α → α) (a : α) : foldV f [a] = some a := rfl

theorem foldV_cons {f : α → α → α} (h : AC f) (a : α) (l : List α) :
    foldV f (a :: l) = lift f (some a) (foldV f l) := by
  have := foldV_append h [a] l
  simpa [foldV_singleton] using this

/-- permutation invariance -/
theorem foldV_perm {f : α → α → α} (h : AC f) {l₁ l₂ : List α} (p : l₁.Perm l₂) :
    foldV f l₁ = foldV f l₂ := by
  induction p with
  | nil => rfl
  | cons a _ ih => rw [foldV_cons h, foldV_cons h, ih]
  | swap a b l =>
    rw [foldV_cons h, foldV_cons h, foldV_cons h, foldV_cons h,
      ← lift_assoc h, ← lift_assoc h, lift_comm h (some b) (some a)]
  | trans _ _ ih₁ ih₂ => rw [ih₁, ih₂]

/-- absorbing an element that already occurs (idempotent operations) -/
theorem foldV_absorb {f : α → α → α} (h : AC f) (hid : ∀ a, f a a = a) (a : α) :
    ∀ l : List α, a ∈ l → lift f (some a) (foldV f l) = foldV f l := by
  intro l
  induction l with
  | nil => intro hm; cases hm
  | cons b rest ih =>
    intro hm
    rw [foldV_cons h]
    rcases List.mem_cons.mp hm with rfl | hm
    · rw [← lift_assoc h]; simp [lift, hid]
    · rw [← lift_assoc h, lift_comm h (some a) (some b), lift_assoc h, ih hm]

end Libfive.CommFold
