/-
  C09 ⨝ C02 (⨝ C05) — helper definitions and lemmas for LibfiveTheorems/C09Ext.lean.

  C09's rendering theorems are about an abstract classifier `f i j k : Bool` and an abstract interval
  oracle `I : View → IState` assumed `Sound` for it.  Here both are INSTANTIATED with evaluations of one
  tape (C02's models):
    * `insideAt`  = `evalList` of the tape at the centre of voxel (i,j,k), tested `< 0`
                    (`out[index] < 0` in `Heightmap::pixels`; false for NaN);
    * `stateOf`   = `ievalList` of the tape over the view's box, read the way `Heightmap::recurse`
                    reads it (`hmState`: `isSafe() && isFilled()` ⇒ filled, else `isEmpty()` ⇒ empty);
  and `Sound` is derived from C02's `tape_enclS`.

  What C09's model leaves out and this file adds as an adapter (`Frame`):
    * the float geometry: voxel centre coordinates `px py pz` and the views' boxes `lo hi`
      (`View::lower/upper`); the only fact needed about them is `Contains` (a view's voxel centres lie
      in the view's box), proved for the exact-arithmetic grid `exactFrame`;
    * which tape slots hold X, Y, Z and what the other leaf slots (constants, free variables) hold;
    * the oracle clauses' interval / point answers.

  C09's model does NOT model the tape push (`recurse` hands `result.second`, the tape specialised by
  `intervalAndPush`, to its children and `pixels` evaluates through it): `f` is one fixed classifier.
  `recurseG` below is `Heightmap.recurse` with a state (the tape) threaded through the recursion;
  `recurseG_spec` is the generic invariant proof used for the pushed-tape theorem.
-/
import LibfiveProofs.Heightmap
import LibfiveProofs.Interval3
import LibfiveProofs.IntervalKeep

set_option autoImplicit false
set_option linter.unusedSectionVars false
set_option linter.unusedVariables false

namespace Libfive.HmIvl

open Libfive Libfive.Ivl FVal
open Libfive.Heightmap (View Img Axis Mono Sound IsBrute)

variable {K : Type} [Field K] [LinearOrder K] [IsStrictOrderedRing K] [FloorRing K]
variable {Bo : BoostOps K} {P : PointFns K}

/-! ## the adapter -/

/-- What `Heightmap::recurse` makes of the interval result `out`:
    `if (out.isSafe() && out.isFilled()) fill  else if (!out.isEmpty()) split  else skip`.
    Note that the `isEmpty()` test is NOT guarded by `isSafe()` (differs from `Interval::state()`). -/
def hmState (A : IVal K) : Heightmap.IState :=
  if (!A.mn && FVal.lt A.hi zeroV) = true then Heightmap.IState.filled
  else if FVal.gt A.lo zeroV = true then Heightmap.IState.empty
  else Heightmap.IState.ambiguous

/-- Everything the renderer evaluates a tape with that C09's model abstracts away. -/
structure Frame (K : Type) where
  /-- `pts.x()[i]`, `pts.y()[j]`, `pts.z()[k]`: voxel centre coordinates, global voxel index -/
  px : Nat → FVal K
  py : Nat → FVal K
  pz : Nat → FVal K
  /-- `View::lower(axis)`, `View::upper(axis)` -/
  lo : View → Axis → FVal K
  hi : View → Axis → FVal K
  /-- tape slots of X, Y, Z -/
  sx : Nat
  sy : Nat
  sz : Nat
  /-- contents of every other leaf slot (constants, free variables) -/
  base : Nat → FVal K
  /-- answer of interval oracle `n` on a view's box / of point oracle `n` at a voxel centre -/
  iorc : View → Nat → IVal K
  porc : Nat → Nat → Nat → Nat → FVal K

namespace Frame

/-- leaf slots for the centre of voxel (i,j,k): `e->set({x,y,z}, index)` -/
def env (F : Frame K) (i j k : Nat) : Nat → FVal K :=
  upd (upd (upd F.base F.sx (F.px i)) F.sy (F.py j)) F.sz (F.pz k)

/-- leaf slots for the box of a view: `Interval(lower.x(), upper.x())` …, constants as `[c,c]` -/
def ibox (F : Frame K) (v : View) : Nat → IVal K :=
  upd (upd (upd (fun s => ileaf (F.base s) (F.base s))
    F.sx (ileaf (F.lo v Axis.x) (F.hi v Axis.x)))
    F.sy (ileaf (F.lo v Axis.y) (F.hi v Axis.y)))
    F.sz (ileaf (F.lo v Axis.z) (F.hi v Axis.z))

/-- every voxel centre of the view lies in the view's box -/
def Contains (F : Frame K) (v : View) : Prop :=
  ∀ i j k, v.mem i j k →
    (FVal.le (F.lo v Axis.x) (F.px i) = true ∧ FVal.le (F.px i) (F.hi v Axis.x) = true) ∧
    (FVal.le (F.lo v Axis.y) (F.py j) = true ∧ FVal.le (F.py j) (F.hi v Axis.y) = true) ∧
    (FVal.le (F.lo v Axis.z) (F.pz k) = true ∧ FVal.le (F.pz k) (F.hi v Axis.z) = true)

/-- an interval oracle's answer on the view's box encloses the point oracle's answer at every voxel
    centre of the view (vacuous for tapes without ORACLE clauses) -/
def OrcSound (F : Frame K) (v : View) : Prop :=
  ∀ i j k, v.mem i j k → ∀ n, enclS (F.iorc v n) (F.porc i j k n)

end Frame

/-- value of the tape at the centre of voxel (i,j,k): what `ArrayEvaluator::values` returns -/
def valAt (pev : Op → FVal K → FVal K → FVal K) (F : Frame K) (T : TapeM) (i j k : Nat) : FVal K :=
  evalList pev (F.porc i j k) T.t (F.env i j k) T.root

/-- the classifier: `out[index] < 0` (IEEE `<`: false for NaN) -/
def insideAt (pev : Op → FVal K → FVal K → FVal K) (F : Frame K) (T : TapeM) (i j k : Nat) : Bool :=
  FVal.lt (valAt pev F T i j k) zeroV

/-- all interval slots of the tape on the view's box: `IntervalEvaluator::eval(lower, upper, tape)` -/
def slotsOf (Bo : BoostOps K) (F : Frame K) (T : TapeM) (v : View) : Nat → IVal K :=
  ievalList Bo (F.iorc v) T.t (F.ibox v)

/-- the interval oracle: the root slot, read by `recurse` -/
def stateOf (Bo : BoostOps K) (F : Frame K) (T : TapeM) (v : View) : Heightmap.IState :=
  hmState (slotsOf Bo F T v T.root)

/-- the keep function `IntervalEvaluator::push` computes after evaluating the view's box -/
def keepOf (Bo : BoostOps K) (F : Frame K) (T : TapeM) (v : View) : Clause → Keep :=
  intervalKeep FVal.lt (fun s => (slotsOf Bo F T v s).lo) (fun s => (slotsOf Bo F T v s).hi)
    (fun s => !(slotsOf Bo F T v s).mn)

/-- the tape `intervalAndPush(r.lower, r.upper, tape)` hands to the children of view `v` -/
def pushOf (Bo : BoostOps K) (F : Frame K) (T : TapeM) (v : View) : TapeM :=
  T.push (keepOf Bo F T v)

/-! ## "inside" in the property's words -/

theorem insideAt_iff (pev : Op → FVal K → FVal K → FVal K) (F : Frame K) (T : TapeM) (i j k : Nat) :
    insideAt pev F T i j k = true ↔
      valAt pev F T i j k ≠ nan ∧ FVal.lt (valAt pev F T i j k) zeroV = true := by
  unfold insideAt
  constructor
  · intro h
    refine ⟨?_, h⟩
    intro hn; rw [hn] at h; simp at h
  · exact fun h => h.2

/-! ## leaves: a voxel centre of the view is enclosed by the view's leaf intervals -/

theorem leaves_enclS (F : Frame K) (v : View) (hc : F.Contains v) (i j k : Nat) (hm : v.mem i j k) :
    ∀ s, enclS (F.ibox v s) (F.env i j k s) := by
  obtain ⟨hx, hy, hz⟩ := hc i j k hm
  intro s
  simp only [Frame.ibox, Frame.env, upd]
  split_ifs
  · exact leaf_enclS hz.1 hz.2
  · exact leaf_enclS hy.1 hy.2
  · exact leaf_enclS hx.1 hx.2
  · exact const_enclS _

/-- C02's tape invariant at every slot, for the view's box and each of its voxel centres -/
theorem slots_enclS (hS : BoostSound Bo P) (hA2 : Atan2Sound Bo P) (hM : ModSound Bo P)
    (pev : Op → FVal K → FVal K → FVal K) (hpev : ∀ op a b, PointRel P op a b (pev op a b))
    (F : Frame K) (T : TapeM) (v : View) (hc : F.Contains v) (ho : F.OrcSound v)
    (hsafe : SafeTape Bo P (F.iorc v) T.t (F.ibox v)) (i j k : Nat) (hm : v.mem i j k) :
    ∀ s, enclS (slotsOf Bo F T v s) (evalList pev (F.porc i j k) T.t (F.env i j k) s) :=
  tape_enclS hS hA2 hM pev hpev (F.iorc v) (F.porc i j k) (ho i j k hm) T.t (F.ibox v) (F.env i j k)
    (leaves_enclS F v hc i j k hm) hsafe

/-! ## the classification `recurse` reads off an enclosing interval is right -/

theorem hmState_filled {A : IVal K} {r : FVal K} (h : enclS A r)
    (hs : hmState A = Heightmap.IState.filled) : FVal.lt r zeroV = true := by
  unfold hmState at hs
  by_cases c : (!A.mn && FVal.lt A.hi zeroV) = true
  · simp only [Bool.and_eq_true, Bool.not_eq_true'] at c
    rcases h with ⟨hmn, _⟩ | h
    · rw [c.1] at hmn; cases hmn
    · exact flt_of_le_of_lt h.2.2 c.2
  · rw [if_neg c] at hs
    split at hs <;> cases hs

theorem hmState_empty {A : IVal K} {r : FVal K} (h : enclS A r)
    (hs : hmState A = Heightmap.IState.empty) : FVal.lt r zeroV = false := by
  unfold hmState at hs
  by_cases c : (!A.mn && FVal.lt A.hi zeroV) = true
  · rw [if_pos c] at hs; cases hs
  · rw [if_neg c] at hs
    by_cases e : FVal.gt A.lo zeroV = true
    · rcases h with ⟨_, hn⟩ | h
      · rw [hn]; simp
      · have : FVal.lt zeroV r = true := flt_of_lt_of_le e h.2.1
        exact flt_asymm this
    · rw [if_neg e] at hs; cases hs

/-- `Interval::state()` (C02's `istate`) and `recurse`'s reading agree on unflagged, non-inverted
    intervals; on a flagged interval with a positive lower bound `recurse` says *empty* where `state()`
    says *ambiguous* (sound all the same, by `hmState_empty`, thanks to the strong invariant `enclS`). -/
theorem hmState_of_istate {A : IVal K} :
    (istate A = Ivl.IState.filled → hmState A = Heightmap.IState.filled) ∧
    (istate A = Ivl.IState.empty → FVal.lt A.hi zeroV = false → hmState A = Heightmap.IState.empty) := by
  unfold istate hmState
  by_cases hm : A.mn = true
  · simp [hm]
  · have hm' : A.mn = false := by simpa using hm
    by_cases he : FVal.gt A.lo zeroV = true
    · simp [hm', he]
    · by_cases hf : FVal.lt A.hi zeroV = true
      · simp [hm', he, hf]
      · simp [hm', he, hf]

/-- **the oracle-soundness hypothesis of C09, derived.** -/
theorem stateOf_sound_at (hS : BoostSound Bo P) (hA2 : Atan2Sound Bo P) (hM : ModSound Bo P)
    (pev : Op → FVal K → FVal K → FVal K) (hpev : ∀ op a b, PointRel P op a b (pev op a b))
    (F : Frame K) (T : TapeM) (v : View) (hc : F.Contains v) (ho : F.OrcSound v)
    (hsafe : SafeTape Bo P (F.iorc v) T.t (F.ibox v)) :
    (stateOf Bo F T v = Heightmap.IState.filled → ∀ i j k, v.mem i j k → insideAt pev F T i j k = true) ∧
    (stateOf Bo F T v = Heightmap.IState.empty → ∀ i j k, v.mem i j k → insideAt pev F T i j k = false) := by
  constructor
  · intro hs i j k hm
    exact hmState_filled (slots_enclS hS hA2 hM pev hpev F T v hc ho hsafe i j k hm T.root) hs
  · intro hs i j k hm
    exact hmState_empty (slots_enclS hS hA2 hM pev hpev F T v hc ho hsafe i j k hm T.root) hs

/-! ## tapes without `pow` / `nth_root` need no side condition -/

/-- no `pow` / `nth_root` clause (the two opcodes whose enclosure lemma has a side condition) -/
def NoPowRoot (t : List Clause) : Prop := ∀ c ∈ t, c.op ≠ Op.pow ∧ c.op ≠ Op.nthRoot

theorem safeTape_of_noPowRoot (iorc : Nat → IVal K) (I0 : Nat → IVal K) :
    ∀ t : List Clause, NoPowRoot t → SafeTape Bo P iorc t I0
  | [], _ => trivial
  | c :: rest, h => by
    refine ⟨safeTape_of_noPowRoot iorc I0 rest (fun d hd => h d (List.mem_cons_of_mem _ hd)), ?_⟩
    intro _
    obtain ⟨h1, h2⟩ := h c (List.mem_cons_self ..)
    revert h1 h2
    cases c.op <;> simp [SafeArgs]

/-! ## the exact-arithmetic grid satisfies `Contains` -/

/-- `Voxels::Voxels` / `View::split` in exact arithmetic: voxel `n` of an axis with origin `o` and voxel
    width `h` has its centre at `o + (n + ½)·h`; a view with corner `c` and size `s` spans
    `[o + c·h, o + (c+s)·h]` (`middle = upper·frac + lower·(1−frac)` with `frac = size_lower/size`). -/
def exactFrame (ox oy oz hx hy hz : K) (sx sy sz : Nat) (base : Nat → FVal K)
    (iorc : View → Nat → IVal K) (porc : Nat → Nat → Nat → Nat → FVal K) : Frame K where
  px := fun i => fin (ox + ((i : K) + 1 / 2) * hx)
  py := fun j => fin (oy + ((j : K) + 1 / 2) * hy)
  pz := fun k => fin (oz + ((k : K) + 1 / 2) * hz)
  lo := fun v a => match a with
    | Axis.x => fin (ox + (v.cx : K) * hx)
    | Axis.y => fin (oy + (v.cy : K) * hy)
    | Axis.z => fin (oz + (v.cz : K) * hz)
  hi := fun v a => match a with
    | Axis.x => fin (ox + ((v.cx : K) + (v.sx : K)) * hx)
    | Axis.y => fin (oy + ((v.cy : K) + (v.sy : K)) * hy)
    | Axis.z => fin (oz + ((v.cz : K) + (v.sz : K)) * hz)
  sx := sx
  sy := sy
  sz := sz
  base := base
  iorc := iorc
  porc := porc

theorem axis_contains (o h : K) (hh : 0 ≤ h) (c s n : Nat) (h1 : c ≤ n) (h2 : n < c + s) :
    o + (c : K) * h ≤ o + ((n : K) + 1 / 2) * h ∧ o + ((n : K) + 1 / 2) * h ≤ o + ((c : K) + (s : K)) * h := by
  have a1 : (c : K) ≤ (n : K) := by exact_mod_cast h1
  have a2 : (n : K) + 1 ≤ (c : K) + (s : K) := by exact_mod_cast h2
  constructor
  · have : (c : K) * h ≤ ((n : K) + 1 / 2) * h :=
      mul_le_mul_of_nonneg_right (by linarith) hh
    linarith
  · have : ((n : K) + 1 / 2) * h ≤ ((c : K) + (s : K)) * h :=
      mul_le_mul_of_nonneg_right (by linarith) hh
    linarith

theorem exactFrame_contains (ox oy oz hx hy hz : K) (h0x : 0 ≤ hx) (h0y : 0 ≤ hy) (h0z : 0 ≤ hz)
    (sx sy sz : Nat) (base : Nat → FVal K) (iorc : View → Nat → IVal K)
    (porc : Nat → Nat → Nat → Nat → FVal K) (v : View) :
    (exactFrame ox oy oz hx hy hz sx sy sz base iorc porc).Contains v := by
  intro i j k hm
  unfold View.mem at hm
  obtain ⟨x1, x2⟩ := axis_contains ox hx h0x v.cx v.sx i hm.1 hm.2.1
  obtain ⟨y1, y2⟩ := axis_contains oy hy h0y v.cy v.sy j hm.2.2.1 hm.2.2.2.1
  obtain ⟨z1, z2⟩ := axis_contains oz hz h0z v.cz v.sz k hm.2.2.2.2.1 hm.2.2.2.2.2
  simp only [exactFrame, le_fin_fin, decide_eq_true_eq]
  exact ⟨⟨x1, x2⟩, ⟨y1, y2⟩, ⟨z1, z2⟩⟩


/-! ## sub-views -/

/-- index-range containment of views -/
def Sub (w v : View) : Prop :=
  v.cx ≤ w.cx ∧ w.cx + w.sx ≤ v.cx + v.sx ∧ v.cy ≤ w.cy ∧ w.cy + w.sy ≤ v.cy + v.sy ∧
  v.cz ≤ w.cz ∧ w.cz + w.sz ≤ v.cz + v.sz

theorem Sub.refl (v : View) : Sub v v := by unfold Sub; omega

theorem Sub.trans {a b c : View} (h1 : Sub a b) (h2 : Sub b c) : Sub a c := by
  unfold Sub at *; omega

theorem split_sub (ax ay az : Bool) (v : View) :
    Sub (v.split ax ay az).1 v ∧ Sub (v.split ax ay az).2 v := by
  unfold View.split
  cases Heightmap.pickAxis ax ay az v <;> simp only [Sub] <;> omega

theorem split_memXY_sub (ax ay az : Bool) (v : View) (i j : Nat) :
    ((v.split ax ay az).1.memXY i j → v.memXY i j) ∧ ((v.split ax ay az).2.memXY i j → v.memXY i j) := by
  unfold View.split
  cases Heightmap.pickAxis ax ay az v <;> simp only [View.memXY] <;> omega

theorem mem_corner (v : View) (h : 1 ≤ v.sx ∧ 1 ≤ v.sy ∧ 1 ≤ v.sz) : v.mem v.cx v.cy v.cz := by
  unfold View.mem; omega

theorem regionsLoop_sub (v : View) : ∀ fuel workers rs, (∀ r, r ∈ rs → Sub r v) →
    ∀ r, r ∈ Heightmap.regionsLoop fuel workers rs → Sub r v := by
  intro fuel
  induction fuel with
  | zero => intro _ rs h; exact h
  | succ fuel ih =>
    intro workers rs h
    cases rs with
    | nil => simp [Heightmap.regionsLoop]
    | cons r rest =>
      simp only [Heightmap.regionsLoop]
      split
      · apply ih
        intro q hq
        simp only [List.mem_append, List.mem_cons, List.not_mem_nil, or_false] at hq
        have hr := h r (by simp)
        obtain ⟨s1, s2⟩ := split_sub true true false r
        rcases hq with hq | hq | hq
        · exact h q (by simp [hq])
        · subst hq; exact s1.trans hr
        · subst hq; exact s2.trans hr
      · exact h

theorem regions_sub (workers : Nat) (v : View) : ∀ r, r ∈ Heightmap.regions workers v → Sub r v := by
  unfold Heightmap.regions
  apply regionsLoop_sub
  intro r hr; simp at hr; subst hr; exact Sub.refl _

/-! ## column scans only look at their own column range -/

theorem scanCol_congr (f g : Nat → Nat → Nat → Bool) (i j cz : Nat) : ∀ n,
    (∀ k, cz ≤ k → k < cz + n → f i j k = g i j k) →
    Heightmap.scanCol f i j cz n = Heightmap.scanCol g i j cz n := by
  intro n
  induction n with
  | zero => intro _; rfl
  | succ n ih =>
    intro h
    simp only [Heightmap.scanCol]
    rw [h (cz + n) (by omega) (by omega), ih (fun k a b => h k a (by omega))]

theorem colSpec_congr (f g : Nat → Nat → Nat → Bool) (zr : Nat → Int) (i j cz n : Nat) (d : Int)
    (h : ∀ k, cz ≤ k → k < cz + n → f i j k = g i j k) :
    Heightmap.colSpec f zr i j cz n d = Heightmap.colSpec g zr i j cz n d := by
  unfold Heightmap.colSpec
  rw [scanCol_congr f g i j cz n h]

/-- a split is either an XY split (same Z range, pixel blocks partition the parent's) or a Z split
    (same pixel block, Z ranges stacked) -/
theorem split_facts (ax ay az : Bool) (v : View) :
    ((v.split ax ay az).1.cz = v.cz ∧ (v.split ax ay az).1.sz = v.sz ∧
      (v.split ax ay az).2.cz = v.cz ∧ (v.split ax ay az).2.sz = v.sz ∧
      ∀ i j, (v.memXY i j ↔ ((v.split ax ay az).1.memXY i j ∨ (v.split ax ay az).2.memXY i j)) ∧
        ¬ ((v.split ax ay az).1.memXY i j ∧ (v.split ax ay az).2.memXY i j)) ∨
    ((v.split ax ay az).1.cz = v.cz ∧ (v.split ax ay az).2.cz = v.cz + (v.split ax ay az).1.sz ∧
      (v.split ax ay az).1.sz + (v.split ax ay az).2.sz = v.sz ∧
      ∀ i j, ((v.split ax ay az).1.memXY i j ↔ v.memXY i j) ∧
        ((v.split ax ay az).2.memXY i j ↔ v.memXY i j)) := by
  unfold View.split
  cases Heightmap.pickAxis ax ay az v
  · refine Or.inl ⟨rfl, rfl, rfl, rfl, fun i j => ?_⟩
    simp only [View.memXY]; omega
  · refine Or.inl ⟨rfl, rfl, rfl, rfl, fun i j => ?_⟩
    simp only [View.memXY]; omega
  · refine Or.inr ⟨rfl, rfl, ?_, fun i j => ⟨Iff.rfl, Iff.rfl⟩⟩
    simp only []; omega

/-- the two halves of a split, rendered one after the other (upper half first), give the parent's
    brute-force column values -/
theorem split_colSpec (f : Nat → Nat → Nat → Bool) (zr : Nat → Int) (hz : Mono zr) (ax ay az : Bool)
    (v : View) (i j : Nat) (d : Int) :
    (if (v.split ax ay az).1.memXY i j then
        Heightmap.colSpec f zr i j (v.split ax ay az).1.cz (v.split ax ay az).1.sz
          (if (v.split ax ay az).2.memXY i j then
            Heightmap.colSpec f zr i j (v.split ax ay az).2.cz (v.split ax ay az).2.sz d else d)
      else (if (v.split ax ay az).2.memXY i j then
            Heightmap.colSpec f zr i j (v.split ax ay az).2.cz (v.split ax ay az).2.sz d else d)) =
    if v.memXY i j then Heightmap.colSpec f zr i j v.cz v.sz d else d := by
  have h := split_facts ax ay az v
  revert h
  generalize (v.split ax ay az).1 = p1
  generalize (v.split ax ay az).2 = p2
  intro h
  rcases h with ⟨e1, e2, e3, e4, h⟩ | ⟨e1, e2, e3, h⟩
  · rw [e1, e2, e3, e4]
    obtain ⟨hu, hd⟩ := h i j
    by_cases hA : p1.memXY i j
    · have hB : ¬ p2.memXY i j := fun hb => hd ⟨hA, hb⟩
      have hV : v.memXY i j := hu.2 (Or.inl hA)
      rw [if_pos hA, if_neg hB, if_pos hV]
    · by_cases hB : p2.memXY i j
      · have hV : v.memXY i j := hu.2 (Or.inr hB)
        rw [if_neg hA, if_pos hB, if_pos hV]
      · have hV : ¬ v.memXY i j := fun hv => (hu.1 hv).elim hA hB
        rw [if_neg hA, if_neg hB, if_neg hV]
  · obtain ⟨h1, h2⟩ := h i j
    by_cases hV : v.memXY i j
    · rw [if_pos (h1.2 hV), if_pos (h2.2 hV), if_pos hV, e1, e2, ← e3]
      exact (Heightmap.colSpec_split f zr hz i j v.cz p1.sz p2.sz d).symm
    · rw [if_neg (mt h1.1 hV), if_neg (mt h2.1 hV), if_neg hV]

theorem split_fuel (v : View) (fuel : Nat) (h2 : 2 ≤ v.size (Heightmap.pickAxis true true true v))
    (hf : v.sx + v.sy + v.sz ≤ fuel + 1) :
    ((v.split true true true).1.sx + (v.split true true true).1.sy + (v.split true true true).1.sz ≤ fuel) ∧
    ((v.split true true true).2.sx + (v.split true true true).2.sy + (v.split true true true).2.sz ≤ fuel) := by
  revert h2
  unfold View.split
  cases Heightmap.pickAxis true true true v <;> simp only [View.size] <;> intro h2 <;> omega

/-! ## `Heightmap::recurse` with the tape threaded through the recursion -/

section generic
variable {σ : Type}

/-- `Heightmap.recurse` (LibfiveModel/Heightmap.lean) with an evaluation state `s : σ` (the tape handle
    `tape` of `Heightmap::recurse`): `pixels` classifies with the current state, the interval result is
    the current state's, and the children receive `next s v` (`result.second` of `intervalAndPush`). -/
def recurseG (N : Nat) (cls : σ → Nat → Nat → Nat → Bool) (zr : Nat → Int)
    (I : σ → View → Heightmap.IState) (next : σ → View → σ) : Nat → σ → View → Img → Img
  | 0, _, _, m => m
  | fuel + 1, s, v, m =>
    if Heightmap.blockAll (fun d => decide (Heightmap.top zr v ≤ d)) v m then m
    else if v.voxels ≤ N then Heightmap.pixels (cls s) zr v m
    else match I s v with
      | .filled => Heightmap.fill zr v m
      | .empty => m
      | .ambiguous =>
        let p := v.split true true true
        recurseG N cls zr I next fuel (next s v) p.1 (recurseG N cls zr I next fuel (next s v) p.2 m)

/-- `Heightmap.render` with the state threaded: every worker starts from the base state `s0`
    (`(*itr)->getDeck()->tape`) -/
def renderG (N : Nat) (cls : σ → Nat → Nat → Nat → Bool) (zr : Nat → Int)
    (I : σ → View → Heightmap.IState) (next : σ → View → σ) (s0 : σ)
    (workers : Nat) (root : View) (m : Img) : Img :=
  (Heightmap.regions workers root).foldl
    (fun m r => recurseG N cls zr I next (r.sx + r.sy + r.sz) s0 r m) m

/-- C09's model is the instance with a constant state -/
theorem recurseG_const (N : Nat) (f : Nat → Nat → Nat → Bool) (zr : Nat → Int)
    (I : View → Heightmap.IState) : ∀ fuel (v : View) (m : Img),
    recurseG N (fun _ : Unit => f) zr (fun _ => I) (fun s _ => s) fuel () v m =
      Heightmap.recurse N f zr I fuel v m := by
  intro fuel
  induction fuel with
  | zero => intro v m; rfl
  | succ fuel ih =>
    intro v m
    rw [recurseG, Heightmap.recurse]
    cases I v <;> simp only [ih]

theorem renderG_const (N : Nat) (f : Nat → Nat → Nat → Bool) (zr : Nat → Int)
    (I : View → Heightmap.IState) (workers : Nat) (root : View) (m : Img) :
    renderG N (fun _ : Unit => f) zr (fun _ => I) (fun s _ => s) () workers root m =
      Heightmap.render N f zr I workers root m := by
  unfold renderG Heightmap.render Heightmap.renderFrom
  simp only [recurseG_const]

/-- **generic invariant proof.**  If an invariant `Inv s v` ("state `s` is fit for view `v`") guarantees
    that the state's classifier agrees with the reference classifier `f0` on the view, that its interval
    answers are right for `f0` on the view, and is handed on to both halves of a split, then `recurseG`
    computes `f0`'s brute-force column values. -/
theorem recurseG_spec (N : Nat) (f0 : Nat → Nat → Nat → Bool) (zr : Nat → Int)
    (cls : σ → Nat → Nat → Nat → Bool) (I : σ → View → Heightmap.IState) (next : σ → View → σ)
    (Inv : σ → View → Prop) (hN : 1 ≤ N) (hz : Mono zr)
    (hcls : ∀ s v, Inv s v → ∀ i j k, v.mem i j k → cls s i j k = f0 i j k)
    (hfill : ∀ s v, Inv s v → I s v = Heightmap.IState.filled → ∀ i j k, v.mem i j k → f0 i j k = true)
    (hempty : ∀ s v, Inv s v → I s v = Heightmap.IState.empty → ∀ i j k, v.mem i j k → f0 i j k = false)
    (hnext : ∀ s v, Inv s v → N < v.voxels → I s v = Heightmap.IState.ambiguous →
      Inv (next s v) (v.split true true true).1 ∧ Inv (next s v) (v.split true true true).2) :
    ∀ fuel (s : σ) (v : View) (m : Img), Inv s v → v.sx + v.sy + v.sz ≤ fuel →
      (∀ i j, v.memXY i j → m.inb i j) →
      (∀ i j, (recurseG N cls zr I next fuel s v m).inb i j ↔ m.inb i j) ∧
      (∀ i j, (recurseG N cls zr I next fuel s v m).get i j =
          if v.memXY i j then Heightmap.colSpec f0 zr i j v.cz v.sz (m.get i j) else m.get i j) := by
  intro fuel
  induction fuel with
  | zero =>
    intro s v m _ hf _
    refine ⟨fun _ _ => Iff.rfl, fun i j => ?_⟩
    have : ¬ v.memXY i j := by unfold View.memXY; omega
    simp only [recurseG]; rw [if_neg this]
  | succ fuel ih =>
    intro s v m hinv hf hin
    rw [recurseG]
    split
    · rename_i hskip
      rw [Heightmap.blockAll_spec] at hskip
      refine ⟨fun _ _ => Iff.rfl, fun i j => ?_⟩
      by_cases hm : v.memXY i j
      · rw [if_pos hm]
        have := hskip i j hm
        exact (Heightmap.colSpec_of_ge f0 zr hz i j v.cz v.sz _ (of_decide_eq_true this)).symm
      · rw [if_neg hm]
    · split
      · obtain ⟨b1, b2⟩ := Heightmap.blockMap_spec (Heightmap.pixelUpd (cls s) zr v) v m hin
        refine ⟨b1, fun i j => ?_⟩
        show (Heightmap.blockMap (Heightmap.pixelUpd (cls s) zr v) v m).get i j = _
        rw [b2, Heightmap.pixelUpd_eq (cls s) zr hz]
        by_cases hm : v.memXY i j
        · rw [if_pos hm, if_pos hm]
          apply colSpec_congr
          intro k h1 h2
          exact hcls s v hinv i j k (by unfold View.memXY at hm; unfold View.mem; omega)
        · rw [if_neg hm, if_neg hm]
      · rename_i hvox
        have hv2 : 2 ≤ v.voxels := by omega
        have hpos := Heightmap.voxels_pos v (by omega)
        cases hIv : I s v with
        | filled =>
          dsimp only
          obtain ⟨b1, b2⟩ := Heightmap.blockMap_spec (fun _ _ => Heightmap.fillUpd zr v) v m hin
          refine ⟨b1, fun i j => ?_⟩
          show (Heightmap.blockMap (fun _ _ => Heightmap.fillUpd zr v) v m).get i j = _
          rw [b2]
          by_cases hm : v.memXY i j
          · rw [if_pos hm, if_pos hm]
            apply Heightmap.fillUpd_eq f0 zr v i j _ hpos.2.2
            intro k h1 h2
            exact hfill s v hinv hIv i j k (by unfold View.memXY at hm; unfold View.mem; omega)
          · rw [if_neg hm, if_neg hm]
        | empty =>
          dsimp only
          refine ⟨fun _ _ => Iff.rfl, fun i j => ?_⟩
          by_cases hm : v.memXY i j
          · rw [if_pos hm]
            symm
            apply Heightmap.colSpec_none
            intro k h1 h2
            exact hempty s v hinv hIv i j k (by unfold View.memXY at hm; unfold View.mem; omega)
          · rw [if_neg hm]
        | ambiguous =>
          dsimp only
          have hmax := Heightmap.pickAxis_all_max v
          have h2 : 2 ≤ v.size (Heightmap.pickAxis true true true v) := by
            apply Classical.byContradiction
            intro hc
            have := Heightmap.voxels_le_one v (by omega)
            omega
          obtain ⟨n1, n2⟩ := hnext s v hinv (by omega) hIv
          obtain ⟨f1, f2⟩ := split_fuel v fuel h2 hf
          obtain ⟨a1, a2⟩ := ih (next s v) (v.split true true true).2 m n2 f2
            (fun i j h => hin i j ((split_memXY_sub true true true v i j).2 h))
          obtain ⟨c1, c2⟩ := ih (next s v) (v.split true true true).1 _ n1 f1
            (fun i j h => (a1 i j).2 (hin i j ((split_memXY_sub true true true v i j).1 h)))
          refine ⟨fun i j => (c1 i j).trans (a1 i j), fun i j => ?_⟩
          rw [c2, a2]
          exact split_colSpec f0 zr hz true true true v i j (m.get i j)

/-- a fold of block-local steps over views that tile (at most once) part of the image -/
theorem foldViews_spec (f0 : Nat → Nat → Nat → Bool) (zr : Nat → Int) (step : View → Img → Img)
    (cz sz : Nat) : ∀ (rs : List View) (m : Img),
      (∀ r, r ∈ rs → ∀ m : Img, (∀ i j, r.memXY i j → m.inb i j) →
        (∀ i j, (step r m).inb i j ↔ m.inb i j) ∧
        (∀ i j, (step r m).get i j =
          if r.memXY i j then Heightmap.colSpec f0 zr i j r.cz r.sz (m.get i j) else m.get i j)) →
      (∀ r, r ∈ rs → r.cz = cz ∧ r.sz = sz) → (∀ i j, Heightmap.cover rs i j ≤ 1) →
      (∀ r, r ∈ rs → ∀ i j, r.memXY i j → m.inb i j) →
      (∀ i j, (rs.foldl (fun m r => step r m) m).inb i j ↔ m.inb i j) ∧
      (∀ i j, (rs.foldl (fun m r => step r m) m).get i j =
          if Heightmap.cover rs i j = 1 then Heightmap.colSpec f0 zr i j cz sz (m.get i j) else m.get i j) := by
  intro rs
  induction rs with
  | nil =>
    intro m _ _ _ _
    refine ⟨fun _ _ => Iff.rfl, fun i j => ?_⟩
    simp [Heightmap.cover_nil]
  | cons r rs ih =>
    intro m hstep hz1 hc hin
    obtain ⟨r1, r2⟩ := hstep r (by simp) m (hin r (by simp))
    rw [List.foldl_cons]
    obtain ⟨q1, q2⟩ := ih (step r m)
      (fun q hq => hstep q (by simp [hq]))
      (fun q hq => hz1 q (by simp [hq]))
      (fun i j => by have := hc i j; rw [Heightmap.cover_cons] at this; omega)
      (fun q hq i j h => (r1 i j).2 (hin q (by simp [hq]) i j h))
    refine ⟨fun i j => (q1 i j).trans (r1 i j), fun i j => ?_⟩
    rw [q2, r2, Heightmap.cover_cons]
    have hcc := hc i j
    rw [Heightmap.cover_cons] at hcc
    obtain ⟨e1, e2⟩ := hz1 r (by simp)
    by_cases hm : r.memXY i j
    · simp only [if_pos hm] at hcc ⊢
      have h0 : Heightmap.cover rs i j = 0 := by omega
      rw [h0, e1, e2]
      simp
    · simp only [if_neg hm] at hcc ⊢
      rfl

theorem renderG_spec (N : Nat) (f0 : Nat → Nat → Nat → Bool) (zr : Nat → Int)
    (cls : σ → Nat → Nat → Nat → Bool) (I : σ → View → Heightmap.IState) (next : σ → View → σ)
    (Inv : σ → View → Prop) (hN : 1 ≤ N) (hz : Mono zr)
    (hcls : ∀ s v, Inv s v → ∀ i j k, v.mem i j k → cls s i j k = f0 i j k)
    (hfill : ∀ s v, Inv s v → I s v = Heightmap.IState.filled → ∀ i j k, v.mem i j k → f0 i j k = true)
    (hempty : ∀ s v, Inv s v → I s v = Heightmap.IState.empty → ∀ i j k, v.mem i j k → f0 i j k = false)
    (hnext : ∀ s v, Inv s v → N < v.voxels → I s v = Heightmap.IState.ambiguous →
      Inv (next s v) (v.split true true true).1 ∧ Inv (next s v) (v.split true true true).2)
    (s0 : σ) (workers : Nat) (root : View) (hinit : ∀ r, Sub r root → Inv s0 r)
    (m : Img) (hin : ∀ i j, root.memXY i j → m.inb i j) :
    (∀ i j, (renderG N cls zr I next s0 workers root m).inb i j ↔ m.inb i j) ∧
    (∀ i j, (renderG N cls zr I next s0 workers root m).get i j =
        if root.memXY i j then Heightmap.colSpec f0 zr i j root.cz root.sz (m.get i j) else m.get i j) := by
  obtain ⟨p1, p2⟩ := Heightmap.regions_part workers root
  have hcov : ∀ r, r ∈ Heightmap.regions workers root → ∀ i j, r.memXY i j → root.memXY i j := by
    intro r hr i j h
    have hs := regions_sub workers root r hr
    unfold Sub at hs; unfold View.memXY at h ⊢; omega
  obtain ⟨s1, s2⟩ := foldViews_spec f0 zr
    (fun r m => recurseG N cls zr I next (r.sx + r.sy + r.sz) s0 r m) root.cz root.sz
    (Heightmap.regions workers root) m
    (fun r hr m' hin' => recurseG_spec N f0 zr cls I next Inv hN hz hcls hfill hempty hnext _ s0 r m'
      (hinit r (regions_sub workers root r hr)) (Nat.le_refl _) hin')
    p1 (fun i j => by rw [p2]; split <;> omega) (fun r hr i j h => hin i j (hcov r hr i j h))
  refine ⟨s1, fun i j => ?_⟩
  show ((Heightmap.regions workers root).foldl _ m).get i j = _
  rw [s2, p2]
  by_cases hv : root.memXY i j
  · simp [hv]
  · simp [hv]

end generic

/-! ## `Tape::push` keeps opcodes -/

theorem push_ops (T : TapeM) (keep : Clause → Keep) :
    ∀ c, c ∈ (T.push keep).t → ∃ d, d ∈ T.t ∧ c.op = d.op := by
  intro c hc
  unfold TapeM.push at hc
  by_cases ht : T.terminal = true
  · simp only [ht, if_true] at hc
    exact ⟨c, hc, rfl⟩
  · simp only [ht, Bool.false_eq_true, if_false] at hc
    by_cases hch : pushChanged keep T.t (PushState.init T.root) = true
    · simp only [hch, Bool.not_true, Bool.false_eq_true, if_false, emit, List.mem_filterMap] at hc
      obtain ⟨d, hd, he⟩ := hc
      refine ⟨d, hd, ?_⟩
      split_ifs at he
      · cases he; rfl
      · cases he; rfl
    · simp only [hch, Bool.not_false, if_true] at hc
      exact ⟨c, hc, rfl⟩

theorem push_noPowRoot (T : TapeM) (keep : Clause → Keep) (h : NoPowRoot T.t) :
    NoPowRoot (T.push keep).t := by
  intro c hc
  obtain ⟨d, hd, he⟩ := push_ops T keep c hc
  rw [he]; exact h d hd


/-! ## the tape instance of the threaded model -/

/-- `Heightmap::recurse` on a tape: `pixels` evaluates the CURRENT (specialised) tape at the voxel centres,
    the interval result is the current tape's on the view's box, the children get the tape pushed with
    that interval result's keep decisions -/
def recurseT (Bo : BoostOps K) (pev : Op → FVal K → FVal K → FVal K) (F : Frame K) (N : Nat)
    (zr : Nat → Int) : Nat → TapeM → View → Img → Img :=
  recurseG N (insideAt pev F) zr (stateOf Bo F) (pushOf Bo F)

/-- `Heightmap::render` on a tape: every worker starts from the base tape -/
def renderT (Bo : BoostOps K) (pev : Op → FVal K → FVal K → FVal K) (F : Frame K) (N : Nat)
    (zr : Nat → Int) (T0 : TapeM) (workers : Nat) (root : View) (m : Img) : Img :=
  renderG N (insideAt pev F) zr (stateOf Bo F) (pushOf Bo F) T0 workers root m

end Libfive.HmIvl
