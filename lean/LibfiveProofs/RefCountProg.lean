/-
  Helper lemmas for C14 (full confluence): the ownership invariant of LibfiveModel/RefCountProg.lean is
  inductive over micro-steps, quiescent states are characterised by it, and the characterisation has
  a unique solution (induction along the DAG order).  Core Lean only.
-/
import LibfiveModel.RefCountProg
import LibfiveProofs.RefCountConc

namespace Libfive.RCP

/-! ### sums -/

theorem tsum_set (f : Thread → Nat) : ∀ (l : List Thread) (t : Nat) (th th' : Thread),
    l[t]? = some th → tsum f (l.set t th') + f th = tsum f l + f th'
  | [], _, _, _, h => by simp at h
  | a :: l, 0, th, th', h => by
    simp only [List.getElem?_cons_zero, Option.some.injEq] at h; subst h
    simp only [List.set_cons_zero, tsum]; omega
  | a :: l, t + 1, th, th', h => by
    simp only [List.getElem?_cons_succ] at h
    have := tsum_set f l t th th' h
    simp only [List.set_cons_succ, tsum]; omega

theorem tsum_get_le (f : Thread → Nat) : ∀ (l : List Thread) (t : Nat) (th : Thread),
    l[t]? = some th → f th ≤ tsum f l
  | [], _, _, h => by simp at h
  | a :: l, 0, th, h => by
    simp only [List.getElem?_cons_zero, Option.some.injEq] at h; subst h
    simp only [tsum]; omega
  | a :: l, t + 1, th, h => by
    simp only [List.getElem?_cons_succ] at h
    have := tsum_get_le f l t th h
    simp only [tsum]; omega

theorem tsum_congr {f g : Thread → Nat} : ∀ (l : List Thread), (∀ th ∈ l, f th = g th) →
    tsum f l = tsum g l
  | [], _ => rfl
  | a :: l, h => by
    simp only [tsum]
    rw [h a (by simp), tsum_congr l (fun th hth => h th (by simp [hth]))]

theorem tsum_zero {f : Thread → Nat} (l : List Thread) (h : ∀ th ∈ l, f th = 0) : tsum f l = 0 := by
  rw [tsum_congr (g := fun _ => 0) l h]
  induction l with
  | nil => rfl
  | cons a l ih => simp only [tsum]; rw [ih (fun th hth => h th (by simp [hth]))]

theorem tsum_map_congr {β : Type} (g : Thread → β) (h : β → Nat) : ∀ (l1 l2 : List Thread),
    l1.map g = l2.map g → tsum (fun th => h (g th)) l1 = tsum (fun th => h (g th)) l2
  | [], [], _ => rfl
  | [], _ :: _, e => by simp at e
  | _ :: _, [], e => by simp at e
  | a :: l1, b :: l2, e => by
    simp only [List.map_cons, List.cons.injEq] at e
    simp only [tsum]
    rw [e.1, tsum_map_congr g h l1 l2 e.2]

theorem nsum_congr {g1 g2 : Nat → Nat} : ∀ k, (∀ p, p < k → g1 p = g2 p) → nsum g1 k = nsum g2 k
  | 0, _ => rfl
  | k + 1, h => by
    simp only [nsum]
    rw [nsum_congr k (fun p hp => h p (by omega)), h k (by omega)]

theorem nsum_upd {g g' : Nat → Nat} (p0 : Nat) (hne : ∀ p, p ≠ p0 → g' p = g p) :
    ∀ k, p0 < k → nsum g' k + g p0 = nsum g k + g' p0
  | 0, h => by omega
  | k + 1, h => by
    simp only [nsum]
    by_cases e : p0 = k
    · subst e
      rw [nsum_congr (g1 := g') (g2 := g) p0 (fun p hp => hne p (by omega))]
      omega
    · have := nsum_upd p0 hne k (by omega)
      rw [hne k (fun x => e x.symm)]
      omega

theorem map_set_same {β : Type} (f : Thread → β) : ∀ (l : List Thread) (t : Nat) (th th' : Thread),
    l[t]? = some th → f th' = f th → (l.set t th').map f = l.map f
  | [], _, _, _, h, _ => by simp at h
  | a :: l, 0, _, th', h, e => by
    simp only [List.getElem?_cons_zero, Option.some.injEq] at h; subst h
    simp [e]
  | a :: l, t + 1, th, th', h, e => by
    simp only [List.getElem?_cons_succ] at h
    simp [map_set_same f l t th th' h e]

theorem mem_set {l : List Thread} {t : Nat} {th' x : Thread} (hx : x ∈ l.set t th') :
    x = th' ∨ x ∈ l := by
  rcases List.mem_or_eq_of_mem_set hx with h | h
  · exact Or.inr h
  · exact Or.inl h

theorem mem_of_get {l : List Thread} {t : Nat} {th : Thread} (h : l[t]? = some th) : th ∈ l :=
  List.mem_of_getElem? h

/-! ### what one micro-step is -/

theorem step_cases {G : Graph} {s s' : State} {t : Nat} (h : step G s t = some s') :
    (s' = s ∧ ∀ th, s.thr[t]? = some th → th.idle) ∨
    (∃ th n, s.thr[t]? = some th ∧ th.dying = some n ∧ s.freed n = false ∧
      s' = ⟨s.rc, upd s.freed n true,
            s.thr.set t { th with dying := none, stack := (G.kids n).reverse ++ th.stack }⟩) ∨
    (∃ th n rest, s.thr[t]? = some th ∧ th.dying = none ∧ th.stack = n :: rest ∧
      s.freed n = false ∧ s.rc n ≠ 0 ∧
      s' = ⟨upd s.rc n (s.rc n - 1), s.freed,
            s.thr.set t { th with stack := rest, dying := if s.rc n = 1 then some n else none }⟩) ∨
    (∃ th n ops, s.thr[t]? = some th ∧ th.dying = none ∧ th.stack = [] ∧ th.prog = .copy n :: ops ∧
      s.freed n = false ∧ (n ∈ th.hs ∨ 1 ≤ G.pin n) ∧
      s' = ⟨upd s.rc n (s.rc n + 1), s.freed,
            s.thr.set t { th with prog := ops, hs := n :: th.hs }⟩) ∨
    (∃ th n ops, s.thr[t]? = some th ∧ th.dying = none ∧ th.stack = [] ∧ th.prog = .destroy n :: ops ∧
      n ∈ th.hs ∧
      s' = ⟨s.rc, s.freed,
            s.thr.set t { th with prog := ops, hs := th.hs.erase n, stack := [n] }⟩) := by
  unfold step at h
  split at h
  · rename_i hth
    left; exact ⟨by simpa using h.symm, fun th h' => by rw [hth] at h'; cases h'⟩
  · rename_i th hth
    unfold tstep at h
    split at h
    · rename_i n hd
      split at h
      · cases h
      · rename_i hf
        right; left
        refine ⟨th, n, hth, hd, by simpa using hf, ?_⟩
        simpa using h.symm
    · rename_i hd
      split at h
      · rename_i n rest hs
        split at h
        · cases h
        · rename_i hc
          right; right; left
          refine ⟨th, n, rest, hth, hd, hs, ?_, ?_, by simpa using h.symm⟩
          · cases hh : s.freed n with
            | false => rfl
            | true => exact absurd (Or.inl hh) hc
          · intro h0; exact hc (Or.inr h0)
      · rename_i hs
        split at h
        · rename_i hp
          left
          refine ⟨by simpa using h.symm, fun th' h' => ?_⟩
          rw [hth] at h'; cases h'
          exact ⟨hp, hs, hd⟩
        · rename_i n ops hp
          split at h
          · cases h
          · rename_i hc
            right; right; right; left
            refine ⟨th, n, ops, hth, hd, hs, hp, ?_, ?_, by simpa using h.symm⟩
            · cases hh : s.freed n with
              | false => rfl
              | true => exact absurd (Or.inl hh) hc
            · exact Classical.not_not.mp (fun x => hc (Or.inr x))
        · rename_i n ops hp
          split at h
          · rename_i hm
            right; right; right; right
            exact ⟨th, n, ops, hth, hd, hs, hp, hm, by simpa using h.symm⟩
          · cases h

/-! ### the invariant is inductive -/

theorem lt_size_of_live {G : Graph} {s : State} (I : Inv G s) {n : Nat} (hf : s.freed n = false) :
    n < G.size := by
  by_cases h : n < G.size
  · exact h
  · have := I.oob n (by omega); simp [hf] at this

theorem E_free (G : Graph) (fr : Nat → Bool) (n0 : Nat) (h0 : fr n0 = false) (hlt : n0 < G.size)
    (m : Nat) : E G (upd fr n0 true) m + (G.kids n0).count m = E G fr m := by
  have := nsum_upd (g := fun p => if fr p = true then 0 else (G.kids p).count m)
    (g' := fun p => if upd fr n0 true p = true then 0 else (G.kids p).count m) n0
    (by intro p hp; simp [upd, hp]) G.size hlt
  simp only [E]
  simp [upd, h0] at this ⊢
  omega

theorem inv_del {G : Graph} {s : State} {t : Nat} {th : Thread} {n0 : Nat} (I : Inv G s)
    (hth : s.thr[t]? = some th) (hd : th.dying = some n0) (hf : s.freed n0 = false) :
    Inv G ⟨s.rc, upd s.freed n0 true,
      s.thr.set t { th with dying := none, stack := (G.kids n0).reverse ++ th.stack }⟩ := by
  have hlt := lt_size_of_live I hf
  have eH : ∀ m, H (s.thr.set t { th with dying := none, stack := (G.kids n0).reverse ++ th.stack }) m
      = H s.thr m := by
    intro m
    have := tsum_set (fun th => th.hs.count m) s.thr t th
      { th with dying := none, stack := (G.kids n0).reverse ++ th.stack } hth
    simp only [H]; simp only at this; omega
  have eP : ∀ m, P (s.thr.set t { th with dying := none, stack := (G.kids n0).reverse ++ th.stack }) m
      = P s.thr m + (G.kids n0).count m := by
    intro m
    have := tsum_set (fun th => th.stack.count m) s.thr t th
      { th with dying := none, stack := (G.kids n0).reverse ++ th.stack } hth
    simp only [P]; simp only [List.count_append, List.count_reverse] at this; omega
  have eD : ∀ m, D (s.thr.set t { th with dying := none, stack := (G.kids n0).reverse ++ th.stack }) m
      + dyc (some n0) m = D s.thr m := by
    intro m
    have := tsum_set (fun th => dyc th.dying m) s.thr t th
      { th with dying := none, stack := (G.kids n0).reverse ++ th.stack } hth
    simp only [D]; simp only [hd] at this; simp [dyc] at this ⊢; omega
  have eE := E_free G s.freed n0 hf hlt
  have d0 : 1 ≤ D s.thr n0 := by
    have := tsum_get_le (fun th => dyc th.dying n0) s.thr t th hth
    simp [hd, dyc] at this; exact this
  have ⟨d1, r0⟩ := I.dy n0 (by omega)
  have l0 := I.live n0 hf
  constructor
  · intro n hn
    simp only [upd]
    by_cases e : n = n0
    · simp [e]
    · simp [e, I.oob n hn]
  · intro n hn
    simp only [upd] at hn
    by_cases e : n = n0
    · simp [e] at hn
    · simp only [e, if_false] at hn
      have := I.live n hn
      have := eH n; have := eP n; have := eE n
      simp only [R] at *
      omega
  · intro n hn
    simp only [upd] at hn
    have := eH n; have := eP n; have := eE n; have := eD n
    by_cases e : n = n0
    · subst e
      simp only [R, dyc] at *
      simp at *
      omega
    · simp only [e, if_false] at hn
      have := I.dead n hn
      have e' : ¬ n0 = n := fun x => e x.symm
      simp only [R, dyc] at *
      simp [e'] at *
      omega
  · intro n hn
    dsimp only at hn ⊢
    have := eD n
    by_cases e : n = n0
    · subst e
      simp [dyc] at this
      omega
    · have e' : ¬ n0 = n := fun x => e x.symm
      simp [dyc, e'] at this
      rw [this] at hn ⊢
      exact I.dy n hn
  · intro n hn hdn
    dsimp only at hn hdn
    simp only [upd] at hn
    by_cases e : n = n0
    · simp [e] at hn
    · simp only [e, if_false] at hn
      have := eD n
      have e' : ¬ n0 = n := fun x => e x.symm
      simp [dyc, e'] at this
      exact I.pos n hn (by omega)
  · intro x hx
    rcases mem_set hx with rfl | hx
    · exact I.progs th (mem_of_get hth)
    · exact I.progs x hx

theorem inv_dec {G : Graph} {s : State} {t : Nat} {th : Thread} {n0 : Nat} {rest : List Nat}
    (I : Inv G s) (hth : s.thr[t]? = some th) (hd : th.dying = none) (hs : th.stack = n0 :: rest)
    (hf : s.freed n0 = false) (hr : s.rc n0 ≠ 0) :
    Inv G ⟨upd s.rc n0 (s.rc n0 - 1), s.freed,
      s.thr.set t { th with stack := rest, dying := if s.rc n0 = 1 then some n0 else none }⟩ := by
  have eH : ∀ m, H (s.thr.set t { th with stack := rest, dying := if s.rc n0 = 1 then some n0 else none }) m = H s.thr m := by
    intro m
    have := tsum_set (fun th => th.hs.count m) s.thr t th
      { th with stack := rest, dying := if s.rc n0 = 1 then some n0 else none } hth
    simp only [H]; simp only at this; omega
  have eP : ∀ m, P (s.thr.set t { th with stack := rest, dying := if s.rc n0 = 1 then some n0 else none }) m + (if m = n0 then 1 else 0) = P s.thr m := by
    intro m
    have := tsum_set (fun th => th.stack.count m) s.thr t th
      { th with stack := rest, dying := if s.rc n0 = 1 then some n0 else none } hth
    simp only [P]; simp only [hs, List.count_cons] at this
    by_cases e : m = n0
    · subst e; simp at this ⊢; omega
    · have e' : ¬ n0 = m := fun x => e x.symm
      simp [e, e'] at this ⊢; omega
  have eD : ∀ m, D (s.thr.set t { th with stack := rest, dying := if s.rc n0 = 1 then some n0 else none }) m
      = D s.thr m + (if s.rc n0 = 1 ∧ m = n0 then 1 else 0) := by
    intro m
    have := tsum_set (fun th => dyc th.dying m) s.thr t th
      { th with stack := rest, dying := if s.rc n0 = 1 then some n0 else none } hth
    simp only [D]; simp only [hd] at this
    by_cases h1 : s.rc n0 = 1
    · by_cases e : m = n0
      · subst e; simp [h1, dyc] at this ⊢; omega
      · have e' : ¬ n0 = m := fun x => e x.symm
        simp [h1, dyc, e, e'] at this ⊢; omega
    · simp [h1, dyc] at this ⊢; omega
  have p0 : 1 ≤ P s.thr n0 := by
    have := tsum_get_le (fun th => th.stack.count n0) s.thr t th hth
    simp only [hs, List.count_cons_self] at this; simp only [P]; omega
  have l0 := I.live n0 hf
  have d0 : D s.thr n0 = 0 := by
    by_cases h : D s.thr n0 = 0
    · exact h
    · exact absurd (I.dy n0 h).2 hr
  constructor
  · exact I.oob
  · intro n hn
    dsimp only at hn ⊢
    have := I.live n hn
    have := eH n; have := eP n
    by_cases e : n = n0
    · subst e
      simp only [R, upd] at *
      simp at *
      omega
    · simp only [R, upd] at *
      simp [e] at *
      omega
  · intro n hn
    dsimp only at hn ⊢
    have := I.dead n hn
    have := eH n; have := eP n; have := eD n
    have e : ¬ n = n0 := by intro e; rw [e, hf] at hn; cases hn
    simp only [R] at *
    simp [e] at *
    omega
  · intro n hn
    dsimp only at hn ⊢
    have := eD n
    by_cases e : n = n0
    · subst e
      by_cases h1 : s.rc n = 1
      · have := this.trans (by rw [if_pos ⟨h1, rfl⟩])
        exact ⟨by omega, by simp [upd, h1]⟩
      · have := this.trans (by rw [if_neg (fun x => h1 x.1)]); omega
    · have := this.trans (by rw [if_neg (fun x => e x.2)])
      rw [this] at hn ⊢
      have := I.dy n hn
      simp [upd, e]; exact this
  · intro n hn hdn
    dsimp only at hn hdn ⊢
    have := eD n
    by_cases e : n = n0
    · subst e
      by_cases h1 : s.rc n = 1
      · have := this.trans (by rw [if_pos ⟨h1, rfl⟩]); omega
      · simp [upd]; omega
    · have := this.trans (by rw [if_neg (fun x => e x.2)])
      have := I.pos n hn (by omega)
      simp [upd, e]; exact this
  · intro x hx
    rcases mem_set hx with rfl | hx
    · exact I.progs th (mem_of_get hth)
    · exact I.progs x hx

theorem inv_copy {G : Graph} {s : State} {t : Nat} {th : Thread} {n0 : Nat} {ops : List Op}
    (I : Inv G s) (hth : s.thr[t]? = some th) (hp : th.prog = .copy n0 :: ops)
    (hf : s.freed n0 = false) (ho : n0 ∈ th.hs ∨ 1 ≤ G.pin n0) :
    Inv G ⟨upd s.rc n0 (s.rc n0 + 1), s.freed,
      s.thr.set t { th with prog := ops, hs := n0 :: th.hs }⟩ := by
  have eH : ∀ m, H (s.thr.set t { th with prog := ops, hs := n0 :: th.hs }) m
      = H s.thr m + (if m = n0 then 1 else 0) := by
    intro m
    have := tsum_set (fun th => th.hs.count m) s.thr t th
      { th with prog := ops, hs := n0 :: th.hs } hth
    simp only [H]; simp only [List.count_cons] at this
    by_cases e : m = n0
    · subst e; simp at this ⊢; omega
    · have e' : ¬ n0 = m := fun x => e x.symm
      simp [e, e'] at this ⊢; omega
  have eP : ∀ m, P (s.thr.set t { th with prog := ops, hs := n0 :: th.hs }) m = P s.thr m := by
    intro m
    have := tsum_set (fun th => th.stack.count m) s.thr t th
      { th with prog := ops, hs := n0 :: th.hs } hth
    simp only [P]; simp only at this; omega
  have eD : ∀ m, D (s.thr.set t { th with prog := ops, hs := n0 :: th.hs }) m = D s.thr m := by
    intro m
    have := tsum_set (fun th => dyc th.dying m) s.thr t th
      { th with prog := ops, hs := n0 :: th.hs } hth
    simp only [D]; simp only at this; omega
  have l0 := I.live n0 hf
  have r1 : 1 ≤ R G s n0 := by
    rcases ho with ho | ho
    · have := tsum_get_le (fun th => th.hs.count n0) s.thr t th hth
      have c := List.count_pos_iff.mpr ho
      simp only [R, H]; omega
    · simp only [R]; omega
  have d0 : D s.thr n0 = 0 := by
    by_cases h : D s.thr n0 = 0
    · exact h
    · have := (I.dy n0 h).2; omega
  constructor
  · exact I.oob
  · intro n hn
    dsimp only at hn ⊢
    have := I.live n hn
    have := eH n; have := eP n
    by_cases e : n = n0
    · subst e
      simp only [R, upd] at *
      simp at *
      omega
    · simp only [R, upd] at *
      simp [e] at *
      omega
  · intro n hn
    dsimp only at hn ⊢
    have := I.dead n hn
    have := eH n; have := eP n; have := eD n
    have e : ¬ n = n0 := by intro e; rw [e, hf] at hn; cases hn
    simp only [R] at *
    simp [e] at *
    omega
  · intro n hn
    dsimp only at hn ⊢
    rw [eD n] at hn ⊢
    by_cases e : n = n0
    · subst e; omega
    · have := I.dy n hn
      simp [upd, e]; exact this
  · intro n hn hdn
    dsimp only at hn hdn ⊢
    rw [eD n] at hdn
    have := I.pos n hn hdn
    by_cases e : n = n0
    · subst e; simp [upd]
    · simp [upd, e]; exact this
  · intro x hx
    rcases mem_set hx with rfl | hx
    · have := I.progs th (mem_of_get hth)
      rw [hp] at this
      simp only [progOk, Bool.and_eq_true] at this
      exact this.2
    · exact I.progs x hx

theorem inv_destroy {G : Graph} {s : State} {t : Nat} {th : Thread} {n0 : Nat} {ops : List Op}
    (I : Inv G s) (hth : s.thr[t]? = some th) (hs : th.stack = []) (hp : th.prog = .destroy n0 :: ops)
    (ho : n0 ∈ th.hs) :
    Inv G ⟨s.rc, s.freed,
      s.thr.set t { th with prog := ops, hs := th.hs.erase n0, stack := [n0] }⟩ := by
  have c0 := List.count_pos_iff.mpr ho
  have eH : ∀ m, H (s.thr.set t { th with prog := ops, hs := th.hs.erase n0, stack := [n0] }) m
      + (if m = n0 then 1 else 0) = H s.thr m := by
    intro m
    have := tsum_set (fun th => th.hs.count m) s.thr t th
      { th with prog := ops, hs := th.hs.erase n0, stack := [n0] } hth
    simp only [H]; simp only at this
    by_cases e : m = n0
    · subst e; rw [List.count_erase_self] at this; simp; omega
    · rw [List.count_erase_of_ne e] at this; simp [e]; omega
  have eP : ∀ m, P (s.thr.set t { th with prog := ops, hs := th.hs.erase n0, stack := [n0] }) m
      = P s.thr m + (if m = n0 then 1 else 0) := by
    intro m
    have := tsum_set (fun th => th.stack.count m) s.thr t th
      { th with prog := ops, hs := th.hs.erase n0, stack := [n0] } hth
    simp only [P]; simp only [hs, List.count_cons, List.count_nil] at this
    by_cases e : m = n0
    · subst e; simp at this ⊢; omega
    · have e' : ¬ n0 = m := fun x => e x.symm
      simp [e, e'] at this ⊢; omega
  have eD : ∀ m, D (s.thr.set t { th with prog := ops, hs := th.hs.erase n0, stack := [n0] }) m
      = D s.thr m := by
    intro m
    have := tsum_set (fun th => dyc th.dying m) s.thr t th
      { th with prog := ops, hs := th.hs.erase n0, stack := [n0] } hth
    simp only [D]; simp only at this; omega
  have eR : ∀ m, R G ⟨s.rc, s.freed,
      s.thr.set t { th with prog := ops, hs := th.hs.erase n0, stack := [n0] }⟩ m = R G s m := by
    intro m
    have := eH m; have := eP m
    simp only [R]
    by_cases e : m = n0
    · subst e; simp at *; omega
    · simp [e] at *; omega
  constructor
  · exact I.oob
  · intro n hn
    rw [eR n]; exact I.live n hn
  · intro n hn
    rw [eR n]; dsimp only; rw [eD n]; exact I.dead n hn
  · intro n hn
    dsimp only at hn ⊢
    rw [eD n] at hn ⊢
    exact I.dy n hn
  · intro n hn hdn
    dsimp only at hn hdn ⊢
    rw [eD n] at hdn
    exact I.pos n hn hdn
  · intro x hx
    rcases mem_set hx with rfl | hx
    · have := I.progs th (mem_of_get hth)
      rw [hp] at this
      simp only [progOk, Bool.and_eq_true] at this
      exact this.2
    · exact I.progs x hx

/-- **the ownership invariant is preserved by every micro-step of every thread** -/
theorem inv_step {G : Graph} {s s' : State} {t : Nat} (I : Inv G s) (h : step G s t = some s') :
    Inv G s' := by
  rcases step_cases h with ⟨rfl, hidle⟩ | ⟨th, n, hth, hd, hf, rfl⟩ | ⟨th, n, rest, hth, hd, hs, hf, hr, rfl⟩ |
    ⟨th, n, ops, hth, _, _, hp, hf, ho, rfl⟩ | ⟨th, n, ops, hth, _, hs, hp, ho, rfl⟩
  · exact I
  · exact inv_del I hth hd hf
  · exact inv_dec I hth hd hs hf hr
  · exact inv_copy I hth hp hf ho
  · exact inv_destroy I hth hs hp ho

/-! ### no fault in any reachable state -/

theorem live_of_ref {G : Graph} {s : State} (I : Inv G s) {n : Nat} (h : 1 ≤ R G s n) :
    s.freed n = false := by
  cases hh : s.freed n with
  | false => rfl
  | true => have := (I.dead n hh).1; omega

theorem live_of_dying {G : Graph} {s : State} (I : Inv G s) {n : Nat} (h : 1 ≤ D s.thr n) :
    s.freed n = false := by
  cases hh : s.freed n with
  | false => rfl
  | true => have := (I.dead n hh).2; omega

theorem dying_ref {s : State} {t : Nat} {th : Thread} {n : Nat} (hth : s.thr[t]? = some th)
    (hd : th.dying = some n) : 1 ≤ D s.thr n := by
  have := tsum_get_le (fun th => dyc th.dying n) s.thr t th hth
  simp only [hd, dyc, if_true] at this
  exact this

theorem stack_ref {G : Graph} {s : State} {t : Nat} {th : Thread} {n : Nat} {rest : List Nat}
    (hth : s.thr[t]? = some th) (hs : th.stack = n :: rest) : 1 ≤ R G s n := by
  have := tsum_get_le (fun th => th.stack.count n) s.thr t th hth
  simp only [hs, List.count_cons_self] at this
  simp only [R, P]; omega

theorem copy_ref {G : Graph} {s : State} {t : Nat} {th : Thread} {n : Nat} {ops : List Op}
    (I : Inv G s) (hth : s.thr[t]? = some th) (hp : th.prog = .copy n :: ops) :
    (n ∈ th.hs ∨ 1 ≤ G.pin n) ∧ 1 ≤ R G s n := by
  have := I.progs th (mem_of_get hth)
  rw [hp] at this
  simp only [progOk, Bool.and_eq_true, Bool.or_eq_true, decide_eq_true_eq] at this
  refine ⟨this.1, ?_⟩
  rcases this.1 with ho | ho
  · have := tsum_get_le (fun th => th.hs.count n) s.thr t th hth
    have c := List.count_pos_iff.mpr ho
    simp only [R, H]; omega
  · simp only [R]; omega

/-- the node a micro-step is about to access has not been deleted -/
theorem touch_live {G : Graph} {s : State} {t n : Nat} (I : Inv G s) (h : touch s t = some n) :
    s.freed n = false := by
  unfold touch at h
  split at h
  · cases h
  · rename_i th hth
    split at h
    · rename_i m hd
      cases h
      exact live_of_dying I (dying_ref hth hd)
    · split at h
      · rename_i m rest hs
        cases h
        exact live_of_ref I (stack_ref hth hs)
      · split at h
        · rename_i m ops hp
          cases h
          exact live_of_ref I (copy_ref I hth hp).2
        · cases h

/-- in a state satisfying the invariant no thread's next micro-step faults -/
theorem step_ok {G : Graph} {s : State} (I : Inv G s) (t : Nat) : ∃ s', step G s t = some s' := by
  unfold step
  split
  · exact ⟨s, rfl⟩
  · rename_i th hth
    unfold tstep
    split
    · rename_i n hd
      have := live_of_dying I (dying_ref hth hd)
      simp [this]
    · split
      · rename_i n rest hs
        have r := stack_ref (G := G) hth hs
        have hf := live_of_ref I r
        have := I.live n hf
        have : ¬ s.rc n = 0 := by omega
        simp [hf, this]
      · split
        · exact ⟨s, rfl⟩
        · rename_i n ops hp
          have ⟨ho, r⟩ := copy_ref I hth hp
          have hf := live_of_ref I r
          have : ¬ (s.freed n = true ∨ ¬ (n ∈ th.hs ∨ 1 ≤ G.pin n)) := by
            intro h
            rcases h with h | h
            · rw [hf] at h; cases h
            · exact h ho
          rw [if_neg this]
          exact ⟨_, rfl⟩
        · rename_i n ops hp
          have := I.progs th (mem_of_get hth)
          rw [hp] at this
          simp only [progOk, Bool.and_eq_true, decide_eq_true_eq] at this
          rw [if_pos this.1]
          exact ⟨_, rfl⟩

theorem run_cons {G : Graph} {s s' : State} {t : Nat} {ts : List Nat} (h : run G s (t :: ts) = some s') :
    ∃ s1, step G s t = some s1 ∧ run G s1 ts = some s' := by
  simp only [run] at h
  split at h
  · rename_i s1 h1; exact ⟨s1, h1, h⟩
  · cases h

theorem run_append {G : Graph} : ∀ (a b : List Nat) (s s1 s2 : State), run G s a = some s1 →
    run G s1 b = some s2 → run G s (a ++ b) = some s2
  | [], _, _, _, _, h1, h2 => by simp only [run, Option.some.injEq] at h1; subst h1; exact h2
  | t :: a, b, s, s1, s2, h1, h2 => by
    obtain ⟨s', hs, hr⟩ := run_cons h1
    simp only [List.cons_append, run, hs]
    exact run_append a b s' s1 s2 hr h2

theorem run_inv {G : Graph} : ∀ (tr : List Nat) (s s' : State), Inv G s → run G s tr = some s' →
    Inv G s'
  | [], _, _, I, h => by simp only [run, Option.some.injEq] at h; subst h; exact I
  | _ :: ts, _, s', I, h => by
    obtain ⟨s1, h1, h2⟩ := run_cons h
    exact run_inv ts s1 s' (inv_step I h1) h2

theorem run_ok {G : Graph} : ∀ (tr : List Nat) (s : State), Inv G s → ∃ s', run G s tr = some s'
  | [], s, _ => ⟨s, rfl⟩
  | t :: ts, s, I => by
    obtain ⟨s1, h1⟩ := step_ok I t
    obtain ⟨s', h2⟩ := run_ok ts s1 (inv_step I h1)
    exact ⟨s', by simp only [run, h1, h2]⟩

/-! ### what a run remembers of its start state -/

structure Rel (s0 s : State) : Prop where
  fin : s.thr.map Thread.fin = s0.thr.map Thread.fin
  old : ∀ n, s0.freed n = true → s.freed n = true ∧ s.rc n = s0.rc n
  new : ∀ n, s0.freed n = false → s.freed n = true → s.rc n = 0

theorem rel_refl (s : State) : Rel s s :=
  ⟨rfl, fun _ h => ⟨h, rfl⟩, fun n h1 h2 => by rw [h1] at h2; cases h2⟩

theorem rel_step {G : Graph} {s0 s s' : State} {t : Nat} (I : Inv G s) (r : Rel s0 s)
    (h : step G s t = some s') : Rel s0 s' := by
  rcases step_cases h with ⟨rfl, hidle⟩ | ⟨th, n, hth, hd, hf, rfl⟩ | ⟨th, n, rest, hth, hd, hs, hf, hr, rfl⟩ |
    ⟨th, n, ops, hth, _, _, hp, hf, ho, rfl⟩ | ⟨th, n, ops, hth, _, hs, hp, ho, rfl⟩
  · exact r
  · refine ⟨?_, ?_, ?_⟩
    · rw [← r.fin]; exact map_set_same Thread.fin s.thr t th _ hth rfl
    · intro m hm
      have ⟨a, b⟩ := r.old m hm
      have e : ¬ m = n := by intro e; rw [e, hf] at a; cases a
      exact ⟨by simp [upd, e, a], b⟩
    · intro m hm hm'
      dsimp only at hm' ⊢
      by_cases e : m = n
      · subst e; exact (I.dy m (by have := dying_ref hth hd; omega)).2
      · simp only [upd, e, if_false] at hm'
        exact r.new m hm hm'
  · refine ⟨?_, ?_, ?_⟩
    · rw [← r.fin]; exact map_set_same Thread.fin s.thr t th _ hth rfl
    · intro m hm
      have ⟨a, b⟩ := r.old m hm
      have e : ¬ m = n := by intro e; rw [e, hf] at a; cases a
      exact ⟨a, by simp [upd, e, b]⟩
    · intro m hm hm'
      dsimp only at hm' ⊢
      have e : ¬ m = n := by intro e; rw [e, hf] at hm'; cases hm'
      simp only [upd, e, if_false]
      exact r.new m hm hm'
  · refine ⟨?_, ?_, ?_⟩
    · rw [← r.fin]
      exact map_set_same Thread.fin s.thr t th _ hth (by simp [Thread.fin, hp, finalHs])
    · intro m hm
      have ⟨a, b⟩ := r.old m hm
      have e : ¬ m = n := by intro e; rw [e, hf] at a; cases a
      exact ⟨a, by simp [upd, e, b]⟩
    · intro m hm hm'
      dsimp only at hm' ⊢
      have e : ¬ m = n := by intro e; rw [e, hf] at hm'; cases hm'
      simp only [upd, e, if_false]
      exact r.new m hm hm'
  · refine ⟨?_, r.old, r.new⟩
    rw [← r.fin]
    exact map_set_same Thread.fin s.thr t th _ hth (by simp [Thread.fin, hp, finalHs])

theorem run_rel {G : Graph} {s0 : State} : ∀ (tr : List Nat) (s s' : State), Inv G s → Rel s0 s →
    run G s tr = some s' → Rel s0 s'
  | [], _, _, _, r, h => by simp only [run, Option.some.injEq] at h; subst h; exact r
  | _ :: ts, _, s', I, r, h => by
    obtain ⟨s1, h1, h2⟩ := run_cons h
    exact run_rel ts s1 s' (inv_step I h1) (rel_step I r h1) h2

/-! ### quiescent states are determined by the start state -/

theorem idle_eta {th : Thread} (h : th.idle) : th = ⟨[], [], none, th.fin⟩ := by
  obtain ⟨a, b, c⟩ := h
  cases th
  simp only at a b c
  subst a; subst b; subst c
  simp [Thread.fin, finalHs]

theorem done_thr_eq : ∀ (l1 l2 : List Thread), (∀ th ∈ l1, th.idle) → (∀ th ∈ l2, th.idle) →
    l1.map Thread.fin = l2.map Thread.fin → l1 = l2
  | [], [], _, _, _ => rfl
  | [], _ :: _, _, _, e => by simp at e
  | _ :: _, [], _, _, e => by simp at e
  | a :: l1, b :: l2, h1, h2, e => by
    simp only [List.map_cons, List.cons.injEq] at e
    have ha := idle_eta (h1 a (by simp))
    have hb := idle_eta (h2 b (by simp))
    rw [done_thr_eq l1 l2 (fun th hth => h1 th (by simp [hth])) (fun th hth => h2 th (by simp [hth])) e.2,
      ha, hb, e.1]

theorem done_PD {s : State} (d : s.done) (n : Nat) : P s.thr n = 0 ∧ D s.thr n = 0 := by
  constructor
  · exact tsum_zero _ (fun th hth => by simp [(d th hth).2.1])
  · exact tsum_zero _ (fun th hth => by simp [(d th hth).2.2, dyc])

theorem E_congr (G : Graph) (hG : G.acyclic) (f1 f2 : Nat → Bool) (n : Nat)
    (h : ∀ p, n < p → p < G.size → f1 p = f2 p) : E G f1 n = E G f2 n := by
  apply nsum_congr
  intro p hp
  by_cases c : (G.kids p).count n = 0
  · simp [c]
  · have hm : n ∈ G.kids p := List.count_pos_iff.mp (by omega)
    rw [h p (hG p hp n hm) hp]

theorem state_ext {s1 s2 : State} (h1 : s1.rc = s2.rc) (h2 : s1.freed = s2.freed)
    (h3 : s1.thr = s2.thr) : s1 = s2 := by
  cases s1; cases s2; simp only at h1 h2 h3; subst h1; subst h2; subst h3; rfl

/-- two quiescent states reached from the same start state are equal -/
theorem final_unique {G : Graph} (hG : G.acyclic) {s0 s1 s2 : State} (I1 : Inv G s1) (I2 : Inv G s2)
    (r1 : Rel s0 s1) (r2 : Rel s0 s2) (d1 : s1.done) (d2 : s2.done) : s1 = s2 := by
  have ht : s1.thr = s2.thr := done_thr_eq _ _ d1 d2 (r1.fin.trans r2.fin.symm)
  -- the characterisation of a quiescent state
  have c1 : ∀ n, s1.freed n = false →
      s1.rc n = G.pin n + H s1.thr n + E G s1.freed n ∧ 1 ≤ s1.rc n := by
    intro n hn
    have := I1.live n hn; have := done_PD d1 n; have := I1.pos n hn (done_PD d1 n).2
    simp only [R] at *; omega
  have c2 : ∀ n, s2.freed n = false →
      s2.rc n = G.pin n + H s1.thr n + E G s2.freed n ∧ 1 ≤ s2.rc n := by
    intro n hn
    have := I2.live n hn; have := done_PD d2 n; have := I2.pos n hn (done_PD d2 n).2
    rw [ht]
    simp only [R] at *; omega
  have z1 : ∀ n, s1.freed n = true → G.pin n + H s1.thr n + E G s1.freed n = 0 := by
    intro n hn
    have := (I1.dead n hn).1
    simp only [R] at *; omega
  have z2 : ∀ n, s2.freed n = true → G.pin n + H s1.thr n + E G s2.freed n = 0 := by
    intro n hn
    have := (I2.dead n hn).1
    rw [ht]
    simp only [R] at *; omega
  -- a node's fate depends only on the fate of its parents, which have larger ids
  have hfr : ∀ d n, G.size ≤ n + d → s1.freed n = s2.freed n := by
    intro d
    induction d with
    | zero => intro n hn; rw [I1.oob n (by omega), I2.oob n (by omega)]
    | succ d ih =>
      intro n hn
      by_cases hlt : G.size ≤ n
      · rw [I1.oob n hlt, I2.oob n hlt]
      · have hE : E G s1.freed n = E G s2.freed n :=
          E_congr G hG _ _ n (fun p hp _ => ih p (by omega))
        cases h1 : s1.freed n with
        | false =>
          cases h2 : s2.freed n with
          | false => rfl
          | true => have := c1 n h1; have := z2 n h2; omega
        | true =>
          cases h2 : s2.freed n with
          | false => have := c2 n h2; have := z1 n h1; omega
          | true => rfl
  have hfr' : s1.freed = s2.freed := funext fun n => hfr G.size n (by omega)
  refine state_ext (funext fun n => ?_) hfr' ht
  cases h1 : s1.freed n with
  | false =>
    have h2 : s2.freed n = false := by rw [← hfr']; exact h1
    have a := c1 n h1; have b := c2 n h2
    rw [hfr'] at a
    omega
  | true =>
    have h2 : s2.freed n = true := by rw [← hfr']; exact h1
    cases h0 : s0.freed n with
    | false => rw [r1.new n h0 h1, r2.new n h0 h2]
    | true => rw [(r1.old n h0).2, (r2.old n h0).2]

/-! ### checkable start states satisfy the invariant -/

theorem nsum_zero {g : Nat → Nat} (k : Nat) (h : ∀ p, p < k → g p = 0) : nsum g k = 0 := by
  rw [nsum_congr (g2 := fun _ => 0) k h]
  induction k with
  | zero => rfl
  | succ k ih => simp only [nsum]; rw [ih (fun p hp => h p (by omega))]

theorem init_inv {G : Graph} {s : State} (h : Init G s) : Inv G s := by
  have hP : ∀ n, P s.thr n = 0 := fun n => tsum_zero _ (fun th hth => by simp [(h.thr th hth).1])
  have hD : ∀ n, D s.thr n = 0 := fun n => tsum_zero _ (fun th hth => by simp [(h.thr th hth).2.1, dyc])
  constructor
  · exact h.oob
  · intro n hn
    have hlt : n < G.size := by
      by_cases c : n < G.size
      · exact c
      · have := h.oob n (by omega); rw [hn] at this; cases this
    have := (h.nodes n hlt hn).2.1
    have := hP n
    simp only [R]; omega
  · intro n hn
    refine ⟨?_, hD n⟩
    have a : G.pin n = 0 := by
      apply List.count_eq_zero.mpr
      intro hm; have := h.pins n hm; rw [hn] at this; cases this
    have b : H s.thr n = 0 := by
      apply tsum_zero
      intro th hth
      apply List.count_eq_zero.mpr
      intro hm; have := (h.thr th hth).2.2.2 n hm; rw [hn] at this; cases this
    have c : E G s.freed n = 0 := by
      apply nsum_zero
      intro p hp
      cases hf : s.freed p with
      | true => simp
      | false =>
        simp only [Bool.false_eq_true, if_false]
        apply List.count_eq_zero.mpr
        intro hm; have := (h.nodes p hp hf).1 n hm; rw [hn] at this; cases this
    have := hP n
    simp only [R]; omega
  · intro n hn; exact absurd (hD n) hn
  · intro n hn _
    have hlt : n < G.size := by
      by_cases c : n < G.size
      · exact c
      · have := h.oob n (by omega); rw [hn] at this; cases this
    exact (h.nodes n hlt hn).2.2
  · intro th hth; exact (h.thr th hth).2.2.1

/-! ### termination: complete schedules exist, e.g. the sequential one -/

def tidle (s : State) (t : Nat) : Prop := ∀ th, s.thr[t]? = some th → th.idle

theorem step_idle {G : Graph} {s : State} {t : Nat} (h : tidle s t) : step G s t = some s := by
  unfold step
  split
  · rfl
  · rename_i th hth
    obtain ⟨a, b, c⟩ := h th hth
    simp [tstep, a, b, c]

theorem run_idle {G : Graph} {s : State} {t : Nat} (h : tidle s t) : ∀ k,
    run G s (List.replicate k t) = some s
  | 0 => rfl
  | k + 1 => by simp only [List.replicate_succ, run, step_idle h]; exact run_idle h k

def wt (th : Thread) : Nat :=
  3 * th.prog.length + 2 * th.stack.length + (if th.dying = none then 0 else 1)

theorem mu_eq (G : Graph) (s : State) : mu G s = tsum wt s.thr +
    nsum (fun p => if s.freed p = true then 0 else 2 * (G.kids p).length + 2) G.size := rfl

/-- a micro-step is a no-op of an idle thread, or decreases the measure; it never changes another
    thread's private state -/
theorem step_mu {G : Graph} {s s' : State} {t : Nat} (I : Inv G s) (h : step G s t = some s') :
    ((tidle s t ∧ s' = s) ∨ mu G s' < mu G s) ∧ s'.thr.length = s.thr.length ∧
    ∀ t', t' ≠ t → s'.thr[t']? = s.thr[t']? := by
  rcases step_cases h with ⟨rfl, hidle⟩ | ⟨th, n, hth, hd, hf, rfl⟩ | ⟨th, n, rest, hth, hd, hs, hf, hr, rfl⟩ |
    ⟨th, n, ops, hth, hd, hs, hp, hf, ho, rfl⟩ | ⟨th, n, ops, hth, hd, hs, hp, ho, rfl⟩
  · exact ⟨Or.inl ⟨hidle, rfl⟩, rfl, fun _ _ => rfl⟩
  · refine ⟨Or.inr ?_, by simp, fun t' ht' => by simp [List.getElem?_set_ne (Ne.symm ht')]⟩
    have hlt := lt_size_of_live I hf
    have a := tsum_set wt s.thr t th
      { th with dying := none, stack := (G.kids n).reverse ++ th.stack } hth
    have b := nsum_upd (g := fun p => if s.freed p = true then 0 else 2 * (G.kids p).length + 2)
      (g' := fun p => if upd s.freed n true p = true then 0 else 2 * (G.kids p).length + 2) n
      (by intro p hp; simp [upd, hp]) G.size hlt
    simp only [mu_eq]
    simp only [wt, hd, List.length_append, List.length_reverse] at a
    simp only [upd] at b ⊢
    simp only [hf, ↓reduceIte, Bool.false_eq_true] at a b
    omega
  · refine ⟨Or.inr ?_, by simp, fun t' ht' => by simp [List.getElem?_set_ne (Ne.symm ht')]⟩
    have a := tsum_set wt s.thr t th
      { th with stack := rest, dying := if s.rc n = 1 then some n else none } hth
    simp only [mu_eq]
    simp only [wt, hd, hs, List.length_cons] at a
    by_cases h1 : s.rc n = 1
    · simp [h1] at a ⊢; omega
    · simp [h1] at a ⊢; omega
  · refine ⟨Or.inr ?_, by simp, fun t' ht' => by simp [List.getElem?_set_ne (Ne.symm ht')]⟩
    have a := tsum_set wt s.thr t th { th with prog := ops, hs := n :: th.hs } hth
    simp only [mu_eq]
    simp only [wt, hp, List.length_cons] at a
    omega
  · refine ⟨Or.inr ?_, by simp, fun t' ht' => by simp [List.getElem?_set_ne (Ne.symm ht')]⟩
    have a := tsum_set wt s.thr t th
      { th with prog := ops, hs := th.hs.erase n, stack := [n] } hth
    simp only [mu_eq, hd]
    simp only [wt, hp, hd, hs, List.length_cons, List.length_nil] at a
    simp only [↓reduceIte] at a
    omega

/-- scheduling thread `t` at least `mu` times runs it to completion and leaves the others alone -/
theorem run_thread {G : Graph} (t : Nat) : ∀ (k : Nat) (s : State), Inv G s → mu G s ≤ k →
    ∃ s', run G s (List.replicate k t) = some s' ∧ Inv G s' ∧ mu G s' ≤ mu G s ∧ tidle s' t ∧
      s'.thr.length = s.thr.length ∧ ∀ t', t' ≠ t → s'.thr[t']? = s.thr[t']?
  | 0, s, I, hk => by
    refine ⟨s, rfl, I, Nat.le_refl _, ?_, rfl, fun _ _ => rfl⟩
    -- measure 0: the thread cannot make a real step
    obtain ⟨s1, h1⟩ := step_ok I t
    rcases (step_mu I h1).1 with ⟨hi, _⟩ | hlt
    · exact hi
    · omega
  | k + 1, s, I, hk => by
    obtain ⟨s1, h1⟩ := step_ok I t
    obtain ⟨hm, hl, ho⟩ := step_mu I h1
    rcases hm with ⟨hi, rfl⟩ | hlt
    · exact ⟨s1, run_idle hi _, I, Nat.le_refl _, hi, rfl, fun _ _ => rfl⟩
    · obtain ⟨s', r, I', m', i', l', o'⟩ := run_thread t k s1 (inv_step I h1) (by omega)
      refine ⟨s', by simp only [List.replicate_succ, run, h1, r], I', by omega, i', by omega, ?_⟩
      intro t' ht'; rw [o' t' ht', ho t' ht']

theorem run_blocks {G : Graph} (M : Nat) : ∀ (ts : List Nat) (s : State), Inv G s → mu G s ≤ M →
    ∃ s', run G s (ts.flatMap (fun t => List.replicate M t)) = some s' ∧ Inv G s' ∧
      ∀ t, (t ∈ ts ∨ tidle s t) → tidle s' t
  | [], s, I, _ => ⟨s, rfl, I, fun t h => by rcases h with h | h; cases h; exact h⟩
  | t :: ts, s, I, hM => by
    obtain ⟨s1, r1, I1, m1, i1, _, o1⟩ := run_thread (G := G) t M s I hM
    obtain ⟨s2, r2, I2, i2⟩ := run_blocks M ts s1 I1 (by omega)
    refine ⟨s2, ?_, I2, ?_⟩
    · simp only [List.flatMap_cons]
      exact run_append _ _ _ _ _ r1 r2
    · intro t' h
      apply i2 t'
      by_cases e : t' = t
      · subst e; exact Or.inr i1
      · rcases h with h | h
        · rcases List.mem_cons.mp h with h | h
          · exact absurd h e
          · exact Or.inl h
        · right
          intro th hth
          rw [o1 t' e] at hth
          exact h th hth

/-- from every state satisfying the invariant the sequential schedule runs all threads to completion -/
theorem seq_complete {G : Graph} {s : State} (I : Inv G s) :
    ∃ s', run G s (seqSched G s) = some s' ∧ s'.done := by
  obtain ⟨s', r, _, i⟩ := run_blocks (G := G) (mu G s) (List.range s.thr.length) s I (Nat.le_refl _)
  refine ⟨s', r, ?_⟩
  intro th hth
  obtain ⟨t, ht⟩ := List.getElem?_of_mem hth
  by_cases c : t < s.thr.length
  · exact i t (Or.inl (List.mem_range.mpr c)) th ht
  · refine i t (Or.inr ?_) th ht
    intro th' hth'
    rw [List.getElem?_eq_none (by omega)] at hth'; cases hth'

/-! ### refinement: every run of the program model is an accepted trace of the atomic-step acceptor -/

open Libfive.RCC in
theorem abs_get (G : Graph) (s : State) (m : Nat) :
    (abs G s)[m]? = if m < G.size then some (cellOf s m) else none := by
  unfold abs
  rw [Array.getElem?_ofFn]
  by_cases h : m < G.size <;> simp [h]

theorem deleter_none : ∀ (l : List Thread) (i n : Nat), D l n = 0 → deleterFrom l i n = none
  | [], _, _, _ => rfl
  | th :: l, i, n, h => by
    simp only [D, tsum] at h
    have h1 : dyc th.dying n = 0 := by omega
    have h2 : D l n = 0 := by simp only [D]; omega
    have : ¬ th.dying = some n := by intro e; simp [dyc, e] at h1
    simp only [deleterFrom, this, if_false]
    exact deleter_none l (i + 1) n h2

theorem deleter_some : ∀ (l : List Thread) (i t n : Nat) (th : Thread), l[t]? = some th →
    th.dying = some n → D l n ≤ 1 → deleterFrom l i n = some (i + t)
  | [], _, _, _, _, h, _, _ => by simp at h
  | a :: l, i, 0, n, th, h, hd, _ => by
    simp only [List.getElem?_cons_zero, Option.some.injEq] at h; subst h
    simp [deleterFrom, hd]
  | a :: l, i, t + 1, n, th, h, hd, hD => by
    simp only [List.getElem?_cons_succ] at h
    have h1 := tsum_get_le (fun th => dyc th.dying n) l t th h
    simp only [hd, dyc, if_true] at h1
    simp only [D, tsum] at hD
    have : ¬ a.dying = some n := by
      intro e; simp only [e, dyc, if_true] at hD; omega
    simp only [deleterFrom, this, if_false]
    rw [deleter_some l (i + 1) t n th h hd (by simp only [D]; omega)]
    congr 1; omega

/-- replacing a thread by one that is deleting `n` iff the old one was does not change the deleter -/
theorem deleter_set : ∀ (l : List Thread) (i t n : Nat) (th th' : Thread), l[t]? = some th →
    (th'.dying = some n ↔ th.dying = some n) → deleterFrom (l.set t th') i n = deleterFrom l i n
  | [], _, _, _, _, _, h, _ => by simp at h
  | a :: l, i, 0, n, th, th', h, e => by
    simp only [List.getElem?_cons_zero, Option.some.injEq] at h; subst h
    simp only [List.set_cons_zero, deleterFrom]
    by_cases c : a.dying = some n
    · simp [c, e.mpr c]
    · have : ¬ th'.dying = some n := fun x => c (e.mp x)
      simp [c, this]
  | a :: l, i, t + 1, n, th, th', h, e => by
    simp only [List.getElem?_cons_succ] at h
    simp only [List.set_cons_succ, deleterFrom]
    rw [deleter_set l (i + 1) t n th th' h e]

open Libfive.RCC in
/-- updating one cell of the abstraction -/
theorem abs_set (G : Graph) (s s' : State) (n : Nat) (c : Cell) (hn : n < G.size)
    (h1 : cellOf s' n = c) (h2 : ∀ m, m ≠ n → cellOf s' m = cellOf s m) :
    (abs G s).setIfInBounds n c = abs G s' := by
  apply Array.ext_getElem?
  intro m
  rw [get_set _ _ _ _ (by rw [abs_get]; simp [hn]), abs_get, abs_get]
  by_cases e : m = n
  · subst e; simp [hn, h1]
  · simp only [e, if_false]
    by_cases hm : m < G.size
    · simp [hm, h2 m e]
    · simp [hm]

theorem abs_same (G : Graph) (s s' : State) (h : ∀ m, cellOf s' m = cellOf s m) :
    abs G s' = abs G s := by
  unfold abs
  congr 1
  funext i
  exact h i.val

theorem cellOf_eq {s s' : State} {m : Nat} (h1 : s'.freed m = s.freed m) (h2 : s'.rc m = s.rc m)
    (h3 : deleterFrom s'.thr 0 m = deleterFrom s.thr 0 m) : cellOf s' m = cellOf s m := by
  simp only [cellOf, h1, h2, h3]

open Libfive.RCC in
/-- one micro-step of the program model is (at most) one accepted event of the acceptor -/
theorem sim_step {G : Graph} {s s' : State} {t : Nat} (I : Inv G s) (h : step G s t = some s') :
    (evOf s t = none ∧ abs G s' = abs G s) ∨
    (∃ e, evOf s t = some e ∧ cstep (abs G s) e = some (abs G s')) := by
  have I' := inv_step I h
  rcases step_cases h with ⟨rfl, hidle⟩ | ⟨th, n, hth, hd, hf, rfl⟩ | ⟨th, n, rest, hth, hd, hs, hf, hr, rfl⟩ |
    ⟨th, n, ops, hth, hd, hs, hp, hf, ho, rfl⟩ | ⟨th, n, ops, hth, hd, hs, hp, ho, rfl⟩
  · left
    refine ⟨?_, rfl⟩
    unfold evOf
    split
    · rfl
    · rename_i th hth
      obtain ⟨a, b, c⟩ := hidle th hth
      simp [a, b, c]
  · -- delete
    right
    have hlt := lt_size_of_live I hf
    have hD := (I.dy n (by have := dying_ref hth hd; omega)).1
    have hdel : deleterFrom s.thr 0 n = some t := by
      have := deleter_some s.thr 0 t n th hth hd (by omega)
      simpa using this
    refine ⟨.del t n, by simp [evOf, hth, hd], ?_⟩
    have hc : (abs G s)[n]? = some (.dying t) := by
      rw [abs_get]; simp [hlt, cellOf, hf, hdel]
    simp only [cstep, hc, if_true]
    congr 1
    apply abs_set G s _ n .freed hlt
    · simp [cellOf, upd]
    · intro m hm
      apply cellOf_eq
      · simp [upd, hm]
      · rfl
      · apply deleter_set s.thr 0 t m th _ hth
        have : ¬ n = m := fun x => hm x.symm
        simp [hd, this]
  · -- decrement
    right
    have hlt := lt_size_of_live I hf
    have hD0 : D s.thr n = 0 := by
      by_cases c : D s.thr n = 0
      · exact c
      · exact absurd (I.dy n c).2 hr
    have hdel := deleter_none s.thr 0 n hD0
    refine ⟨.sub t n (s.rc n), by simp [evOf, hth, hd, hs], ?_⟩
    have hc : (abs G s)[n]? = some (.live (s.rc n)) := by
      rw [abs_get]; simp [hlt, cellOf, hf, hdel]
    have h1 : 1 ≤ s.rc n := by omega
    simp only [cstep, hc, true_and, h1, if_true]
    congr 1
    apply abs_set G s _ n _ hlt
    · by_cases c1 : s.rc n = 1
      · have hlen : t < s.thr.length := by
          rcases Nat.lt_or_ge t s.thr.length with c | c
          · exact c
          · rw [List.getElem?_eq_none c] at hth; cases hth
        have hth' : (s.thr.set t { th with stack := rest, dying := if s.rc n = 1 then some n else none })[t]?
            = some { th with stack := rest, dying := if s.rc n = 1 then some n else none } := by
          simp [hlen]
        have hD' : D (s.thr.set t { th with stack := rest, dying := if s.rc n = 1 then some n else none }) n ≤ 1 := by
          by_cases c : D (s.thr.set t { th with stack := rest, dying := if s.rc n = 1 then some n else none }) n = 0
          · omega
          · have := (I'.dy n c).1; exact Nat.le_of_eq this
        have := deleter_some _ 0 t n _ hth' (by simp [c1]) hD'
        simp only [Nat.zero_add, c1, ↓reduceIte] at this
        simp only [c1, ↓reduceIte, cellOf, hf, this]
        simp
      · have : deleterFrom (s.thr.set t { th with stack := rest, dying := if s.rc n = 1 then some n else none }) 0 n
            = deleterFrom s.thr 0 n :=
          deleter_set s.thr 0 t n th _ hth (by simp [hd, c1])
        simp only [c1, ↓reduceIte] at this
        simp only [c1, ↓reduceIte, cellOf, hf, this, hdel, upd]
        simp
    · intro m hm
      apply cellOf_eq
      · rfl
      · simp [upd, hm]
      · apply deleter_set s.thr 0 t m th _ hth
        have : ¬ n = m := fun x => hm x.symm
        by_cases c1 : s.rc n = 1 <;> simp [hd, c1, this]
  · -- copy
    right
    have hlt := lt_size_of_live I hf
    have hr := (copy_ref I hth hp).2
    have hl := I.live n hf
    have hD0 : D s.thr n = 0 := by
      by_cases c : D s.thr n = 0
      · exact c
      · have := (I.dy n c).2; omega
    have hdel := deleter_none s.thr 0 n hD0
    refine ⟨.add t n (s.rc n), by simp [evOf, hth, hd, hs, hp], ?_⟩
    have hc : (abs G s)[n]? = some (.live (s.rc n)) := by
      rw [abs_get]; simp [hlt, cellOf, hf, hdel]
    simp only [cstep, hc, if_true]
    congr 1
    have hdel' : ∀ m, deleterFrom (s.thr.set t { th with prog := ops, hs := n :: th.hs }) 0 m
        = deleterFrom s.thr 0 m := fun m => deleter_set s.thr 0 t m th _ hth (by simp)
    apply abs_set G s _ n _ hlt
    · simp only [cellOf, hf, hdel' n, hdel, upd, if_true]
      simp
    · intro m hm
      exact cellOf_eq rfl (by simp [upd, hm]) (hdel' m)
  · -- starting a destroy: thread-local, no event
    left
    refine ⟨by simp [evOf, hth, hd, hs, hp], ?_⟩
    apply abs_same
    intro m
    exact cellOf_eq rfl rfl (deleter_set s.thr 0 t m th _ hth (by simp))

open Libfive.RCC in
theorem run_refines {G : Graph} : ∀ (tr : List Nat) (s s' : State), Inv G s → run G s tr = some s' →
    crun (abs G s) (emit G s tr) = some (abs G s')
  | [], _, _, _, h => by simp only [run, Option.some.injEq] at h; subst h; rfl
  | t :: ts, s, s', I, h => by
    obtain ⟨s1, h1, h2⟩ := run_cons h
    have ih := run_refines ts s1 s' (inv_step I h1) h2
    simp only [emit, h1]
    rcases sim_step I h1 with ⟨e0, ea⟩ | ⟨e, e0, ec⟩
    · simp only [e0, Option.toList, List.nil_append]
      rw [← ea]; exact ih
    · simp only [e0, Option.toList, List.cons_append, List.nil_append, crun, ec]
      exact ih

end Libfive.RCP
