/-
  Helper lemmas for C06Closed: "no oracle anywhere" (`hasOracle t = false`) is kept by
  `Tree::unary` / `Tree::binary`, by `Tree::flatten`, by the optimiser (through the generic induction
  `Shape.shapeAt` over a `Closed` predicate) and passes to every node of the post-order list.  With the
  shape lemmas of LibfiveProofs/OptimizeShape.lean this discharges every hypothesis that
  `DeckDeriv.deck_gradient_aux` makes about the node list.
-/
import LibfiveProofs.DeckDeriv
import LibfiveProofs.OptimizeShape

set_option linter.unusedSimpArgs false
set_option linter.unusedVariables false
set_option linter.unusedSectionVars false
set_option linter.unusedTactic false
set_option linter.unreachableTactic false

namespace Libfive.DeckDerivClosed
open Libfive Expr Libfive.Deck Libfive.DerivR Libfive.Optimize Libfive.Shape Libfive.DeckDeriv

variable {C : Type}

/-! ### `hasOracle t = false` as a structural predicate -/

/-- no oracle node anywhere (the `Prop` form of `hasOracle t = false`) -/
def noOrcDeep : Expr C → Prop
  | un _ a => noOrcDeep a
  | bin _ a b => noOrcDeep a ∧ noOrcDeep b
  | remap t x' y' z' => noOrcDeep t ∧ noOrcDeep x' ∧ noOrcDeep y' ∧ noOrcDeep z'
  | apply t _ value => noOrcDeep t ∧ noOrcDeep value
  | oracle _ => False
  | _ => True

theorem noOrcDeep_iff : ∀ t : Expr C, noOrcDeep t ↔ hasOracle t = false := by
  intro t
  induction t with
  | un op a ih => simpa [noOrcDeep, hasOracle] using ih
  | bin op a b iha ihb => simp [noOrcDeep, hasOracle, iha, ihb]
  | remap t x' y' z' iht ihx ihy ihz =>
    simp only [noOrcDeep, hasOracle, iht, ihx, ihy, ihz, Bool.or_eq_false_iff]
    constructor
    · rintro ⟨h1, h2, h3, h4⟩; exact ⟨⟨⟨h2, h3⟩, h4⟩, h1⟩
    · rintro ⟨⟨⟨h2, h3⟩, h4⟩, h1⟩; exact ⟨h1, h2, h3, h4⟩
  | apply t v w iht ihw =>
    simp only [noOrcDeep, hasOracle, iht, ihw, Bool.or_eq_false_iff]
    exact And.comm
  | oracle k => simp [noOrcDeep, hasOracle]
  | _ => simp [noOrcDeep, hasOracle]

/-- an oracle-free tree has no oracle in the body of a remap -/
theorem oracleUnremapped_of_noOrcDeep : ∀ t : Expr C, noOrcDeep t → oracleUnremapped t := by
  intro t
  induction t with
  | un op a ih => exact ih
  | bin op a b iha ihb => intro h; exact ⟨iha h.1, ihb h.2⟩
  | remap t x' y' z' iht ihx ihy ihz =>
    intro h
    exact ⟨(noOrcDeep_iff t).mp h.1, ihx h.2.1, ihy h.2.2.1, ihz h.2.2.2⟩
  | apply t v w iht ihw => intro h; exact ⟨iht h.1, ihw h.2⟩
  | _ => intros; trivial

/-! ### through `Tree::unary` / `Tree::binary` -/

theorem noOrcDeep_mkUnary (K : ConstOps C) (op : Op) (a : Expr C) (ha : noOrcDeep a) :
    noOrcDeep (mkUnary K op a) := by
  unfold mkUnary
  by_cases h : op.args = some 1
  · simp only [h, ne_eq, not_true_eq_false, if_false]
    have hd : noOrcDeep (un op a) := ha
    cases a with
    | const c => trivial
    | un o b =>
      by_cases h1 : op = Op.abs
      · subst h1
        by_cases h2 : o = Op.abs
        · subst h2; exact ha
        · by_cases h3 : o = Op.square
          · subst h3; exact ha
          · simp only [if_true]
            cases o <;> first | exact absurd rfl h2 | exact absurd rfl h3 | exact hd
      · by_cases h2 : op = Op.neg
        · subst h2
          by_cases h3 : o = Op.neg
          · subst h3; simp; exact ha
          · simp only [h1, if_false, if_true]
            cases o <;> first | exact absurd rfl h3 | exact hd
        · simp only [h1, h2, if_false]; exact hd
    | x | y | z | var _ | bin _ _ _ | remap _ _ _ _ | apply _ _ _ | oracle _ | invalid =>
      by_cases h1 : op = Op.abs
      · subst h1; exact hd
      · by_cases h2 : op = Op.neg
        · subst h2; exact hd
        · simp only [h1, h2, if_false]; exact hd
  · simp [h, noOrcDeep]

theorem noOrcDeep_of_isNegOf {a a' : Expr C} (h : isNegOf a = some a') (ha : noOrcDeep a) :
    noOrcDeep a' := by
  rw [isNegOf_some h] at ha; exact ha

theorem noOrcDeep_mkBinaryF [DecidableEq C] (K : ConstOps C) :
    ∀ (fuel : Nat) (op : Op) (a b : Expr C), noOrcDeep a → noOrcDeep b →
      noOrcDeep (mkBinaryF K fuel op a b) := by
  intro fuel
  induction fuel using Nat.strong_induction_on with
  | _ fuel ih =>
  intro op a b ha hb
  unfold mkBinaryF
  by_cases hargs : op.args = some 2
  · simp only [hargs, ne_eq, not_true_eq_false, if_false]
    have hd : noOrcDeep (bin op a b) := ⟨ha, hb⟩
    have hneg : ∀ t : Expr C, noOrcDeep t → noOrcDeep (mkUnary K Op.neg t) :=
      fun t ht => noOrcDeep_mkUnary K Op.neg t ht
    have hrec : ∀ (op' : Op) (a' b' : Expr C), noOrcDeep a' → noOrcDeep b' →
        noOrcDeep (match fuel with
          | 0 => bin op a b
          | f + 1 => mkBinaryF K f op' a' b') := by
      intro op' a' b' ha' hb'
      cases fuel with
      | zero => exact hd
      | succ f => exact ih f (by omega) op' a' b' ha' hb'
    cases hca : constOf a with
    | some ca =>
      cases hcb : constOf b with
      | some cb => trivial
      | none =>
        simp only []
        repeat' split
        all_goals first | exact hd | exact ha | exact hb | exact hneg _ hb | exact hneg _ ha | trivial
    | none =>
      cases hcb : constOf b with
      | some cb =>
        simp only []
        repeat' split
        all_goals first | exact hd | exact ha | exact hb | exact hneg _ hb | exact hneg _ ha | trivial
      | none =>
        simp only []
        by_cases h1 : op = Op.div
        · simp [h1]; exact h1 ▸ hd
        · by_cases h2 : op = Op.add
          · subst h2
            simp only [h1, if_false, if_true]
            cases a with
            | un opa a' =>
              simp only []
              by_cases hn : opa = Op.neg
              · subst hn
                simp only [if_true]
                exact hrec Op.sub b a' hb ha
              · simp only [hn, if_false]; exact hd
            | const c => simp [constOf] at hca
            | x | y | z | var _ | bin _ _ _ | remap _ _ _ _ | apply _ _ _ | oracle _ | invalid =>
              simp only []
              cases hnb : isNegOf b with
              | some b' => simp only []; exact hrec Op.sub _ b' ha (noOrcDeep_of_isNegOf hnb hb)
              | none => exact hd
          · by_cases h3 : op = Op.sub
            · subst h3
              simp only [h1, h2, if_false, if_true]
              cases hnb : isNegOf b with
              | some b' => simp only []; exact hrec Op.add a b' ha (noOrcDeep_of_isNegOf hnb hb)
              | none => exact hd
            · by_cases h4 : op = Op.mul
              · subst h4
                simp only [h1, h2, h3, if_false, if_true]
                by_cases hab : a = b
                · simp only [hab, if_true]; exact noOrcDeep_mkUnary K Op.square b hb
                · simp only [hab, if_false]; exact hd
              · by_cases h5 : op = Op.nthRoot ∨ op = Op.pow
                · simp only [h1, h2, h3, h4, h5, if_false, if_true]; exact hd
                · by_cases h6 : op = Op.min ∨ op = Op.max
                  · simp only [h1, h2, h3, h4, h5, h6, if_false, if_true]
                    by_cases hab : a = b
                    · simp [hab]; exact hb
                    · simp [hab]; exact hd
                  · simp only [h1, h2, h3, h4, h5, h6, if_false]; exact hd
  · simp [hargs, noOrcDeep]

theorem noOrcDeep_mkBinary [DecidableEq C] (K : ConstOps C) (op : Op) (a b : Expr C)
    (ha : noOrcDeep a) (hb : noOrcDeep b) : noOrcDeep (mkBinary K op a b) :=
  noOrcDeep_mkBinaryF K _ op a b ha hb

/-! ### through the optimiser (generic induction `Shape.shapeAt`) -/

/-- `wellArity` and no oracle anywhere -/
def GoodO (t : Expr C) : Prop := wellArity t ∧ noOrcDeep t

theorem closed_goodO [DecidableEq C] (K : ConstOps C) : Closed K (GoodO (C := C)) where
  const _ := ⟨trivial, trivial⟩
  unInv _ _ h := ⟨h.1.1, h.1.2, h.2⟩
  binInv _ _ _ h := ⟨h.1.1, ⟨h.1.2.1, h.2.1⟩, ⟨h.1.2.2, h.2.2⟩⟩
  mkU op a _ ha := ⟨wellArity_mkUnary K op a ha.1, noOrcDeep_mkUnary K op a ha.2⟩
  mkB op a b _ ha hb :=
    ⟨wellArity_mkBinary K op a b ha.1 hb.1, noOrcDeep_mkBinary K op a b ha.2 hb.2⟩

theorem noOrcDeep_optimize [DecidableEq C] (K : ConstOps C) (le : Expr C → Expr C → Bool)
    (t : Expr C) (hw : wellArity t) (hp : noOrcDeep t) : noOrcDeep (optimize K le t) :=
  ((shapeAt (closed_goodO K) le _).opt t ⟨hw, hp⟩).2

/-- **the optimiser introduces no oracle** (on `wellArity` trees; any fuel, any sorting order) -/
theorem hasOracle_optimize [DecidableEq C] (K : ConstOps C) (le : Expr C → Expr C → Bool)
    (t : Expr C) (hw : wellArity t) (ho : hasOracle t = false) :
    hasOracle (optimize K le t) = false :=
  (noOrcDeep_iff _).mp (noOrcDeep_optimize K le t hw ((noOrcDeep_iff t).mpr ho))

/-! ### through flatten -/

/-- every image of the substitution is oracle-free -/
def SubstNO (s : Subst C) : Prop :=
  noOrcDeep s.sx ∧ noOrcDeep s.sy ∧ noOrcDeep s.sz ∧ ∀ v t, s.sv v = some t → noOrcDeep t

theorem noOrcDeep_flattenS [DecidableEq C] (K : ConstOps C) :
    ∀ (t : Expr C) (s : Subst C), noOrcDeep t → SubstNO s → noOrcDeep (flattenS K t s) := by
  intro t
  induction t with
  | const c => intros; trivial
  | x => intro s _ hs; exact hs.1
  | y => intro s _ hs; exact hs.2.1
  | z => intro s _ hs; exact hs.2.2.1
  | var v =>
    intro s _ hs
    simp only [flattenS]
    cases h : s.sv v with
    | none => trivial
    | some t => exact hs.2.2.2 v t h
  | un op a ih =>
    intro s ho hs
    simp only [flattenS]
    have hpa : noOrcDeep (flattenS K a s) := ih s ho hs
    by_cases h : flattenS K a s = a
    · simp only [h, if_true]; rw [h] at hpa; exact hpa
    · simp only [h, if_false]; exact noOrcDeep_mkUnary K op _ hpa
  | bin op a b iha ihb =>
    intro s ho hs
    simp only [flattenS]
    have hpa : noOrcDeep (flattenS K a s) := iha s ho.1 hs
    have hpb : noOrcDeep (flattenS K b s) := ihb s ho.2 hs
    by_cases h : flattenS K a s = a ∧ flattenS K b s = b
    · simp only [h, and_self, if_true]; rw [h.1] at hpa; rw [h.2] at hpb; exact ⟨hpa, hpb⟩
    · simp only [h, if_false]; exact noOrcDeep_mkBinary K op _ _ hpa hpb
  | remap t x' y' z' iht ihx ihy ihz =>
    intro s ho hs
    simp only [flattenS]
    exact iht _ ho.1 ⟨ihx s ho.2.1 hs, ihy s ho.2.2.1 hs, ihz s ho.2.2.2 hs, hs.2.2.2⟩
  | apply t v value iht ihv =>
    intro s ho hs
    simp only [flattenS]
    have hval : noOrcDeep (flattenS K value s) := ihv s ho.2 hs
    apply iht _ ho.1
    refine ⟨hs.1, hs.2.1, hs.2.2.1, ?_⟩
    intro w u hu
    by_cases hwv : w = v
    · simp [hwv] at hu; subst hu; exact hval
    · simp [hwv] at hu; exact hs.2.2.2 w u hu
  | oracle k => intro s ho; exact absurd ho (by simp [noOrcDeep])
  | invalid => intros; trivial

theorem noOrcDeep_flatten [DecidableEq C] (K : ConstOps C) (t : Expr C) (ho : noOrcDeep t) :
    noOrcDeep (flatten K t) := by
  unfold flatten
  by_cases h : hasRemap t = true
  · simp only [h, if_true]
    exact noOrcDeep_flattenS K t _ ho
      ⟨trivial, trivial, trivial, by intro v u h; simp [Subst.id] at h⟩
  · simp only [h, if_false, Bool.false_eq_true]
    exact ho

/-- **flatten introduces no oracle** (no arity hypothesis: a rejected opcode yields `invalid`) -/
theorem hasOracle_flatten [DecidableEq C] (K : ConstOps C) (t : Expr C)
    (ho : hasOracle t = false) : hasOracle (flatten K t) = false :=
  (noOrcDeep_iff _).mp (noOrcDeep_flatten K t ((noOrcDeep_iff t).mpr ho))

/-! ### along the post-order traversal -/

theorem isOracle_of_noOrcDeep {m : Expr C} (h : noOrcDeep m) : isOracle m = false := by
  cases m with
  | oracle k => exact absurd h (by simp [noOrcDeep])
  | _ => rfl

theorem postorderAux_noOrcDeep [DecidableEq C] : ∀ (e : Expr C) (acc : List (Expr C)), noOrcDeep e →
    (∀ m ∈ acc, noOrcDeep m) → ∀ m ∈ postorderAux e acc, noOrcDeep m := by
  intro e
  have snoc : ∀ (l : List (Expr C)) (u : Expr C), (∀ m ∈ l, noOrcDeep m) → noOrcDeep u →
      ∀ m ∈ l ++ [u], noOrcDeep m := by
    intro l u hl hu m hm
    simp only [List.mem_append, List.mem_singleton] at hm
    rcases hm with h | rfl
    · exact hl m h
    · exact hu
  induction e with
  | un op a iha =>
    intro acc hw hacc
    simp only [postorderAux]
    split
    · exact hacc
    · split
      · exact iha acc hw hacc
      · exact snoc _ _ (iha acc hw hacc) hw
  | bin op a b iha ihb =>
    intro acc hw hacc
    simp only [postorderAux]
    split
    · exact hacc
    · have h2 := ihb _ hw.2 (iha acc hw.1 hacc)
      split
      · exact h2
      · exact snoc _ _ h2 hw
  | _ =>
    intro acc hw hacc
    simp only [postorderAux]
    split
    · exact hacc
    · exact snoc _ _ hacc hw

/-- **no oracle node in the post-order list of an oracle-free tree** -/
theorem postorder_noOracle [DecidableEq C] (e : Expr C) (ho : hasOracle e = false) :
    ∀ m ∈ postorder e, isOracle m = false :=
  fun m hm => isOracle_of_noOrcDeep
    (postorderAux_noOrcDeep e [] ((noOrcDeep_iff e).mpr ho) (by intro m hm; simp at hm) m hm)

/-! ### everything `deck_gradient_aux` asks of the node list -/

/-- for a `wellArity`, `invalid`-free, oracle-free tree `t`, the post-order list of
    `optimize (flatten t)` meets `walk()`'s specification, carries opcodes of the right arity, has no
    oracle node and contains the root -/
theorem gradient_spec_closed [DecidableEq C] (K : ConstOps C) (le : Expr C → Expr C → Bool)
    (t : Expr C) (hw : wellArity t) (hn : noInvalid t) (ho : hasOracle t = false) :
    TopoFlat (postorder (optimize K le (flatten K t))) ∧
    (∀ m ∈ postorder (optimize K le (flatten K t)), nodeArity m) ∧
    (∀ m ∈ postorder (optimize K le (flatten K t)), isOracle m = false) ∧
    optimize K le (flatten K t) ∈ postorder (optimize K le (flatten K t)) := by
  have hwf := wellArity_flatten K t hw
  have hwo : wellArity (optimize K le (flatten K t)) := wellArity_optimize K le _ hwf
  have hou : oracleUnremapped t := oracleUnremapped_of_noOrcDeep t ((noOrcDeep_iff t).mpr ho)
  have hpo : plainDeep (optimize K le (flatten K t)) :=
    plainDeep_optimize K le _ hwf (plainDeep_flatten K t hw hn hou)
  have hoo : hasOracle (optimize K le (flatten K t)) = false :=
    hasOracle_optimize K le _ hwf (hasOracle_flatten K t ho)
  have hs := postorder_spec _ hpo
  exact ⟨hs.1, postorder_nodeArity _ hwo, postorder_noOracle _ hoo, hs.2⟩

/-! ### the chain rule along a deck with `invalid` admitted as a leaf
    `DeckDeriv.deck_gradient_aux` is stated for `TopoFlat` lists, which exclude `invalid` nodes.  The
    deck model gives an `invalid` node a slot and no clause; the slot holds `(IR cst).bad = 0`, a
    constant along every curve, which is what `invalid` denotes.  So the chain rule holds verbatim for
    `Shape.TopoFlatI` lists (only remap / apply nodes excluded); the lemmas below are the
    `TopoFlatI` twins of `Deck.tapeK_wf`, `DeckDeriv.clause_cases`, …, `DeckDeriv.deck_gradient_aux`
    (each uses only the "operands before users" part of the specification). -/

section deckI
variable [DecidableEq C]

theorem clauseAt_operandsI (flat : List (Expr C)) (k : Nat) (hk : k < flat.length)
    (hT : TopoFlatI flat) (c : Clause) (h : clauseAt flat k (flat.getD k invalid) = some c)
    (hno : c.op ≠ Op.oracle) :
    (c.a = 0 ∨ flat.length - k < c.a) ∧ (c.b = 0 ∨ flat.length - k < c.b) := by
  obtain ⟨_, _, htopo⟩ := hT
  cases hm : flat.getD k invalid <;> rw [hm] at h <;> simp [clauseAt] at h
  · rename_i op a
    have := htopo k hk a (by rw [hm]; simp [children])
    rw [← h]; simp only [idOf]; exact ⟨Or.inr (by omega), by simp⟩
  · rename_i op a b
    have h1 := htopo k hk a (by rw [hm]; simp [children])
    have h2 := htopo k hk b (by rw [hm]; simp [children])
    rw [← h]; simp only [idOf]; exact ⟨Or.inr (by omega), Or.inr (by omega)⟩
  · rw [← h] at hno; exact absurd rfl hno

theorem tapeK_shapeI (flat : List (Expr C)) (hT : TopoFlatI flat) : ∀ k, k ≤ flat.length →
    ∀ d ∈ tapeK flat k, (flat.length - k < d.id ∧ d.id ≤ flat.length) ∧
      (d.op ≠ Op.oracle → (d.a = 0 ∨ d.id < d.a) ∧ (d.b = 0 ∨ d.id < d.b)) := by
  intro k
  induction k with
  | zero => intro _ d hd; simp [tapeK] at hd
  | succ k ih =>
    intro hk d hd
    have hkn : k < flat.length := hk
    simp only [tapeK] at hd
    split at hd
    · rename_i c hc
      simp only [List.mem_cons] at hd
      rcases hd with rfl | hd
      · have hid := clauseAt_id flat k _ _ hc
        refine ⟨by omega, ?_⟩
        intro hno
        have := clauseAt_operandsI flat k hkn hT _ hc hno
        rw [hid]; exact this
      · obtain ⟨⟨h1, h2⟩, h3⟩ := ih (Nat.le_of_lt hkn) d hd
        exact ⟨⟨by omega, h2⟩, h3⟩
    · obtain ⟨⟨h1, h2⟩, h3⟩ := ih (Nat.le_of_lt hkn) d hd
      exact ⟨⟨by omega, h2⟩, h3⟩

theorem tapeK_wfI (flat : List (Expr C)) (hT : TopoFlatI flat) :
    ∀ k, k ≤ flat.length → WF (tapeK flat k) := by
  intro k
  induction k with
  | zero => intro _; simp [tapeK, WF]
  | succ k ih =>
    intro hk
    have hkn : k < flat.length := hk
    have ihk := ih (Nat.le_of_lt hkn)
    simp only [tapeK]
    split
    · rename_i c hc
      have hid := clauseAt_id flat k _ _ hc
      refine ⟨by omega, ?_, ?_, ?_, ihk⟩
      · rw [hid]; exact not_mem_ids_tapeK flat k k (Nat.le_of_lt hkn) (Nat.le_refl _) hkn
      · intro hno
        obtain ⟨ha, hb⟩ := clauseAt_operandsI flat k hkn hT _ hc hno
        rw [hid]; constructor <;> omega
      · intro d hd hno
        obtain ⟨⟨h1, _⟩, h3⟩ := tapeK_shapeI flat hT k (Nat.le_of_lt hkn) d hd
        obtain ⟨ha, hb⟩ := h3 hno
        rw [hid]; constructor <;> omega
    · exact ihk

/-- the emitted tape is well-formed also when `invalid` nodes sit in the list -/
theorem build_wfI (flat : List (Expr C)) (root : Expr C) (hT : TopoFlatI flat) :
    WF (build flat root).t :=
  tapeK_wfI flat hT flat.length (Nat.le_refl _)

theorem clause_casesI (flat : List (Expr C)) (root : Expr C) (hT : TopoFlatI flat)
    (hA : ∀ m ∈ flat, nodeArity m) (hno : ∀ m ∈ flat, isOracle m = false)
    (c : Clause) (hc : c ∈ (build flat root).t) :
    (∃ op a, un op a ∈ flat ∧ a ∈ flat ∧ op.args = some 1 ∧
        c.op = op ∧ c.a = idOf flat a ∧ c.b = 0) ∨
    (∃ op a b, bin op a b ∈ flat ∧ a ∈ flat ∧ b ∈ flat ∧ op.args = some 2 ∧
        c.op = op ∧ c.a = idOf flat a ∧ c.b = idOf flat b) := by
  obtain ⟨i, hi, hci⟩ := mem_tapeK flat flat.length c hc
  have hmem := getD_mem flat i hi
  obtain ⟨_, _, htopo⟩ := hT
  have hin : ∀ a ∈ children (flat.getD i invalid), a ∈ flat := fun a ha =>
    List.idxOf_lt_length_iff.mp (Nat.lt_trans (htopo i hi a ha) hi)
  cases hm : flat.getD i invalid with
  | un op a =>
    rw [hm] at hci hmem hin
    simp only [clauseAt, Option.some.injEq] at hci
    have har : op.args = some 1 := hA _ hmem
    left
    refine ⟨op, a, hmem, hin a (by simp [children]), har, ?_, ?_, ?_⟩ <;> rw [← hci]
  | bin op a b =>
    rw [hm] at hci hmem hin
    simp only [clauseAt, Option.some.injEq] at hci
    have har : op.args = some 2 := hA _ hmem
    right
    refine ⟨op, a, b, hmem, hin a (by simp [children]), hin b (by simp [children]), har, ?_, ?_, ?_⟩ <;>
      rw [← hci]
  | oracle k =>
    rw [hm] at hmem
    have := hno _ hmem
    simp [isOracle] at this
  | const c0 => rw [hm] at hci; simp [clauseAt] at hci
  | x => rw [hm] at hci; simp [clauseAt] at hci
  | y => rw [hm] at hci; simp [clauseAt] at hci
  | z => rw [hm] at hci; simp [clauseAt] at hci
  | var v => rw [hm] at hci; simp [clauseAt] at hci
  | remap t a b c' => rw [hm] at hci; simp [clauseAt] at hci
  | apply t v w => rw [hm] at hci; simp [clauseAt] at hci
  | invalid => rw [hm] at hci; simp [clauseAt] at hci

theorem build_no_oracleI (flat : List (Expr C)) (root : Expr C) (hT : TopoFlatI flat)
    (hA : ∀ m ∈ flat, nodeArity m) (hno : ∀ m ∈ flat, isOracle m = false) :
    ∀ c ∈ (build flat root).t, c.op ≠ Op.oracle := by
  intro c hc
  rcases clause_casesI flat root hT hA hno c hc with
    ⟨op, a, _, _, har, ho, _, _⟩ | ⟨op, a, b, _, _, _, har, ho, _, _⟩
  · rw [ho]; exact args_ne_oracle har
  · rw [ho]; exact args_ne_oracle har

theorem build_evalGI (cst : C → ℝ) (e : Env ℝ) (flat : List (Expr C)) (root : Expr C)
    (hT : TopoFlatI flat) (hA : ∀ m ∈ flat, nodeArity m) (hno : ∀ m ∈ flat, isOracle m = false)
    (m : Expr C) (hm : m ∈ flat) :
    evalListG (fun c => evR c.op) (build flat root).t (slots0 (IR cst) e flat) (idOf flat m)
      = denote (IR cst) m e := by
  rw [evalListG_eq_evalList evR (orcTable (IR cst) e flat) _ (build_no_oracleI flat root hT hA hno)]
  have := build_evalI (IR cst) e flat root hT hA m hm
  rw [evTape_IR] at this
  exact this

theorem build_evalG_zeroI (cst : C → ℝ) (e : Env ℝ) (flat : List (Expr C)) (root : Expr C)
    (hT : TopoFlatI flat) (hA : ∀ m ∈ flat, nodeArity m) (hno : ∀ m ∈ flat, isOracle m = false) :
    evalListG (fun c => evR c.op) (build flat root).t (slots0 (IR cst) e flat) 0 = 0 := by
  rw [evalListG_eq_evalList evR (fun _ => 0) _ (build_no_oracleI flat root hT hA hno)]
  rw [evalList_notin _ _ _ _ _ (zero_notin_ids_build flat root)]
  simp [slots0, List.getD, leafVal, IR]

/-- **The chain rule along a deck, `invalid` leaves admitted** (`TopoFlatI` twin of
    `DeckDeriv.deck_gradient_aux`). -/
theorem deck_gradient_auxI (D : Op → (ℝ → ℝ) → (ℝ → ℝ) → ℝ → Prop) (cv : Bool)
    (hK : ∀ (op : Op) (a b : ℝ → ℝ) (a' b' t : ℝ), HasDerivAt a a' t → HasDerivAt b b' t →
      D op a b t → (op = Op.constVar → cv = false) →
      HasDerivAt (fun s => evR op (a s) (b s))
        (dk RO cv op (a t) (b t) (evR op (a t) (b t)) a' b') t)
    (cst : C → ℝ) (flat : List (Expr C)) (root : Expr C)
    (hT : TopoFlatI flat) (hA : ∀ m ∈ flat, nodeArity m) (hno : ∀ m ∈ flat, isOracle m = false)
    (hcv : ∀ a, un Op.constVar a ∈ flat → cv = false)
    (γ : ℝ → Env ℝ) (denv : Nat → ℝ) (s0 : ℝ) (orc : Nat → ℝ)
    (hleaf : ∀ k, k ≤ flat.length →
      HasDerivAt (fun s => slots0 (IR cst) (γ s) flat k) (denv k) s0)
    (hdom : ∀ m ∈ flat, nodeDom D cst γ s0 m)
    (m : Expr C) (hm : m ∈ flat) :
    HasDerivAt (fun s => denote (IR cst) m (γ s))
      (derivRow RO cv
        (evalList evR orc (build flat root).t (slots0 (IR cst) (γ s0) flat))
        (build flat root).t denv (idOf flat m)) s0 := by
  have hnoc := build_no_oracleI flat root hT hA hno
  have hEv : ∀ v, evalList evR orc (build flat root).t v =
      evalListG (fun c => evR c.op) (build flat root).t v :=
    fun v => (evalListG_eq_evalList evR orc _ hnoc v).symm
  have hval : ∀ m' ∈ flat, (fun s => evalListG (fun c => evR c.op) (build flat root).t
      (slots0 (IR cst) (γ s) flat) (idOf flat m')) = fun s => denote (IR cst) m' (γ s) := by
    intro m' hm'
    funext s
    exact build_evalGI cst (γ s) flat root hT hA hno m' hm'
  have hzero : (fun s => evalListG (fun c => evR c.op) (build flat root).t
      (slots0 (IR cst) (γ s) flat) 0) = fun _ => (0 : ℝ) := by
    funext s
    exact build_evalG_zeroI cst (γ s) flat root hT hA hno
  have key := tape_gradient_aux (fun c => evR c.op) cv (fun s => slots0 (IR cst) (γ s) flat)
    denv s0
    (evalList evR orc (build flat root).t (slots0 (IR cst) (γ s0) flat)) (build flat root).t
    (fun k => flat.length < k) (build_wfI flat root hT) hnoc
    (fun k _ hk => hleaf k (Nat.le_of_not_lt hk))
    (by
      intro c hc
      rcases clause_casesI flat root hT hA hno c hc with
        ⟨op, a, _, _, _, _, ha, hb⟩ | ⟨op, a, b, _, _, _, _, _, ha, hb⟩
      · rw [ha, hb]; exact ⟨Nat.not_lt.mpr (idOf_le flat a), by omega⟩
      · rw [ha, hb]; exact ⟨Nat.not_lt.mpr (idOf_le flat a), Nat.not_lt.mpr (idOf_le flat b)⟩)
    (by intro c hc; rw [hEv]; exact ⟨rfl, rfl, rfl⟩)
    (by
      intro c hc A' B' hA' hB'
      rcases clause_casesI flat root hT hA hno c hc with
        ⟨op, a, hmem, hain, har, hop, ha, hb⟩ | ⟨op, a, b, hmem, hain, hbin, har, hop, ha, hb⟩
      · refine hK c.op _ _ A' B' s0 hA' hB' ?_ ?_
        · have hd := hdom _ hmem
          simp only [nodeDom] at hd
          rw [ha, hb, hop, hval a hain, hzero]
          exact hd
        · intro hcop
          rw [hop] at hcop
          subst hcop
          exact hcv a hmem
      · refine hK c.op _ _ A' B' s0 hA' hB' ?_ ?_
        · have hd := hdom _ hmem
          simp only [nodeDom] at hd
          rw [ha, hb, hop, hval a hain, hval b hbin]
          exact hd
        · intro hcop
          rw [hop] at hcop
          rw [hcop] at har
          simp [Op.args] at har)
    (idOf flat m) (Nat.not_lt.mpr (idOf_le flat m))
  simpa only [hval m hm] using key

/-- for a `wellArity`, oracle-free tree `t` (`invalid` sub-terms allowed), the post-order list of
    `optimize (flatten t)` meets `walk()`'s specification with `invalid` admitted as a leaf, carries
    opcodes of the right arity, has no oracle node and contains the root -/
theorem gradient_spec_closedI (K : ConstOps C) (le : Expr C → Expr C → Bool)
    (t : Expr C) (hw : wellArity t) (ho : hasOracle t = false) :
    TopoFlatI (postorder (optimize K le (flatten K t))) ∧
    (∀ m ∈ postorder (optimize K le (flatten K t)), nodeArity m) ∧
    (∀ m ∈ postorder (optimize K le (flatten K t)), isOracle m = false) ∧
    optimize K le (flatten K t) ∈ postorder (optimize K le (flatten K t)) := by
  have hwf := wellArity_flatten K t hw
  have hwo : wellArity (optimize K le (flatten K t)) := wellArity_optimize K le _ hwf
  have hou : oracleUnremapped t := oracleUnremapped_of_noOrcDeep t ((noOrcDeep_iff t).mpr ho)
  have hpo : noRemapDeep (optimize K le (flatten K t)) :=
    noRemapDeep_optimize K le _ hwf (noRemapDeep_flatten K t hou)
  have hoo : hasOracle (optimize K le (flatten K t)) = false :=
    hasOracle_optimize K le _ hwf (hasOracle_flatten K t ho)
  have hs := postorder_specI _ hpo
  exact ⟨hs.1, postorder_nodeArity _ hwo, postorder_noOracle _ hoo, hs.2⟩

end deckI

/-! ### worked example: the post-order list of `sqrt(x*x + y*y) - 1` is the list `Ex.exFlat` -/

theorem postorder_exT : postorder Ex.exT = Ex.exFlat := by
  simp [postorder, postorderAux, Ex.exT, Ex.exFlat]

theorem exT_noInvalid : noInvalid Ex.exT := by simp [Ex.exT, noInvalid]

theorem exT_noOracle : hasOracle Ex.exT = false := by simp [Ex.exT, hasOracle]

theorem postorder_exV : postorder Ex.exV = Ex.exVFlat := by
  simp [postorder, postorderAux, Ex.exV, Ex.exVFlat]

end Libfive.DeckDerivClosed
