/-
  Helper lemmas for the edge-manifold clause of C03 (`marching_manifold`): under (H), four distinct
  vertices per tet and pairwise different tet vertex sets, every directed side occurs at most once.
  Route: closedness (count e = count (rev e), already proved) + a counting bound (the face carrying
  a side is determined by the side; (H) gives that face exactly two incidences).
-/
import LibfiveProofs.Marching

namespace Libfive.Marching

/-! ### `canon`: the key is invariant under permutations, and so is uniformity -/

theorem canon_key_swap (a b c : Nat) : (canon (b, a, c)).1 = (canon (a, b, c)).1 := by
  simp only [canon]
  split_ifs <;> grind

theorem canon_key_rot (a b c : Nat) : (canon (b, c, a)).1 = (canon (a, b, c)).1 := by
  simp only [canon]
  split_ifs <;> grind

theorem canon_uniform (s : Vid → Bool) (f : Face) : faceUniform s (canon f).1 = faceUniform s f := by
  obtain ⟨a, b, c⟩ := f
  simp only [canon, faceUniform]
  split_ifs <;> (cases s a <;> cases s b <;> cases s c <;> rfl)

/-! ### the face key determined by a side -/

/-- the three tet vertices a side on a face touches: the two ends of its first tet edge and the
    end of the second tet edge that is not on the first -/
def edgeTriple (e : Edge (SV Vid)) : Face :=
  (e.1.1, e.1.2, if e.2.1 = e.1.1 ∨ e.2.1 = e.1.2 then e.2.2 else e.2.1)

def edgeKey (e : Edge (SV Vid)) : Face := (canon (edgeTriple e)).1

def idsNodup (e : Edge (SV Vid)) : Prop := [e.1.1, e.1.2, e.2.1, e.2.2].Nodup

theorem seg_ids_not_nodup (sa sb sc : Bool) (a b c : Vid) (x : Edge (SV Vid))
    (hx : x ∈ seg sa sb sc a b c) : ¬ idsNodup x := by
  cases sa <;> cases sb <;> cases sc <;> simp [seg] at hx <;> subst hx <;> simp [idsNodup]

theorem mem_seg_spec (sa sb sc : Bool) (a b c : Vid) (hab : a ≠ b) (hac : a ≠ c) (hbc : b ≠ c)
    (x : Edge (SV Vid)) (hx : x ∈ seg sa sb sc a b c) :
    edgeKey x = (canon (a, b, c)).1 ∧ edgeKey (rev x) = (canon (a, b, c)).1 ∧ x ≠ rev x := by
  have k_acb : (canon (a, c, b)).1 = (canon (a, b, c)).1 := by
    rw [canon_key_swap c a b, ← canon_key_rot a b c, canon_key_rot b c a]
  have k_bac := canon_key_swap a b c
  have k_bca := canon_key_rot a b c
  have k_cab : (canon (c, a, b)).1 = (canon (a, b, c)).1 := by
    rw [canon_key_rot b c a, canon_key_rot a b c]
  have k_cba : (canon (c, b, a)).1 = (canon (a, b, c)).1 := by
    rw [canon_key_swap b c a, canon_key_rot a b c]
  have hba := hab.symm
  have hca := hac.symm
  have hcb := hbc.symm
  cases sa <;> cases sb <;> cases sc <;> simp [seg] at hx <;> subst hx <;>
    simp [edgeKey, edgeTriple, rev, hab, hac, hbc, hba, hca, hcb, k_acb, k_bac, k_bca, k_cab, k_cba]

/-! ### counting helpers -/

theorem count_flatMap_sum {γ δ : Type} [BEq δ] [LawfulBEq δ] (x : δ) (f : γ → List δ) (l : List γ) :
    (l.flatMap f).count x = (l.map fun y => (f y).count x).sum := by
  induction l with
  | nil => simp
  | cons y l ih => simp [List.flatMap_cons, List.count_append, ih]

theorem natsum_flatMap {γ δ : Type} (f : γ → List δ) (g : δ → Nat) (l : List γ) :
    ((l.flatMap f).map g).sum = (l.map fun x => ((f x).map g).sum).sum := by
  induction l with
  | nil => simp
  | cons y l ih => simp [List.flatMap_cons, ih]

theorem natsum_add {γ : Type} (g h : γ → Nat) (l : List γ) :
    (l.map fun x => g x + h x).sum = (l.map g).sum + (l.map h).sum := by
  induction l with
  | nil => simp
  | cons y l ih => simp [ih]; omega

theorem natsum_zero {γ : Type} (g : γ → Nat) (l : List γ) (h : ∀ x ∈ l, g x = 0) : (l.map g).sum = 0 := by
  induction l with
  | nil => simp
  | cons y l ih =>
    simp only [List.map_cons, List.sum_cons]
    rw [h y (by simp), ih (fun x hx => h x (by simp [hx]))]

theorem natsum_le_filter {γ : Type} (u : γ → Nat) (p : γ → Bool) (l : List γ)
    (h1 : ∀ x ∈ l, u x ≤ 1) (h2 : ∀ x ∈ l, 0 < u x → p x = true) :
    (l.map u).sum ≤ (l.filter p).length := by
  induction l with
  | nil => simp
  | cons y l ih =>
    have ih' := ih (fun x hx => h1 x (by simp [hx])) (fun x hx => h2 x (by simp [hx]))
    have hy1 := h1 y (by simp)
    have hy2 := h2 y (by simp)
    by_cases hp : p y = true
    · simp only [List.map_cons, List.sum_cons, List.filter_cons, hp, if_true, List.length_cons]; omega
    · have : u y = 0 := by
        rcases Nat.eq_zero_or_pos (u y) with h | h
        · exact h
        · exact absurd (hy2 h) hp
      simp only [List.map_cons, List.sum_cons, List.filter_cons, hp, Bool.false_eq_true, if_false, this]; omega

theorem natsum_le_one_of_pairwise {γ : Type} (R : γ → γ → Prop) (g : γ → Nat) :
    ∀ l : List γ, l.Pairwise R → (∀ x ∈ l, g x ≤ 1) →
      (∀ x ∈ l, ∀ y ∈ l, 0 < g x → 0 < g y → ¬ R x y) → (l.map g).sum ≤ 1 := by
  intro l
  induction l with
  | nil => intro _ _ _; simp
  | cons y l ih =>
    intro hp h1 h2
    rw [List.pairwise_cons] at hp
    have ih' := ih hp.2 (fun x hx => h1 x (by simp [hx]))
      (fun x hx z hz => h2 x (by simp [hx]) z (by simp [hz]))
    simp only [List.map_cons, List.sum_cons]
    rcases Nat.eq_zero_or_pos (g y) with h | h
    · omega
    · have : (l.map g).sum = 0 := by
        apply natsum_zero
        intro x hx
        rcases Nat.eq_zero_or_pos (g x) with h0 | h0
        · exact h0
        · exact absurd (hp.1 x hx) (h2 y (by simp) x (by simp [hx]) h h0)
      have := h1 y (by simp)
      omega

theorem filter_key_length (F : List Face) (K : Face) :
    (F.filter fun f => decide ((canon f).1 = K)).length = oriCount F K true + oriCount F K false := by
  induction F with
  | nil => simp [oriCount]
  | cons x F ih =>
    simp only [oriCount] at ih ⊢
    by_cases hk : (canon x).1 = K
    · by_cases hp : (canon x).2 = true
      · simp [List.filter_cons, hk, hp, ih]; omega
      · simp only [Bool.not_eq_true] at hp
        simp [List.filter_cons, hk, hp, ih]; omega
    · simp [List.filter_cons, hk, ih]

/-! ### decomposition of one tet's sides into face segments and interior sides -/

/-- the interior sides of a tet (in cancelling pairs), with global vertex ids -/
def interiorPart (s : Vid → Bool) (t : Tet) : List (Edge (SV Vid)) :=
  ((internalHalf (t.mask s)).flatMap fun e => [e, rev e]).map (mapEdge (mapSV t.vtx))

theorem marchTet_perm (s : Vid → Bool) (t : Tet) :
    (dirEdges (marchTet s t)).Perm (t.faces.flatMap (faceSeg s) ++ interiorPart s t) := by
  unfold marchTet marchTetM
  rw [dirEdges_map]
  have h := (tet_table_boundary (s t.v0) (s t.v1) (s t.v2) (s t.v3)).map (mapEdge (mapSV t.vtx))
  rw [List.map_append] at h
  have e1 : (segs4 (s t.v0) (s t.v1) (s t.v2) (s t.v3)).map (mapEdge (mapSV t.vtx))
      = t.faces.flatMap (faceSeg s) := by
    simp [segs4, List.map_append, seg_map, Tet.faces, faceSeg, Tet.vtx, List.flatMap_cons]
  rw [e1] at h
  exact h

/-- (T) the interior sides of every table row touch all four tet vertices -/
theorem tet_table_interior_ids : ∀ m, m < 16 →
    ∀ x ∈ (internalHalf m).flatMap (fun e => [e, rev e]), [x.1.1, x.1.2, x.2.1, x.2.2].Perm [0, 1, 2, 3] := by
  decide

theorem interior_ids (s : Vid → Bool) (t : Tet) (x : Edge (SV Vid)) (hx : x ∈ interiorPart s t) :
    [x.1.1, x.1.2, x.2.1, x.2.2].Perm t.verts := by
  simp only [interiorPart, List.mem_map] at hx
  obtain ⟨y, hy, rfl⟩ := hx
  have := (tet_table_interior_ids (t.mask s) (maskOf_lt _ _ _ _) y hy).map t.vtx
  simpa [mapEdge, mapSV, Tet.verts, Tet.vtx] using this

theorem verts_nodup (t : Tet) (h : t.distinct) : t.verts.Nodup := by
  obtain ⟨h1, h2, h3, h4, h5, h6⟩ := h
  simp [Tet.verts, h1, h2, h3, h4, h5, h6]

theorem faces_distinct (t : Tet) (h : t.distinct) (f : Face) (hf : f ∈ t.faces) :
    f.1 ≠ f.2.1 ∧ f.1 ≠ f.2.2 ∧ f.2.1 ≠ f.2.2 := by
  obtain ⟨h1, h2, h3, h4, h5, h6⟩ := h
  simp only [Tet.faces, List.mem_cons, List.mem_nil_iff, or_false] at hf
  rcases hf with rfl | rfl | rfl | rfl <;>
    simp [h1, h2, h3, h4, h5, h6, Ne.symm h1, Ne.symm h2, Ne.symm h3, Ne.symm h4, Ne.symm h5, Ne.symm h6]

theorem idsNodup_rev (e : Edge (SV Vid)) : idsNodup (rev e) ↔ idsNodup e := by
  unfold idsNodup rev
  exact (List.perm_append_comm (l₁ := [e.2.1, e.2.2]) (l₂ := [e.1.1, e.1.2])).nodup_iff

/-! ### the main count -/

section main
variable (s : Vid → Bool) (ts : List Tet)

/-- total count of a side = count on faces + count among interior sides -/
theorem total_count (x : Edge (SV Vid)) :
    (dirEdges (marchTets s ts)).count x
      = ((allFaces ts).map fun f => (faceSeg s f).count x).sum + (ts.map fun t => (interiorPart s t).count x).sum := by
  unfold marchTets allFaces
  rw [dirEdges_flatMap, count_flatMap_sum, natsum_flatMap, ← natsum_add]
  apply congrArg
  apply List.map_congr_left
  intro t _
  rw [(marchTet_perm s t).count_eq, List.count_append, count_flatMap_sum]

theorem interior_count_zero (hd : ∀ t ∈ ts, t.distinct) (x : Edge (SV Vid)) (hx : ¬ idsNodup x) :
    (ts.map fun t => (interiorPart s t).count x).sum = 0 := by
  apply natsum_zero
  intro t ht
  rw [List.count_eq_zero]
  intro hmem
  exact hx ((interior_ids s t x hmem).nodup_iff.mpr (verts_nodup t (hd t ht)))

theorem face_count_zero (x : Edge (SV Vid)) (hx : idsNodup x) :
    ((allFaces ts).map fun f => (faceSeg s f).count x).sum = 0 := by
  apply natsum_zero
  intro f _
  rw [List.count_eq_zero]
  intro hmem
  exact seg_ids_not_nodup _ _ _ _ _ _ x hmem hx

theorem manifold_count (H : HypH s (allFaces ts)) (hd : ∀ t ∈ ts, t.distinct) (hv : TetSetsDistinct ts)
    (e : Edge (SV Vid)) : (dirEdges (marchTets s ts)).count e ≤ 1 := by
  have closed : (dirEdges (marchTets s ts)).count e = (dirEdges (marchTets s ts)).count (rev e) :=
    count_eq_of_wsum_zero (fun w hw => marchTets_boundary_zero s ts (hypH_bal s _ H) w hw) e
  by_cases hn : idsNodup e
  · -- interior side: it belongs to the tets with exactly its vertex set; there is one
    rw [total_count, face_count_zero s ts e hn, Nat.zero_add]
    apply natsum_le_one_of_pairwise (fun t t' => ¬ t.verts.Perm t'.verts)
      (fun t => (interiorPart s t).count e) ts (show ts.Pairwise (fun t t' => ¬ t.verts.Perm t'.verts) from hv)
    · intro t ht
      have h1 : (interiorPart s t).count e ≤ (dirEdges (marchTet s t)).count e := by
        rw [(marchTet_perm s t).count_eq, List.count_append]; omega
      exact Nat.le_trans h1 (List.nodup_iff_count_le_one.mp (marchTet_edges_nodup s t (hd t ht)) e)
    · intro t _ t' _ h1 h2 hR
      apply hR
      have p1 := interior_ids s t e (List.count_pos_iff.mp h1)
      have p2 := interior_ids s t' e (List.count_pos_iff.mp h2)
      exact p1.symm.trans p2
  · -- side on a face
    have hn' : ¬ idsNodup (rev e) := fun h => hn ((idsNodup_rev e).mp h)
    have t1 := total_count s ts e
    have t2 := total_count s ts (rev e)
    rw [interior_count_zero s ts hd e hn, Nat.add_zero] at t1
    rw [interior_count_zero s ts hd (rev e) hn', Nat.add_zero] at t2
    have fd : ∀ f ∈ allFaces ts, f.1 ≠ f.2.1 ∧ f.1 ≠ f.2.2 ∧ f.2.1 ≠ f.2.2 := by
      intro f hf
      simp only [allFaces, List.mem_flatMap] at hf
      obtain ⟨t, ht, hft⟩ := hf
      exact faces_distinct t (hd t ht) f hft
    -- a face contributing to either direction lies over the key of `e`
    have keyOf : ∀ f ∈ allFaces ts, 0 < (faceSeg s f).count e + (faceSeg s f).count (rev e) →
        (canon f).1 = edgeKey e := by
      intro f hf hpos
      obtain ⟨d1, d2, d3⟩ := fd f hf
      rcases Nat.eq_zero_or_pos ((faceSeg s f).count e) with h0 | h0
      · have h1 : 0 < (faceSeg s f).count (rev e) := by omega
        have := (mem_seg_spec _ _ _ _ _ _ d1 d2 d3 (rev e) (List.count_pos_iff.mp h1)).2.1
        rw [rev_rev] at this
        exact this.symm
      · exact ((mem_seg_spec _ _ _ _ _ _ d1 d2 d3 e (List.count_pos_iff.mp h0)).1).symm
    -- each face contributes at most one to the two directions together
    have atMostOne : ∀ f ∈ allFaces ts, (faceSeg s f).count e + (faceSeg s f).count (rev e) ≤ 1 := by
      intro f hf
      obtain ⟨d1, d2, d3⟩ := fd f hf
      have hl := seg_length_le_one (s f.1) (s f.2.1) (s f.2.2) f.1 f.2.1 f.2.2
      unfold faceSeg
      match hseg : seg (s f.1) (s f.2.1) (s f.2.2) f.1 f.2.1 f.2.2 with
      | [] => simp
      | [x] =>
        have hx : x ∈ seg (s f.1) (s f.2.1) (s f.2.2) f.1 f.2.1 f.2.2 := by rw [hseg]; simp
        have ne := (mem_seg_spec _ _ _ _ _ _ d1 d2 d3 x hx).2.2
        simp only [List.count_cons, List.count_nil, Nat.zero_add, beq_iff_eq]
        by_cases h1 : x = e
        · subst h1
          simp [ne]
        · simp [h1]; split <;> omega
      | _ :: _ :: _ => rw [hseg] at hl; simp at hl
    -- both directions together are bounded by the number of incidences of the face of `e`
    have hsum : ((allFaces ts).map fun f => (faceSeg s f).count e).sum
        + ((allFaces ts).map fun f => (faceSeg s f).count (rev e)).sum ≤ 2 := by
      rw [← natsum_add]
      by_cases hu : faceUniform s (edgeKey e) = true
      · have z : ((allFaces ts).map fun f => (faceSeg s f).count e + (faceSeg s f).count (rev e)).sum = 0 := by
          apply natsum_zero
          intro f hf
          rcases Nat.eq_zero_or_pos ((faceSeg s f).count e + (faceSeg s f).count (rev e)) with h | h
          · exact h
          · have hk := keyOf f hf h
            have hfu : faceUniform s f = true := by rw [← canon_uniform, hk]; exact hu
            rw [faceSeg_uniform s f hfu]; simp
        omega
      · simp only [Bool.not_eq_true] at hu
        have bound := natsum_le_filter (fun f => (faceSeg s f).count e + (faceSeg s f).count (rev e))
          (fun f => decide ((canon f).1 = edgeKey e)) (allFaces ts) atMostOne
          (fun f hf hpos => by simpa using keyOf f hf hpos)
        refine Nat.le_trans bound ?_
        rw [filter_key_length]
        by_cases hk : edgeKey e ∈ (allFaces ts).map (fun f => (canon f).1)
        · obtain ⟨c1, c2⟩ := H (edgeKey e) hu hk
          omega
        · have z : ∀ p, oriCount (allFaces ts) (edgeKey e) p = 0 := by
            intro p
            simp only [oriCount, List.length_eq_zero_iff, List.filter_eq_nil_iff]
            intro f hf hc
            apply hk
            simp only [Bool.and_eq_true, beq_iff_eq] at hc
            exact List.mem_map.mpr ⟨f, hf, hc.1⟩
          rw [z, z]; omega
    rw [t1]
    rw [t1, t2] at closed
    omega

end main

end Libfive.Marching
