/-
  C08 helper lemmas, part 2: one clause written by `serNode` is read back by `clauseStep`
  into an isomorphic node; lifted to clause lists.  Core Lean only.
-/
import LibfiveProofs.Serialize

namespace Libfive.Serial

/-! ## opcode bytes -/

theorem op_byte (o : Op) : (UInt8.ofNat o.code).toNat = o.code := by cases o <;> decide
theorem op_code_lt (o : Op) : o.code < LAST_OP := by cases o <;> decide
theorem op_ofCode (o : Op) : Op.ofCode? o.code = some o := by cases o <;> rfl
theorem op_byte_ne_end (o : Op) : UInt8.ofNat o.code ≠ END_OF_ITEM := by cases o <;> decide
theorem op_code_ne_zero (o : Op) (h : o ≠ .invalid) : o.code ≠ 0 := by cases o <;> simp_all [Op.code]

/-! ## the id table -/

theorem posOf_some {ids : List NodeId} {n : NodeId} {p : Nat} (h : posOf ids n = some p) :
    ids[p]? = some n := by
  induction ids generalizing p with
  | nil => simp [posOf] at h
  | cons a r ih =>
    by_cases ha : a = n
    · simp [posOf, ha] at h; subst h; simp [ha]
    · simp only [posOf, ha, if_false, Option.map_eq_some_iff] at h
      obtain ⟨q, hq, rfl⟩ := h
      simpa using ih hq

theorem posOf_lt {ids : List NodeId} {n : NodeId} {p : Nat} (h : posOf ids n = some p) : p < ids.length := by
  have := posOf_some h
  exact (List.getElem?_eq_some_iff.mp this).1

theorem posOf_none {ids : List NodeId} {n : NodeId} (h : n ∉ ids) : posOf ids n = none := by
  induction ids with
  | nil => rfl
  | cons a r ih =>
    have h1 : a ≠ n := fun e => h (by simp [e])
    have h2 : n ∉ r := fun e => h (by simp [e])
    simp [posOf, h1, ih h2]

theorem posOf_isSome {ids : List NodeId} {n : NodeId} (h : n ∈ ids) : ∃ p, posOf ids n = some p := by
  induction ids with
  | nil => simp at h
  | cons a r ih =>
    by_cases ha : a = n
    · exact ⟨0, by simp [posOf, ha]⟩
    · have : n ∈ r := by
        rcases List.mem_cons.mp h with e | e
        · exact absurd e.symm ha
        · exact e
      obtain ⟨p, hp⟩ := ih this
      exact ⟨p + 1, by simp [posOf, ha, hp]⟩

/-- a position found in `ids ++ [n]` for a node other than `n` lies in `ids` -/
theorem posOf_snoc_ne {ids : List NodeId} {n x : NodeId} {p : Nat} (h : posOf (ids ++ [n]) x = some p)
    (hx : x ≠ n) : ids[p]? = some x := by
  have h1 := posOf_some h
  have h2 := posOf_lt h
  by_cases hp : p < ids.length
  · rwa [List.getElem?_append_left hp] at h1
  · have : p = ids.length := by simp at h2; omega
    subst this
    simp at h1
    exact absurd h1.symm hx

theorem u32_toNat_ofNat (r : Nat) (h : r < 4294967296) : (UInt32.ofNat r).toNat = r := by
  simp [Nat.mod_eq_of_lt h]

/-! ## the loader's decisions only look at opcodes and constant values -/

theorem act1_congr (op : Op) (l l' : Node) (h : l.op = l'.op) : act1 op l = act1 op l' := by
  simp [act1, isConst, isUnary, h]

theorem act2_congr (op : Op) (l l' r r' : Node) (s : Bool)
    (hl : l.op = l'.op) (hlv : l.op = Op.constant → l.value = l'.value)
    (hr : r.op = r'.op) (hrv : r.op = Op.constant → r.value = r'.value) :
    act2 op l r s = act2 op l' r' s := by
  by_cases cl : l.op = Op.constant <;> by_cases cr : r.op = Op.constant
  · have := hlv cl; have := hrv cr
    simp_all [act2, isConst, isUnary]
  · have := hlv cl
    have cl' : l'.op = Op.constant := hl ▸ cl
    have cr' : ¬ r'.op = Op.constant := hr ▸ cr
    simp [act2, isConst, isUnary, cl, cr, cl', cr', this, hr]
  · have := hrv cr
    have cl' : ¬ l'.op = Op.constant := hl ▸ cl
    have cr' : r'.op = Op.constant := hr ▸ cr
    simp [act2, isConst, isUnary, cl, cr, cl', cr', this, hl]
  · have cl' : ¬ l'.op = Op.constant := hl ▸ cl
    have cr' : ¬ r'.op = Op.constant := hr ▸ cr
    simp [act2, isConst, isUnary, cl, cr, cl', cr', hl, hr]

/-! ## the invariant: the loader's table is an isomorphic copy of the stored part of the DAG -/

/-- node `m` of the loader's heap is a copy of node `n` of the original heap: same opcode, same
    constant, operands at the same stream positions -/
def NodeMatch (heap : NodeId → Node) (ids trees : List NodeId) (lheap : List Node) (n m : NodeId) : Prop :=
  (hget lheap m).op = (heap n).op ∧
  ((heap n).op = Op.constant → (hget lheap m).value = (heap n).value) ∧
  ((heap n).op.args = some 1 ∨ (heap n).op.args = some 2 →
      ∃ q : Nat, ids[q]? = some (heap n).lhs ∧ trees[q]? = some (hget lheap m).lhs) ∧
  ((heap n).op.args = some 2 →
      ∃ q : Nat, ids[q]? = some (heap n).rhs ∧ trees[q]? = some (hget lheap m).rhs)

/-- `Tree::X() Y() Z()` are singletons of the process -/
def AxesUnique (heap : NodeId → Node) : Prop :=
  ∀ a b, (heap a).op = (heap b).op →
    ((heap a).op = Op.varX ∨ (heap a).op = Op.varY ∨ (heap a).op = Op.varZ) → a = b

structure Inv (heap : NodeId → Node) (ids : List NodeId) (lheap : List Node) (trees : List NodeId) : Prop where
  len : trees.length = ids.length
  nodup : ids.Nodup
  base : ∃ ext, lheap = heap0 ++ ext
  bound : ∀ (p : Nat) (m : NodeId), trees[p]? = some m → m < lheap.length
  inj : ∀ (p q : Nat) (m : NodeId), trees[p]? = some m → trees[q]? = some m → p = q
  mtch : ∀ (p : Nat) (n m : NodeId), ids[p]? = some n → trees[p]? = some m → NodeMatch heap ids trees lheap n m

theorem Inv.init (heap : NodeId → Node) : Inv heap [] heap0 [] :=
  ⟨rfl, List.nodup_nil, ⟨[], by simp⟩, by simp, by simp, by simp⟩

theorem hget_append (lheap ext : List Node) (m : Nat) (h : m < lheap.length) :
    hget (lheap ++ ext) m = hget lheap m := by
  simp [hget, List.getElem?_append_left h]

theorem hget_new (lheap : List Node) (nd : Node) : hget (lheap ++ [nd]) lheap.length = nd := by
  simp [hget]

theorem get?_snoc_old {α : Type} (l : List α) (x y : α) (p : Nat) (h : l[p]? = some y) :
    (l ++ [x])[p]? = some y := by
  have hp : p < l.length := (List.getElem?_eq_some_iff.mp h).1
  rw [List.getElem?_append_left hp]; exact h

theorem get?_snoc_cases {α : Type} (l : List α) (x y : α) (i : Nat) (h : (l ++ [x])[i]? = some y) :
    (i < l.length ∧ l[i]? = some y) ∨ (i = l.length ∧ y = x) := by
  rcases Nat.lt_trichotomy i l.length with hl | hl | hl
  · left; rw [List.getElem?_append_left hl] at h; exact ⟨hl, h⟩
  · right; subst hl; simp at h; exact ⟨rfl, h.symm⟩
  · exfalso
    have : (l ++ [x])[i]? = none := List.getElem?_eq_none (by simp; omega)
    rw [this] at h; cases h

theorem NodeMatch.mono {heap : NodeId → Node} {ids trees : List NodeId} {lheap : List Node} {n m : NodeId}
    (n' m' : NodeId) (ext : List Node) (hm : m < lheap.length)
    (hb : ∀ (p : Nat) (x : NodeId), trees[p]? = some x → x < lheap.length)
    (h : NodeMatch heap ids trees lheap n m) :
    NodeMatch heap (ids ++ [n']) (trees ++ [m']) (lheap ++ ext) n m := by
  obtain ⟨h1, h2, h3, h4⟩ := h
  have e := hget_append lheap ext m hm
  refine ⟨by rw [e]; exact h1, by rw [e]; exact h2, ?_, ?_⟩
  · intro ha
    obtain ⟨q, hq1, hq2⟩ := h3 ha
    exact ⟨q, get?_snoc_old _ _ _ _ hq1, by rw [e]; exact get?_snoc_old _ _ _ _ hq2⟩
  · intro ha
    obtain ⟨q, hq1, hq2⟩ := h4 ha
    exact ⟨q, get?_snoc_old _ _ _ _ hq1, by rw [e]; exact get?_snoc_old _ _ _ _ hq2⟩

/-- extending the tables by one stored node -/
theorem Inv.push {heap : NodeId → Node} {ids trees : List NodeId} {lheap : List Node}
    (hinv : Inv heap ids lheap trees) (n m : NodeId) (ext : List Node)
    (hn : n ∉ ids) (hm : m < (lheap ++ ext).length)
    (hfresh : ∀ (p : Nat) (x : NodeId), trees[p]? = some x → x ≠ m)
    (hmatch : NodeMatch heap (ids ++ [n]) (trees ++ [m]) (lheap ++ ext) n m) :
    Inv heap (ids ++ [n]) (lheap ++ ext) (trees ++ [m]) := by
  obtain ⟨len, nodup, ⟨e0, he0⟩, bound, inj, mtch⟩ := hinv
  refine ⟨by simp [len], ?_, ⟨e0 ++ ext, by simp [he0]⟩, ?_, ?_, ?_⟩
  · rw [List.nodup_append]
    refine ⟨nodup, by simp, ?_⟩
    intro a ha b hb
    simp at hb; subst hb
    exact fun e => hn (e ▸ ha)
  · intro p x hx
    rcases get?_snoc_cases _ _ _ _ hx with ⟨_, h1⟩ | ⟨_, h2⟩
    · have := bound p x h1
      exact Nat.lt_of_lt_of_le this (by simp)
    · subst h2; exact hm
  · intro p q x hp hq
    rcases get?_snoc_cases _ _ _ _ hp with ⟨_, hp1⟩ | ⟨hp1, hp2⟩ <;>
      rcases get?_snoc_cases _ _ _ _ hq with ⟨_, hq1⟩ | ⟨hq1, hq2⟩
    · exact inj p q x hp1 hq1
    · exact absurd hq2 (hfresh p x hp1)
    · exact absurd hp2 (hfresh q x hq1)
    · omega
  · intro p a x hp hx
    rcases get?_snoc_cases _ _ _ _ hp with ⟨hl, hp1⟩ | ⟨hp1, hp2⟩ <;>
      rcases get?_snoc_cases _ _ _ _ hx with ⟨hl', hx1⟩ | ⟨hx1, hx2⟩
    · exact NodeMatch.mono n m ext (bound p x hx1) bound (mtch p a x hp1 hx1)
    · omega
    · omega
    · subst hp2; subst hx2; exact hmatch

/-! ## one clause: what `clauseStep` computes on the bytes `serNode` writes -/

theorem clauseStep_op (F : Folder) (op : Op) (hop : op ≠ .invalid) (data : List Byte)
    (trees : List NodeId) (lheap : List Node) (log : List Err) :
    clauseStep F ⟨⟨UInt8.ofNat op.code :: data, false⟩, trees, lheap, log⟩
      = clauseOp F ⟨⟨data, false⟩, trees, lheap, log⟩ op := by
  have h1 : op.code < LAST_OP := op_code_lt op
  have h3 : ¬ (LAST_OP ≤ op.code) := Nat.not_le.mpr h1
  have hm : op.code % 256 = op.code := Nat.mod_eq_of_lt (by simp [LAST_OP] at h1; omega)
  have h0 := op_code_ne_zero op hop
  have he := op_byte_ne_end op
  simp [clauseStep, DState.checkPos, IStream.get, he, hm, h0, h1, h3, op_ofCode]

theorem clauseOp_const (F : Folder) (v : UInt32) (rest : List Byte)
    (trees : List NodeId) (lheap : List Node) (log : List Err) :
    clauseOp F ⟨⟨u32le v ++ rest, false⟩, trees, lheap, log⟩ Op.constant
      = .ok (some false, ⟨⟨rest, false⟩, trees ++ [lheap.length],
                          lheap ++ [{ op := .constant, value := v }], log⟩) := by
  simp [clauseOp, readU32_u32le, bumpTree, alloc]

theorem clauseOp_unary (F : Folder) (op : Op) (h1 : op.args = some 1) (l : Nat) (hl : l < 4294967296)
    (a : NodeId) (rest : List Byte) (trees : List NodeId) (lheap : List Node) (log : List Err)
    (ha : trees[l]? = some a) :
    clauseOp F ⟨⟨u32le (UInt32.ofNat l) ++ rest, false⟩, trees, lheap, log⟩ op
      = .ok (some false, bumpTree ⟨⟨rest, false⟩, trees, lheap, log⟩ (mkUnary F lheap op a)) := by
  have hc : op ≠ Op.constant := by intro e; subst e; simp [Op.args] at h1
  have ho : op ≠ Op.oracle := by intro e; subst e; simp [Op.args] at h1
  simp [clauseOp, hc, ho, h1, readU32_u32le, treeAt, u32_toNat_ofNat l hl, ha]

theorem clauseOp_binary (F : Folder) (op : Op) (h2 : op.args = some 2) (l r : Nat)
    (hl : l < 4294967296) (hr : r < 4294967296)
    (a b : NodeId) (rest : List Byte) (trees : List NodeId) (lheap : List Node) (log : List Err)
    (ha : trees[l]? = some a) (hb : trees[r]? = some b) :
    clauseOp F ⟨⟨u32le (UInt32.ofNat r) ++ (u32le (UInt32.ofNat l) ++ rest), false⟩, trees, lheap, log⟩ op
      = .ok (some false, bumpTree ⟨⟨rest, false⟩, trees, lheap, log⟩ (mkBinary F 64 lheap op a b)) := by
  have hc : op ≠ Op.constant := by intro e; subst e; simp [Op.args] at h2
  have ho : op ≠ Op.oracle := by intro e; subst e; simp [Op.args] at h2
  simp [clauseOp, hc, ho, h2, readU32_u32le, treeAt, u32_toNat_ofNat l hl, u32_toNat_ofNat r hr, ha, hb]

theorem mkUnary_alloc (F : Folder) (lheap : List Node) (op : Op) (a : NodeId)
    (h : act1 op (hget lheap a) = Act1.alloc) :
    mkUnary F lheap op a = (lheap ++ [{ op := op, lhs := a }], lheap.length) := by
  simp [mkUnary, h, alloc]

theorem mkBinary_alloc (F : Folder) (lheap : List Node) (op : Op) (a b : NodeId)
    (h : act2 op (hget lheap a) (hget lheap b) (a == b) = Act2.alloc) :
    mkBinary F 64 lheap op a b = (lheap ++ [{ op := op, lhs := a, rhs := b }], lheap.length) := by
  simp [mkBinary, h, alloc]

theorem Inv.base_len {heap : NodeId → Node} {ids trees : List NodeId} {lheap : List Node}
    (h : Inv heap ids lheap trees) : 4 ≤ lheap.length := by
  obtain ⟨e, he⟩ := h.base
  rw [he]; simp [heap0]

theorem Inv.base_get {heap : NodeId → Node} {ids trees : List NodeId} {lheap : List Node}
    (h : Inv heap ids lheap trees) (k : Nat) (hk : k < 4) : hget lheap k = hget heap0 k := by
  obtain ⟨e, he⟩ := h.base
  rw [he]; exact hget_append heap0 e k (by simpa [heap0] using hk)

/-- a fresh allocation extends the invariant -/
theorem Inv.push_fresh {heap : NodeId → Node} {ids trees : List NodeId} {lheap : List Node}
    (hinv : Inv heap ids lheap trees) (n : NodeId) (nd : Node) (hn : n ∉ ids)
    (hmatch : NodeMatch heap (ids ++ [n]) (trees ++ [lheap.length]) (lheap ++ [nd]) n lheap.length) :
    Inv heap (ids ++ [n]) (lheap ++ [nd]) (trees ++ [lheap.length]) := by
  refine Inv.push hinv n lheap.length [nd] hn (by simp) ?_ hmatch
  intro p x hx hxe
  have := hinv.bound p x hx
  rw [hxe] at this
  exact Nat.lt_irrefl _ this

/-- an axis singleton extends the invariant -/
theorem Inv.push_axis {heap : NodeId → Node} (hax : AxesUnique heap) {ids trees : List NodeId} {lheap : List Node}
    (hinv : Inv heap ids lheap trees) (n : NodeId) (hn : n ∉ ids) (k : Nat) (hk : k < 4)
    (hop : (hget heap0 k).op = (heap n).op)
    (haxis : (heap n).op = Op.varX ∨ (heap n).op = Op.varY ∨ (heap n).op = Op.varZ) :
    Inv heap (ids ++ [n]) lheap (trees ++ [k]) := by
  have hb := hinv.base_get k hk
  have hl := hinv.base_len
  have hkl : k < (lheap ++ []).length := by simp; omega
  have key : Inv heap (ids ++ [n]) (lheap ++ []) (trees ++ [k]) := by
    refine Inv.push hinv n k [] hn hkl ?_ ?_
    · intro p x hx hxk
      subst hxk
      have hp : p < ids.length := by
        have := (List.getElem?_eq_some_iff.mp hx).1; rw [hinv.len] at this; exact this
      have hm := hinv.mtch p ids[p] x (by simp [hp]) hx
      have e1 : (heap ids[p]).op = (heap n).op := by rw [← hm.1, hb, hop]
      have := hax ids[p] n e1 (e1 ▸ haxis)
      exact hn (this ▸ List.getElem_mem hp)
    · have hargs : (heap n).op.args = some 0 := by
        rcases haxis with e | e | e <;> simp [e, Op.args]
      refine ⟨by simp [hb, hop], ?_, ?_, ?_⟩
      · intro e; rcases haxis with e' | e' | e' <;> simp [e'] at e
      · intro e; simp [hargs] at e
      · intro e; simp [hargs] at e

  simpa using key

/-- **one clause.** What `serNode` writes for a not yet stored, plain node is read back by one
    iteration of the loader's clause loop: the stream advances exactly past the clause, nothing is
    printed, and the tables stay an isomorphic copy. -/
theorem clauseStep_serNode (F : Folder) (heap : NodeId → Node) (hax : AxesUnique heap)
    (ids ids' : List NodeId) (n : NodeId) (bytes rest : List Byte)
    (trees : List NodeId) (lheap : List Node) (log : List Err)
    (hser : serNode heap ids n = .ok (bytes, ids')) (hnew : n ∉ ids)
    (hplain : nodePlain heap n = true) (hsz : ids'.length < 4294967296)
    (hinv : Inv heap ids lheap trees) :
    ∃ (x : NodeId) (ext : List Node), clauseStep F ⟨⟨bytes ++ rest, false⟩, trees, lheap, log⟩
        = .ok (some false, ⟨⟨rest, false⟩, trees ++ [x], lheap ++ ext, log⟩) ∧
        Inv heap ids' (lheap ++ ext) (trees ++ [x]) := by
  have hop : (heap n).op ≠ Op.invalid := by
    intro e; simp [nodePlain, e, Op.args] at hplain
  cases hargs : (heap n).op.args with
  | none => simp [nodePlain, hargs] at hplain
  | some k =>
    match k, hargs with
    | 0, hargs =>
      have hor : (heap n).op ≠ Op.oracle := by simpa [nodePlain, hargs] using hplain
      simp only [serNode, hnew, if_false, hor, hargs] at hser
      by_cases hc : (heap n).op = Op.constant
      · simp only [hc, if_true] at hser
        injection hser with hser; injection hser with hb hi
        subst hb; subst hi
        refine ⟨lheap.length, [{ op := .constant, value := (heap n).value }], ?_, ?_⟩
        · have := clauseStep_op F (heap n).op hop (u32le (heap n).value ++ rest) trees lheap log
          rw [hc] at this
          simp only [List.append_assoc, List.cons_append, List.nil_append]
          rw [this, clauseOp_const]
        · apply Inv.push_fresh hinv n _ hnew
          refine ⟨by simp [hget_new, hc], by simp [hget_new], ?_, ?_⟩
          · intro e; simp [hargs] at e
          · intro e; simp [hargs] at e
      · simp only [hc, if_false, List.append_nil] at hser
        injection hser with hser; injection hser with hb hi
        subst hb; subst hi
        have hstep := clauseStep_op F (heap n).op hop rest trees lheap log
        simp only [List.cons_append, List.nil_append]
        rw [hstep]
        -- args = 0, not CONSTANT, not ORACLE: one of the four variables
        have hcases : (heap n).op = Op.varX ∨ (heap n).op = Op.varY ∨ (heap n).op = Op.varZ ∨ (heap n).op = Op.varFree := by
          revert hargs hc hor
          cases (heap n).op <;> simp [Op.args]
        rcases hcases with e | e | e | e
        · refine ⟨idX, [], by simp [clauseOp, e, Op.args, bumpTree], ?_⟩
          rw [List.append_nil]
          exact Inv.push_axis hax hinv n hnew 0 (by decide) (by simp [e, hget, heap0]) (Or.inl e)
        · refine ⟨idY, [], by simp [clauseOp, e, Op.args, bumpTree], ?_⟩
          rw [List.append_nil]
          exact Inv.push_axis hax hinv n hnew 1 (by decide) (by simp [e, hget, heap0]) (Or.inr (Or.inl e))
        · refine ⟨idZ, [], by simp [clauseOp, e, Op.args, bumpTree], ?_⟩
          rw [List.append_nil]
          exact Inv.push_axis hax hinv n hnew 2 (by decide) (by simp [e, hget, heap0]) (Or.inr (Or.inr e))
        · refine ⟨lheap.length, [{ op := .varFree }], by simp [clauseOp, e, Op.args, bumpTree, alloc], ?_⟩
          apply Inv.push_fresh hinv n _ hnew
          refine ⟨by simp [hget_new, e], by simp [e], ?_, ?_⟩
          · intro e'; simp [hargs] at e'
          · intro e'; simp [hargs] at e'
    | 1, hargs =>
      have hc : (heap n).op ≠ Op.constant := by intro e; simp [e, Op.args] at hargs
      have hor : (heap n).op ≠ Op.oracle := by intro e; simp [e, Op.args] at hargs
      simp only [nodePlain, hargs, Bool.and_eq_true, beq_iff_eq, bne_iff_ne, ne_eq] at hplain
      obtain ⟨hact, hself⟩ := hplain
      simp only [serNode, hnew, if_false, hor, hargs, hc, List.append_nil] at hser
      cases hpos : posOf (ids ++ [n]) (heap n).lhs with
      | none => simp [hpos] at hser
      | some l =>
        simp only [hpos] at hser
        injection hser with hser; injection hser with hb hi
        subst hb; subst hi
        have hl : ids[l]? = some (heap n).lhs := posOf_snoc_ne hpos hself
        have hll : l < ids.length := (List.getElem?_eq_some_iff.mp hl).1
        have hl32 : l < 4294967296 := by simp at hsz; omega
        have hlt : l < trees.length := by rw [hinv.len]; exact hll
        have ha : trees[l]? = some trees[l] := by simp [hlt]
        have hm := hinv.mtch l _ _ hl ha
        have hact' : act1 (heap n).op (hget lheap trees[l]) = Act1.alloc := by
          rw [act1_congr _ _ (heap (heap n).lhs) hm.1]; exact hact
        refine ⟨lheap.length, [{ op := (heap n).op, lhs := trees[l] }], ?_, ?_⟩
        · have hstep := clauseStep_op F (heap n).op hop (u32le (UInt32.ofNat l) ++ rest) trees lheap log
          simp only [List.append_assoc, List.cons_append, List.nil_append]
          rw [hstep, clauseOp_unary F _ hargs l hl32 _ rest trees lheap log ha, mkUnary_alloc F _ _ _ hact']
          simp [bumpTree]
        · apply Inv.push_fresh hinv n _ hnew
          refine ⟨by simp [hget_new], ?_, ?_, ?_⟩
          · intro e; exact absurd e hc
          · intro _
            exact ⟨l, get?_snoc_old _ _ _ _ hl, by simp [hget_new]; exact get?_snoc_old _ _ _ _ ha⟩
          · intro e; simp [hargs] at e
    | 2, hargs =>
      have hc : (heap n).op ≠ Op.constant := by intro e; simp [e, Op.args] at hargs
      have hor : (heap n).op ≠ Op.oracle := by intro e; simp [e, Op.args] at hargs
      simp only [nodePlain, hargs, Bool.and_eq_true, beq_iff_eq, bne_iff_ne, ne_eq] at hplain
      obtain ⟨⟨hact, hselfl⟩, hselfr⟩ := hplain
      simp only [serNode, hnew, if_false, hor, hargs, hc, List.append_nil] at hser
      cases hposr : posOf (ids ++ [n]) (heap n).rhs with
      | none => simp [hposr] at hser
      | some r =>
        cases hposl : posOf (ids ++ [n]) (heap n).lhs with
        | none => simp [hposr, hposl] at hser
        | some l =>
          simp only [hposr, hposl] at hser
          injection hser with hser; injection hser with hb hi
          subst hb; subst hi
          have hl : ids[l]? = some (heap n).lhs := posOf_snoc_ne hposl hselfl
          have hr : ids[r]? = some (heap n).rhs := posOf_snoc_ne hposr hselfr
          have hll : l < ids.length := (List.getElem?_eq_some_iff.mp hl).1
          have hrl : r < ids.length := (List.getElem?_eq_some_iff.mp hr).1
          have hl32 : l < 4294967296 := by simp at hsz; omega
          have hr32 : r < 4294967296 := by simp at hsz; omega
          have hlt : l < trees.length := by rw [hinv.len]; exact hll
          have hrt : r < trees.length := by rw [hinv.len]; exact hrl
          have ha : trees[l]? = some trees[l] := by simp [hlt]
          have hb : trees[r]? = some trees[r] := by simp [hrt]
          have hml := hinv.mtch l _ _ hl ha
          have hmr := hinv.mtch r _ _ hr hb
          have hsame : (trees[l] == trees[r]) = ((heap n).lhs == (heap n).rhs) := by
            by_cases e : (heap n).lhs = (heap n).rhs
            · have : l = r := by
                rw [e, hposr] at hposl; exact (Option.some.inj hposl).symm
              subst this; simp [e]
            · have : trees[l] ≠ trees[r] := by
                intro et
                have : l = r := hinv.inj l r trees[l] ha (et ▸ hb)
                subst this
                rw [hl] at hr; exact e (Option.some.inj hr)
              have h1 : (trees[l] == trees[r]) = false := beq_eq_false_iff_ne.mpr this
              have h2 : ((heap n).lhs == (heap n).rhs) = false := beq_eq_false_iff_ne.mpr e
              rw [h1, h2]
          have hact' : act2 (heap n).op (hget lheap trees[l]) (hget lheap trees[r]) (trees[l] == trees[r]) = Act2.alloc := by
            rw [hsame, act2_congr _ _ (heap (heap n).lhs) _ (heap (heap n).rhs) _ hml.1 ?_ hmr.1 ?_]
            · exact hact
            · intro e; exact hml.2.1 (hml.1 ▸ e)
            · intro e; exact hmr.2.1 (hmr.1 ▸ e)
          refine ⟨lheap.length, [{ op := (heap n).op, lhs := trees[l], rhs := trees[r] }], ?_, ?_⟩
          · have hstep := clauseStep_op F (heap n).op hop
              (u32le (UInt32.ofNat r) ++ (u32le (UInt32.ofNat l) ++ rest)) trees lheap log
            simp only [List.append_assoc, List.cons_append, List.nil_append]
            rw [hstep, clauseOp_binary F _ hargs l r hl32 hr32 _ _ rest trees lheap log ha hb,
              mkBinary_alloc F _ _ _ _ hact']
            simp [bumpTree]
          · apply Inv.push_fresh hinv n _ hnew
            refine ⟨by simp [hget_new], ?_, ?_, ?_⟩
            · intro e; exact absurd e hc
            · intro _
              exact ⟨l, get?_snoc_old _ _ _ _ hl, by simp [hget_new]; exact get?_snoc_old _ _ _ _ ha⟩
            · intro _
              exact ⟨r, get?_snoc_old _ _ _ _ hr, by simp [hget_new]; exact get?_snoc_old _ _ _ _ hb⟩
    | k + 3, hargs => exact absurd hargs (by cases (heap n).op <;> simp [Op.args])

/-! ## clause lists -/

theorem serNode_cases {heap : NodeId → Node} {ids ids' : List NodeId} {n : NodeId} {b : List Byte}
    (h : serNode heap ids n = .ok (b, ids')) :
    (n ∈ ids ∧ b = [] ∧ ids' = ids) ∨ (n ∉ ids ∧ ids' = ids ++ [n] ∧ 1 ≤ b.length) := by
  by_cases hn : n ∈ ids
  · left
    simp only [serNode, hn, if_true] at h
    injection h with h; injection h with h1 h2
    exact ⟨hn, h1.symm, h2.symm⟩
  · right
    simp only [serNode, hn, if_false] at h
    split at h
    · cases h
    · split at h
      · split at h
        · injection h with h; injection h with h1 h2
          subst h1; subst h2; exact ⟨hn, rfl, by simp⟩
        · cases h
      · split at h
        · injection h with h; injection h with h1 h2
          subst h1; subst h2; exact ⟨hn, rfl, by simp⟩
        · cases h
      · injection h with h; injection h with h1 h2
        subst h1; subst h2; exact ⟨hn, rfl, by simp⟩

theorem serNodes_len {heap : NodeId → Node} : ∀ (w : List NodeId) {ids ids' : List NodeId} {b : List Byte},
    serNodes heap ids w = .ok (b, ids') → ids.length ≤ ids'.length := by
  intro w
  induction w with
  | nil => intro ids ids' b h; simp [serNodes] at h; rw [h.2]; exact Nat.le_refl _
  | cons n w ih =>
    intro ids ids' b h
    simp only [serNodes] at h
    cases h1 : serNode heap ids n with
    | error e => simp [h1] at h
    | ok r =>
      obtain ⟨b1, ids1⟩ := r
      simp only [h1] at h
      cases h2 : serNodes heap ids1 w with
      | error e => simp [h2] at h
      | ok r2 =>
        obtain ⟨b2, ids2⟩ := r2
        simp only [h2] at h
        injection h with h; injection h with _ hi
        subst hi
        have := ih h2
        rcases serNode_cases h1 with ⟨_, _, e⟩ | ⟨_, e, _⟩ <;> subst e <;> simp at * <;> omega

theorem clauseLoop_end (F : Folder) (fuel : Nat) (rest : List Byte)
    (trees : List NodeId) (lheap : List Node) (log : List Err) :
    clauseLoop F (fuel + 1) ⟨⟨END_OF_ITEM :: rest, false⟩, trees, lheap, log⟩
      = .ok (false, ⟨⟨rest, false⟩, trees, lheap, log⟩) := by
  simp [clauseLoop, clauseStep, DState.checkPos, IStream.get]

/-- **clause list.** Whatever order `w` the nodes are offered in: if `serNodes` gets through
    (every operand stored before its parent) and every offered node is plain, the loader's clause
    loop reads the bytes back up to and including the END_OF_ITEM, prints nothing, and its table is
    an isomorphic copy of the enlarged id table. -/
theorem clauseLoop_serNodes (F : Folder) (heap : NodeId → Node) (hax : AxesUnique heap) :
    ∀ (w : List NodeId) (ids ids' : List NodeId) (bytes rest : List Byte)
      (trees : List NodeId) (lheap : List Node) (log : List Err) (fuel : Nat),
    serNodes heap ids w = .ok (bytes, ids') →
    (∀ n ∈ w, nodePlain heap n = true) → ids'.length < 4294967296 →
    Inv heap ids lheap trees → bytes.length + 1 ≤ fuel →
    ∃ (te : List NodeId) (le : List Node),
      clauseLoop F fuel ⟨⟨bytes ++ END_OF_ITEM :: rest, false⟩, trees, lheap, log⟩
        = .ok (false, ⟨⟨rest, false⟩, trees ++ te, lheap ++ le, log⟩) ∧
      Inv heap ids' (lheap ++ le) (trees ++ te) := by
  intro w
  induction w with
  | nil =>
    intro ids ids' bytes rest trees lheap log fuel h _ _ hinv hf
    simp [serNodes] at h
    obtain ⟨hb, hi⟩ := h
    subst hb; subst hi
    cases fuel with
    | zero => simp at hf
    | succ f => exact ⟨[], [], by simpa using clauseLoop_end F f rest trees lheap log, by simpa using hinv⟩
  | cons n w ih =>
    intro ids ids' bytes rest trees lheap log fuel h hpl hsz hinv hf
    simp only [serNodes] at h
    cases h1 : serNode heap ids n with
    | error e => simp [h1] at h
    | ok r =>
      obtain ⟨b1, ids1⟩ := r
      simp only [h1] at h
      cases h2 : serNodes heap ids1 w with
      | error e => simp [h2] at h
      | ok r2 =>
        obtain ⟨b2, ids2⟩ := r2
        simp only [h2] at h
        injection h with h; injection h with hb hi
        subst hb; subst hi
        have hpl' : ∀ m ∈ w, nodePlain heap m = true := fun m hm => hpl m (by simp [hm])
        rcases serNode_cases h1 with ⟨_, e1, e2⟩ | ⟨hn, e2, hlen⟩
        · subst e1; rw [e2] at h2
          simpa using ih ids ids2 b2 rest trees lheap log fuel h2 hpl' hsz hinv (by simpa using hf)
        · have hsz1 : ids1.length < 4294967296 := Nat.lt_of_le_of_lt (serNodes_len w h2) hsz
          obtain ⟨x1, e1, hstep, hinv1⟩ := clauseStep_serNode F heap hax ids ids1 n b1
            (b2 ++ END_OF_ITEM :: rest) trees lheap log h1 hn (hpl n (by simp)) hsz1 hinv
          cases fuel with
          | zero => simp at hf
          | succ f =>
            have hf' : b2.length + 1 ≤ f := by simp at hf; omega
            obtain ⟨t2, l2, hloop, hinv2⟩ := ih ids1 ids2 b2 rest (trees ++ [x1]) (lheap ++ e1) log f h2 hpl' hsz hinv1 hf'
            refine ⟨[x1] ++ t2, e1 ++ l2, ?_, by simpa [List.append_assoc] using hinv2⟩
            simp only [List.append_assoc]
            rw [clauseLoop, hstep]
            simpa [List.append_assoc] using hloop

end Libfive.Serial
