/-
  The recursive dual walk `Dual<3>::work / face3 / edge3` (model: `dualW / workW / face3W / edge3W`
  of LibfiveModel/DCGrid.lean) on the complete octree of EVERY depth makes exactly the calls of the
  closed-form enumeration `calls`.  Helper lemmas for LibfiveTheorems/C03Walk.lean.

  Route:
  1. transport to INDEX lists: under the sibling relations the recursion maintains (the four trees
     of `edge3` are a tree and its `Q`, `R`, `Q+R` neighbours of the same size; the two trees of
     `face3` are a tree and its `A` neighbour), every recorded call is `callTuple (A, ts[0])`, so
     `edge3W / face3W / workW / dualW` are `List.map callTuple` of the lists `edgeL / faceL / workL /
     dualL` that follow only `ts[0]` (`edge3W_eq`, `face3W_eq`, `workW_eq`, `dualW_eq`; equalities,
     the order is kept);
  2. closed-form membership of the index lists, by induction on the depth with `omega`
     (`mem_edgeL`: a line of `2^d` lattice edges; `mem_faceL`: the lattice edges in the interior of
     a `2^d × 2^d` face; `mem_workL`: the interior lattice edges of a cube of side `2^(d+1)` that lie
     on one of its three mid-planes; `mem_dualL`: all interior lattice edges of the cube), and
     duplicate-freeness (`nodup_*`): the interior edges of a cube of side `2^(d+1)` split into the
     interiors of its 8 octants, of the 12 faces between octants and the 6 inner half-axes;
  3. `calls n n n` is duplicate-free with the same membership predicate (`inCube`), hence a
     permutation (`dualW_perm`).
-/
import LibfiveProofs.DCGrid

namespace Libfive.DCGrid.Walk
open Libfive.Marching Libfive.DCGrid Generated.MeshTables
set_option linter.unusedSimpArgs false
set_option linter.unusedVariables false

/-- `p` shifted by `n` along axis `B` -/
def step (B n : Nat) (p : Pt) : Pt :=
  match B with
  | 0 => (p.1 + n, p.2.1, p.2.2)
  | 1 => (p.1, p.2.1 + n, p.2.2)
  | _ => (p.1, p.2.1, p.2.2 + n)

/-- `edge3W A` following only `ts[0]` (the other three trees are its `Q`, `R`, `Q+R` neighbours) -/
def edgeL (A : Nat) : Nat → Pt → List (Nat × Pt)
  | 0, t => [(A, t)]
  | d + 1, t =>
    edgeL A d (childAt d t (axBit (axQ A) ||| axBit (axR A))) ++
    edgeL A d (childAt d t (axBit (axQ A) ||| axBit (axR A) ||| axBit A))

/-- `face3W A` following only `ts[0]` (`ts[1]` is its `A` neighbour) -/
def faceL (A : Nat) : Nat → Pt → List (Nat × Pt)
  | 0, _ => []
  | d + 1, t =>
    let q := axBit (axQ A)
    let r := axBit (axR A)
    let a := axBit A
    ([0, q, r, q ||| r].flatMap fun k => faceL A d (childAt d t (k ||| a))) ++
    edgeL (axQ A) d (childAt d t a) ++ edgeL (axQ A) d (childAt d t (q ||| a)) ++
    edgeL (axR A) d (childAt d t a) ++ edgeL (axR A) d (childAt d t (r ||| a))

/-- `workW` as a list of `(axis, ts[0])` -/
def workL (d : Nat) (o : Pt) : List (Nat × Pt) :=
  ([0, 1, 2].flatMap fun A =>
    let q := axBit (axQ A)
    let r := axBit (axR A)
    faceL A d (childAt d o 0) ++ faceL A d (childAt d o q) ++ faceL A d (childAt d o r) ++
    faceL A d (childAt d o (q ||| r))) ++
  ([0, 1, 2].flatMap fun A => [0, axBit A].flatMap fun a => edgeL A d (childAt d o a))

/-- `dualW` as a list of `(axis, ts[0])` -/
def dualL : Nat → Pt → List (Nat × Pt)
  | 0, _ => []
  | d + 1, o => ((List.range 8).flatMap fun k => dualL d (childAt d o k)) ++ workL d o

/-- closes the sibling-arithmetic side goals (for a concrete axis) -/
syntax "pt_arith" : tactic
macro_rules
  | `(tactic| pt_arith) => `(tactic|
      (simp only [childAt, step, axBit, axQ, axR, Prod.mk.injEq, Nat.pow_succ, tsCell, addPt, unit,
        callTuple] <;> (try simp) <;> omega))

theorem edge3W_eq (A : Nat) (hA : A < 3) (d : Nat) (t0 t1 t2 t3 : Pt)
    (h1 : t1 = step (axQ A) (2 ^ d) t0) (h2 : t2 = step (axR A) (2 ^ d) t0)
    (h3 : t3 = step (axQ A) (2 ^ d) (step (axR A) (2 ^ d) t0)) :
    edge3W A d t0 t1 t2 t3 = (edgeL A d t0).map callTuple := by
  induction d generalizing t0 t1 t2 t3 with
  | zero =>
    subst h1 h2 h3
    interval_cases A <;> simp [edge3W, edgeL, callTuple, tsCell, step, addPt, unit, axQ, axR]
  | succ d ih =>
    subst h1 h2 h3
    simp only [edge3W, edgeL, List.map_append]
    congr 1 <;> apply ih <;> interval_cases A <;> pt_arith
theorem axQ_lt (A : Nat) : axQ A < 3 := by unfold axQ; split <;> omega
theorem axR_lt (A : Nat) : axR A < 3 := by unfold axR; split <;> omega

theorem face3W_eq (A : Nat) (hA : A < 3) (d : Nat) (t0 t1 : Pt) (h : t1 = step A (2 ^ d) t0) :
    face3W A d t0 t1 = (faceL A d t0).map callTuple := by
  induction d generalizing t0 t1 with
  | zero => simp [face3W, faceL]
  | succ d ih =>
    subst h
    simp only [face3W, faceL, List.flatMap_cons, List.flatMap_nil, List.append_nil, List.map_append]
    rw [ih _ _ ?_, ih _ _ ?_, ih _ _ ?_, ih _ _ ?_,
      edge3W_eq (axQ A) (axQ_lt A) d _ _ _ _ ?_ ?_ ?_,
      edge3W_eq (axQ A) (axQ_lt A) d _ _ _ _ ?_ ?_ ?_,
      edge3W_eq (axR A) (axR_lt A) d _ _ _ _ ?_ ?_ ?_,
      edge3W_eq (axR A) (axR_lt A) d _ _ _ _ ?_ ?_ ?_]
    all_goals interval_cases A <;> pt_arith

theorem workW_eq (d : Nat) (o : Pt) : workW d o = (workL d o).map callTuple := by
  simp only [workW, workL, List.flatMap_cons, List.flatMap_nil, List.append_nil, List.map_append]
  rw [face3W_eq 0 (by omega) d _ _ ?_, face3W_eq 0 (by omega) d _ _ ?_,
    face3W_eq 0 (by omega) d _ _ ?_, face3W_eq 0 (by omega) d _ _ ?_,
    face3W_eq 1 (by omega) d _ _ ?_, face3W_eq 1 (by omega) d _ _ ?_,
    face3W_eq 1 (by omega) d _ _ ?_, face3W_eq 1 (by omega) d _ _ ?_,
    face3W_eq 2 (by omega) d _ _ ?_, face3W_eq 2 (by omega) d _ _ ?_,
    face3W_eq 2 (by omega) d _ _ ?_, face3W_eq 2 (by omega) d _ _ ?_,
    edge3W_eq 0 (by omega) d _ _ _ _ ?_ ?_ ?_, edge3W_eq 0 (by omega) d _ _ _ _ ?_ ?_ ?_,
    edge3W_eq 1 (by omega) d _ _ _ _ ?_ ?_ ?_, edge3W_eq 1 (by omega) d _ _ _ _ ?_ ?_ ?_,
    edge3W_eq 2 (by omega) d _ _ _ _ ?_ ?_ ?_, edge3W_eq 2 (by omega) d _ _ _ _ ?_ ?_ ?_]
  all_goals pt_arith

theorem dualW_eq (d : Nat) (o : Pt) : dualW d o = (dualL d o).map callTuple := by
  induction d generalizing o with
  | zero => simp [dualW, dualL]
  | succ d ih =>
    simp only [dualW, dualL, List.map_append, List.map_flatMap, workW_eq, ih]

/-- `(B, c)` is one of the `n` calls along the common `A`-edge of the tree of side `n` at `t` and its
    `Q`, `R`, `Q+R` neighbours: `B = A`, `c` the last cell of `t` in `Q` and `R` -/
def onLine (A n : Nat) (t : Pt) (x : Nat × Pt) : Prop :=
  x.1 = A ∧ coord (axQ A) x.2 + 1 = coord (axQ A) t + n ∧ coord (axR A) x.2 + 1 = coord (axR A) t + n ∧
    coord A t ≤ coord A x.2 ∧ coord A x.2 < coord A t + n

/-- `(B, c)` is a call for a lattice edge in the interior of the face between the tree of side `n`
    at `t` and its `A` neighbour: `c` in the last `A`-layer of `t`; the edge runs along `Q` (then
    `ts[1] = c + R` must still be in `t`) or along `R` (then `ts[2] = c + Q` must be) -/
def inFace (A n : Nat) (t : Pt) (x : Nat × Pt) : Prop :=
  coord A x.2 + 1 = coord A t + n ∧ coord (axQ A) t ≤ coord (axQ A) x.2 ∧ coord (axR A) t ≤ coord (axR A) x.2 ∧
    ((x.1 = axQ A ∧ coord (axQ A) x.2 < coord (axQ A) t + n ∧ coord (axR A) x.2 + 1 < coord (axR A) t + n) ∨
     (x.1 = axR A ∧ coord (axQ A) x.2 + 1 < coord (axQ A) t + n ∧ coord (axR A) x.2 < coord (axR A) t + n))

/-- `(B, c)` is a call for an interior lattice edge of the block of `n × n × n` cells at `o`:
    `c = ts[0]` and `ts[3] = c + Q(B) + R(B)` are cells of the block -/
def inCube (n : Nat) (o : Pt) (x : Nat × Pt) : Prop :=
  o.1 ≤ x.2.1 ∧ o.2.1 ≤ x.2.2.1 ∧ o.2.2 ≤ x.2.2.2 ∧
    ((x.1 = 0 ∧ x.2.1 < o.1 + n ∧ x.2.2.1 + 1 < o.2.1 + n ∧ x.2.2.2 + 1 < o.2.2 + n) ∨
     (x.1 = 1 ∧ x.2.1 + 1 < o.1 + n ∧ x.2.2.1 < o.2.1 + n ∧ x.2.2.2 + 1 < o.2.2 + n) ∨
     (x.1 = 2 ∧ x.2.1 + 1 < o.1 + n ∧ x.2.2.1 + 1 < o.2.1 + n ∧ x.2.2.2 < o.2.2 + n))

theorem mem_edgeL (A : Nat) (hA : A < 3) (d : Nat) (t : Pt) (x : Nat × Pt) :
    x ∈ edgeL A d t ↔ onLine A (2 ^ d) t x := by
  induction d generalizing t with
  | zero =>
    obtain ⟨B, cx, cy, cz⟩ := x
    obtain ⟨tx, ty, tz⟩ := t
    interval_cases A <;>
      simp only [edgeL, List.mem_singleton, onLine, coord, axQ, axR, Prod.mk.injEq, Nat.pow_zero] <;>
      omega
  | succ d ih =>
    simp only [edgeL, List.mem_append, ih]
    interval_cases A <;>
      simp only [onLine, coord, axQ, axR, axBit, childAt, Nat.pow_succ] <;> simp <;> omega

syntax "norm_walk" : tactic
macro_rules
  | `(tactic| norm_walk) => `(tactic|
      simp only [inFace, onLine, inCube, coord, axQ, axR, axBit, childAt, Nat.pow_succ, Nat.reduceOr,
        Nat.reduceMod, Nat.reduceDiv, Nat.mul_zero, Nat.mul_one, Nat.add_zero, Nat.pow_zero,
        false_iff])


syntax "split_B " ident : tactic
macro_rules
  | `(tactic| split_B $B:ident) => `(tactic|
      (rcases Nat.lt_or_ge $B 3 with hB | hB <;>
        [(interval_cases $B <;>
          simp only [Nat.reduceEqDiff, true_and, false_and, or_false, false_or, and_false, and_true,
            OfNat.ofNat_ne_zero, OfNat.zero_ne_ofNat, zero_ne_one, one_ne_zero, Nat.reduceLT,
            Nat.lt_irrefl, Nat.reduceLeDiff]); skip]))

theorem mem_faceL (A : Nat) (hA : A < 3) (d : Nat) (t : Pt) (x : Nat × Pt) :
    x ∈ faceL A d t ↔ inFace A (2 ^ d) t x := by
  induction d generalizing t with
  | zero =>
    obtain ⟨B, cx, cy, cz⟩ := x
    obtain ⟨tx, ty, tz⟩ := t
    interval_cases A <;>
      simp only [faceL, List.not_mem_nil, inFace, coord, axQ, axR, Nat.pow_zero, false_iff] <;> omega
  | succ d ih =>
    obtain ⟨B, cx, cy, cz⟩ := x
    obtain ⟨tx, ty, tz⟩ := t
    simp only [faceL, List.mem_append, List.flatMap_cons, List.flatMap_nil, List.append_nil, ih,
      mem_edgeL _ (axQ_lt A), mem_edgeL _ (axR_lt A)]
    interval_cases A <;> norm_walk <;> split_B B <;> omega
syntax "pick_disj" : tactic
macro_rules
  | `(tactic| pick_disj) => `(tactic|
      first
      | (apply Or.inl; pick_disj)
      | (apply Or.inr; pick_disj)
      | (refine ⟨?_, ?_⟩ <;> omega))

theorem nodup_append' {α : Type} {l₁ l₂ : List α} (h1 : l₁.Nodup) (h2 : l₂.Nodup)
    (hd : ∀ c, c ∈ l₁ → c ∈ l₂ → False) : (l₁ ++ l₂).Nodup :=
  List.nodup_append.2 ⟨h1, h2, fun a ha _ hb hab => hd a ha (hab ▸ hb)⟩

theorem nodup_edgeL (A : Nat) (hA : A < 3) (d : Nat) (t : Pt) : (edgeL A d t).Nodup := by
  induction d generalizing t with
  | zero => simp [edgeL]
  | succ d ih =>
    refine nodup_append' (ih _) (ih _) fun x h1 h2 => ?_
    obtain ⟨B, cx, cy, cz⟩ := x
    obtain ⟨tx, ty, tz⟩ := t
    rw [mem_edgeL A hA] at h1 h2
    revert h1 h2
    interval_cases A <;> norm_walk <;> omega

theorem mem_workL (d : Nat) (o : Pt) (x : Nat × Pt) :
    x ∈ workL d o ↔ inCube (2 ^ (d + 1)) o x ∧
      ((x.1 ≠ 0 ∧ x.2.1 + 1 = o.1 + 2 ^ d) ∨ (x.1 ≠ 1 ∧ x.2.2.1 + 1 = o.2.1 + 2 ^ d) ∨
       (x.1 ≠ 2 ∧ x.2.2.2 + 1 = o.2.2 + 2 ^ d)) := by
  obtain ⟨B, cx, cy, cz⟩ := x
  obtain ⟨ox, oy, oz⟩ := o
  simp only [workL, List.mem_append, List.flatMap_cons, List.flatMap_nil, List.append_nil,
    mem_faceL 0 (by omega), mem_faceL 1 (by omega), mem_faceL 2 (by omega),
    mem_edgeL 0 (by omega), mem_edgeL 1 (by omega), mem_edgeL 2 (by omega)]
  norm_walk
  split_B B
  iterate 3
    · constructor
      · omega
      · intro h
        rcases Nat.lt_trichotomy (cx + 1) (ox + 2 ^ d) with hx | hx | hx <;>
        rcases Nat.lt_trichotomy (cy + 1) (oy + 2 ^ d) with hy | hy | hy <;>
        rcases Nat.lt_trichotomy (cz + 1) (oz + 2 ^ d) with hz | hz | hz <;> pick_disj
  · omega

theorem range8 : List.range 8 = [0, 1, 2, 3, 4, 5, 6, 7] := by decide


theorem mem_dualL (d : Nat) (o : Pt) (x : Nat × Pt) :
    x ∈ dualL d o ↔ inCube (2 ^ d) o x := by
  induction d generalizing o with
  | zero =>
    obtain ⟨B, cx, cy, cz⟩ := x
    obtain ⟨ox, oy, oz⟩ := o
    simp only [dualL, List.not_mem_nil]
    norm_walk
    omega
  | succ d ih =>
    obtain ⟨B, cx, cy, cz⟩ := x
    obtain ⟨ox, oy, oz⟩ := o
    simp only [dualL, range8, List.mem_append, List.flatMap_cons, List.flatMap_nil, List.append_nil,
      ih, mem_workL]
    norm_walk
    split_B B
    iterate 3
      · constructor
        · omega
        · intro h
          rcases Nat.lt_trichotomy (cx + 1) (ox + 2 ^ d) with hx | hx | hx <;>
          rcases Nat.lt_trichotomy (cy + 1) (oy + 2 ^ d) with hy | hy | hy <;>
          rcases Nat.lt_trichotomy (cz + 1) (oz + 2 ^ d) with hz | hz | hz <;> pick_disj
    · omega
syntax "close_disj" : tactic
macro_rules
  | `(tactic| close_disj) => `(tactic| (intro h1 h2; first | contradiction | omega))

theorem nodup_faceL (A : Nat) (hA : A < 3) (d : Nat) (t : Pt) : (faceL A d t).Nodup := by
  induction d generalizing t with
  | zero => simp [faceL]
  | succ d ih =>
    simp only [faceL, List.flatMap_cons, List.flatMap_nil, List.append_nil]
    repeat' apply nodup_append'
    all_goals first
      | exact ih _
      | exact nodup_edgeL _ (axQ_lt A) _ _
      | exact nodup_edgeL _ (axR_lt A) _ _
      | skip
    all_goals
      intro x h1 h2
      obtain ⟨B, cx, cy, cz⟩ := x
      obtain ⟨tx, ty, tz⟩ := t
      simp only [List.mem_append, mem_faceL A hA, mem_edgeL _ (axQ_lt A),
        mem_edgeL _ (axR_lt A)] at h1 h2
      revert h1 h2
      interval_cases A <;> norm_walk <;> split_B B <;> close_disj


theorem nodup_workL (d : Nat) (o : Pt) : (workL d o).Nodup := by
  simp only [workL, List.flatMap_cons, List.flatMap_nil, List.append_nil]
  repeat' apply nodup_append'
  all_goals first
    | exact nodup_edgeL _ (by omega) _ _
    | exact nodup_faceL _ (by omega) _ _
    | skip
  all_goals
    intro x h1 h2
    obtain ⟨B, cx, cy, cz⟩ := x
    obtain ⟨ox, oy, oz⟩ := o
    simp only [List.mem_append, mem_faceL 0 (by omega), mem_faceL 1 (by omega),
      mem_faceL 2 (by omega), mem_edgeL 0 (by omega), mem_edgeL 1 (by omega),
      mem_edgeL 2 (by omega)] at h1 h2
    revert h1 h2
    norm_walk
    split_B B <;> close_disj


theorem nodup_dualL (d : Nat) (o : Pt) : (dualL d o).Nodup := by
  induction d generalizing o with
  | zero => simp [dualL]
  | succ d ih =>
    simp only [dualL, range8, List.flatMap_cons, List.flatMap_nil, List.append_nil]
    refine nodup_append' ?_ (nodup_workL _ _) ?_
    · repeat' apply nodup_append'
      all_goals first
        | exact ih _
        | skip
      all_goals
        intro x h1 h2
        obtain ⟨B, cx, cy, cz⟩ := x
        obtain ⟨ox, oy, oz⟩ := o
        simp only [List.mem_append, mem_dualL] at h1 h2
        revert h1 h2
        norm_walk
        split_B B <;> close_disj
    · intro x h1 h2
      obtain ⟨B, cx, cy, cz⟩ := x
      obtain ⟨ox, oy, oz⟩ := o
      simp only [List.mem_append, mem_dualL, mem_workL] at h1 h2
      revert h1 h2
      norm_walk
      split_B B <;> close_disj
theorem nodup_cells (n1 n2 n3 : Nat) : (cells n1 n2 n3).Nodup := by
  unfold cells
  rw [List.nodup_flatMap]
  refine ⟨fun i _ => ?_, List.nodup_range.imp fun {a b} hab => ?_⟩
  · rw [List.nodup_flatMap]
    refine ⟨fun j _ => ?_, List.nodup_range.imp fun {a b} hab => ?_⟩
    · exact List.Nodup.map (fun a b h => by simpa using h) List.nodup_range
    · intro x hx hy
      simp only [List.mem_map, List.mem_range] at hx hy
      obtain ⟨_, _, rfl⟩ := hx
      obtain ⟨_, _, h⟩ := hy
      simp only [Prod.mk.injEq] at h
      exact hab h.2.1.symm
  · intro x hx hy
    simp only [List.mem_flatMap, List.mem_map, List.mem_range] at hx hy
    obtain ⟨_, _, _, _, rfl⟩ := hx
    obtain ⟨_, _, _, _, h⟩ := hy
    simp only [Prod.mk.injEq] at h
    exact hab h.1.symm

theorem nodup_calls (n1 n2 n3 : Nat) : (calls n1 n2 n3).Nodup := by
  unfold calls
  rw [List.nodup_flatMap]
  refine ⟨fun A _ => ?_, ?_⟩
  · exact List.Nodup.map (fun a b h => by simpa using h) ((nodup_cells n1 n2 n3).filter _)
  · have : ([0, 1, 2] : List Nat).Nodup := by decide
    refine this.imp fun {a b} hab x hx hy => ?_
    simp only [List.mem_map] at hx hy
    obtain ⟨_, _, rfl⟩ := hx
    obtain ⟨_, _, h⟩ := hy
    simp only [Prod.mk.injEq] at h
    exact hab h.1.symm

theorem mem_calls_cube (n : Nat) (x : Nat × Pt) : x ∈ calls n n n ↔ inCube n (0, 0, 0) x := by
  obtain ⟨B, cx, cy, cz⟩ := x
  simp only [calls, List.mem_flatMap, List.mem_map, List.mem_filter, mem_cells, List.mem_cons,
    List.not_mem_nil, or_false, Prod.mk.injEq, inGrid, Bool.and_eq_true, decide_eq_true_eq]
  constructor
  · rintro ⟨A, hA, c, ⟨hc, hc3⟩, rfl, rfl⟩
    rcases hA with rfl | rfl | rfl <;>
      simp only [tsCell, addPt, unit, axQ, axR, inCube, true_and] at hc hc3 ⊢ <;> omega
  · intro h
    simp only [inCube] at h
    refine ⟨B, by omega, (cx, cy, cz), ?_, rfl, rfl⟩
    rcases h with ⟨_, _, _, ⟨rfl, h⟩ | ⟨rfl, h⟩ | ⟨rfl, h⟩⟩ <;>
      simp only [tsCell, addPt, unit, axQ, axR] <;> omega

theorem dualL_perm (d : Nat) : (dualL d (0, 0, 0)).Perm (calls (2 ^ d) (2 ^ d) (2 ^ d)) :=
  (List.perm_ext_iff_of_nodup (nodup_dualL d _) (nodup_calls _ _ _)).2 fun x => by
    rw [mem_dualL, mem_calls_cube]

theorem dualW_perm (d : Nat) :
    (dualW d (0, 0, 0)).Perm ((calls (2 ^ d) (2 ^ d) (2 ^ d)).map callTuple) := by
  rw [dualW_eq]
  exact (dualL_perm d).map callTuple


/-! ### closed form of `edge3` (order included), membership / duplicate-freeness of the walks -/

/-- the calls of `edge3<A>` in order: the `2^d` unit edges of the line, low to high -/
theorem edgeL_eq (A : Nat) (hA : A < 3) (d : Nat) (t : Pt) :
    edgeL A d t = (List.range (2 ^ d)).map fun k =>
      (A, step A k (step (axQ A) (2 ^ d - 1) (step (axR A) (2 ^ d - 1) t))) := by
  induction d generalizing t with
  | zero =>
    obtain ⟨tx, ty, tz⟩ := t
    interval_cases A <;> simp [edgeL, step, axQ, axR]
  | succ d ih =>
    have hp := Nat.two_pow_pos d
    obtain ⟨tx, ty, tz⟩ := t
    rw [Nat.pow_succ, Nat.mul_two, List.range_add, List.map_append, List.map_map]
    simp only [edgeL, ih]
    congr 1 <;> apply List.map_congr_left <;> intro k _ <;> interval_cases A <;>
      simp only [Function.comp, childAt, step, axBit, axQ, axR, Prod.mk.injEq, Nat.reduceOr,
        Nat.reduceMod, Nat.reduceDiv, Nat.mul_zero, Nat.mul_one, Nat.add_zero, true_and, and_true] <;>
      omega

theorem callTuple_injective : Function.Injective callTuple := by
  intro x y h
  obtain ⟨A, c⟩ := x
  obtain ⟨B, c'⟩ := y
  simp only [callTuple, tsCell, Prod.mk.injEq] at h
  rw [h.1, h.2.1]

theorem mem_map_callTuple {l : List (Nat × Pt)} {P : Nat × Pt → Prop} (h : ∀ y, y ∈ l ↔ P y)
    (x : Call4) : x ∈ l.map callTuple ↔ ∃ y, P y ∧ x = callTuple y := by
  simp only [List.mem_map, h]
  exact ⟨fun ⟨y, hy, e⟩ => ⟨y, hy, e.symm⟩, fun ⟨y, hy, e⟩ => ⟨y, hy, e.symm⟩⟩

/-! ### the triangle list in the walk's order -/

/-- the triangles pushed by `load<A>(ts)` for the four cells the walk passes (`emit` with the cells
    taken from the recorded call instead of being recomputed from `ts[0]`) -/
def emitCall (n1 n2 : Nat) (s : Pt → Bool) (alt : Nat → Pt → Bool) (x : Call4) : List (Tri Vid) :=
  match load x.1 (cellMask s x.2.1) (cellMask s x.2.2.1) (cellMask s x.2.2.2.1)
      (cellMask s x.2.2.2.2) with
  | none => []
  | some (d, p0, p1, p2, p3) =>
    dcQuad (vid n1 n2 (x.2.1, p0)) (vid n1 n2 (x.2.2.1, p1)) (vid n1 n2 (x.2.2.2.1, p2))
      (vid n1 n2 (x.2.2.2.2, p3)) d (alt x.1 x.2.1)

theorem emitCall_callTuple (n1 n2 : Nat) (s : Pt → Bool) (alt : Nat → Pt → Bool) (x : Nat × Pt) :
    emitCall n1 n2 s alt (callTuple x) = emit n1 n2 s alt x.1 x.2 := rfl

/-- **the triangle list of the DC mesher in the order of the recursive walk** on the complete
    octree of depth `d` -/
def walkTris (d : Nat) (s : Pt → Bool) (alt : Nat → Pt → Bool) : List (Tri Vid) :=
  (dualW d (0, 0, 0)).flatMap (emitCall (2 ^ d) (2 ^ d) s alt)

theorem walkTris_perm (d : Nat) (s : Pt → Bool) (alt : Nat → Pt → Bool) :
    (walkTris d s alt).Perm (gridTris (2 ^ d) (2 ^ d) (2 ^ d) s alt) := by
  unfold walkTris gridTris
  refine ((dualW_perm d).flatMap_right _).trans ?_
  rw [List.flatMap_map]
  exact List.Perm.of_eq (List.flatMap_congr fun x _ => emitCall_callTuple _ _ s alt x)

theorem walkTris_closed (d : Nat) (s : Pt → Bool) (alt : Nat → Pt → Bool)
    (hb : BoundaryUniform (2 ^ d) (2 ^ d) (2 ^ d) s) (e : Edge Vid) :
    (dirEdges (walkTris d s alt)).count e = (dirEdges (walkTris d s alt)).count (rev e) := by
  have hp : (dirEdges (walkTris d s alt)).Perm (dirEdges (gridTris (2 ^ d) (2 ^ d) (2 ^ d) s alt)) :=
    (walkTris_perm d s alt).flatMap_right _
  rw [hp.count_eq, hp.count_eq]
  exact gridTris_closed _ _ _ s alt hb e

/-- `inCube` spelled out: the axis is one of the three, and `ts[0] = c` and `ts[3]` (hence all
    four cells) are cells of the block of `n × n × n` cells at `o` -/
theorem inCube_iff (n : Nat) (o : Pt) (A : Nat) (c : Pt) :
    inCube n o (A, c) ↔ A < 3 ∧ o.1 ≤ c.1 ∧ o.2.1 ≤ c.2.1 ∧ o.2.2 ≤ c.2.2 ∧
      (tsCell A c 3).1 < o.1 + n ∧ (tsCell A c 3).2.1 < o.2.1 + n ∧
      (tsCell A c 3).2.2 < o.2.2 + n := by
  obtain ⟨cx, cy, cz⟩ := c
  obtain ⟨ox, oy, oz⟩ := o
  simp only [inCube]
  constructor
  · rintro ⟨h1, h2, h3, ⟨rfl, h⟩ | ⟨rfl, h⟩ | ⟨rfl, h⟩⟩ <;>
      simp only [tsCell, addPt, unit, axQ, axR] <;> omega
  · rintro ⟨hA, h⟩
    interval_cases A <;> simp only [tsCell, addPt, unit, axQ, axR] at h <;> omega

/-- the mid-plane condition of `mem_workL` -/
def onMidPlane (d : Nat) (o : Pt) (x : Nat × Pt) : Prop :=
  (x.1 ≠ 0 ∧ x.2.1 + 1 = o.1 + 2 ^ d) ∨ (x.1 ≠ 1 ∧ x.2.2.1 + 1 = o.2.1 + 2 ^ d) ∨
    (x.1 ≠ 2 ∧ x.2.2.2 + 1 = o.2.2 + 2 ^ d)

end Libfive.DCGrid.Walk
