/-
  Tick accounting for the worker-pool model (join of C11 and C20).
    * `dueOf` / `due` — the ticks still owed by every created cell, as a function of the place the
      cell-ownership invariant `Own` (LibfiveProofs/PoolProgress.lean) assigns to it
    * `due_step` — every accepted step moves exactly `tickOf` from `due` to the counter
    * `due_run`, `due_init`, `due_of_all_finished` — hence `ticks issued + due = announced N L`
      in every reachable state, and `due = 0` when the render is complete
-/
import LibfiveModel.PoolTicks
import LibfiveProofs.PoolProgress
import LibfiveProofs.Progress

set_option linter.unusedSimpArgs false
set_option linter.unusedVariables false

namespace Libfive.Pool
open Libfive.Progress

/-! ## `n` is a constant of the run -/

theorem step_n {s s' : S} {e : Ev} (h : step s e = some s') : s'.n = s.n := by
  cases e with
  | cancel => simp only [step, Option.some.injEq] at h; subst h; rfl
  | loop w => obtain ⟨_, _, _, rfl⟩ := step_loop_inv h; rfl
  | noTask w => obtain ⟨_, rfl⟩ := step_noTask_inv h; rfl
  | exitLoop w => obtain ⟨_, _, rfl⟩ := step_exitLoop_inv h; rfl
  | pop w c =>
    obtain ⟨_, hcase⟩ := step_pop_inv h
    rcases hcase with ⟨_, _, _, rfl⟩ | ⟨_, rfl⟩ <;> rfl
  | push w child tl => obtain ⟨_, _, _, _, _, rfl⟩ := step_push_inv h; rfl
  | evalDone w k =>
    obtain ⟨_, _, _, hcase⟩ := step_evalDone_inv h
    rcases hcase with ⟨_, _, _, rfl⟩ | ⟨_, rfl⟩ <;> rfl
  | collect w last => obtain ⟨_, _, _, _, _, rfl⟩ := step_collect_inv h; rfl
  | exitRoot w => obtain ⟨_, _, _, rfl⟩ := step_exitRoot_inv h; rfl

theorem run_n (tr : List Ev) (s s' : S) (h : run s tr = some s') : s'.n = s.n := by
  induction tr generalizing s with
  | nil => simp [run] at h; subst h; rfl
  | cons e es ih =>
    simp only [run] at h
    split at h
    · rename_i s1 h1; rw [ih s1 h, step_n h1]
    · simp at h

/-! ## the ticks a cell still owes -/

/-- Ticks still to be issued on behalf of a cell of level `l` that has pushed `k` of its `n`
    children, by place:
    * not yet evaluated (`queued`, `eval`): the whole sub-tree it stands for, `announced N l`
      — whatever shape the evaluation will choose;
    * `split`: its own `collectChildren` tick, plus a whole sub-tree per child not yet pushed
      (the pushed children carry their own debt);
    * `waiting`: its own `collectChildren` tick;
    * complete (`asc`, `finished`) or not created: nothing. -/
def dueOf (N n l k : Nat) : Place → Nat
  | .queued => announced N l
  | .eval _ => announced N l
  | .split _ => 1 + (n - k) * announced N (l - 1)
  | .waiting => 1
  | _ => 0

def dueL (N n : Nat) (level kids : Nat → Nat) (own : Nat → Place) (cr : List Nat) : Nat :=
  (cr.map (fun c => dueOf N n (level c) (kids c) (own c))).sum

/-- the ticks the render still owes in state `s` (with ghost `own`) -/
def due (N : Nat) (s : S) (own : Nat → Place) : Nat :=
  dueL N s.n s.level s.kids own s.created

theorem dueL_upd {N n : Nat} {level kids : Nat → Nat} {cr : List Nat} (hnd : cr.Nodup) {c : Nat}
    (hc : c ∈ cr) (own : Nat → Place) (pl : Place) :
    dueL N n level kids (upd own c pl) cr + dueOf N n (level c) (kids c) (own c) =
      dueL N n level kids own cr + dueOf N n (level c) (kids c) pl := by
  have := sum_map_update cr hnd c hc (fun x => dueOf N n (level x) (kids x) (own x))
    (fun x => dueOf N n (level x) (kids x) (upd own c pl x))
    (by intro x _ hx; simp [upd, hx])
  simpa [dueL, upd] using this

theorem dueL_upd' {N n : Nat} {level kids : Nat → Nat} {cr : List Nat} (hnd : cr.Nodup) {c : Nat}
    (hc : c ∈ cr) (own : Nat → Place) (pl : Place) (a b : Nat)
    (ha : dueOf N n (level c) (kids c) (own c) = a) (hb : dueOf N n (level c) (kids c) pl = b) :
    dueL N n level kids (upd own c pl) cr + a = dueL N n level kids own cr + b := by
  rw [← ha, ← hb]; exact dueL_upd hnd hc own pl

theorem due_init (N n cap L : Nat) : due N (S.init n cap L) own0 = announced N L := by
  simp [due, dueL, S.init, own0, dueOf]

theorem due_of_all_finished (N : Nat) (s : S) (own : Nat → Place)
    (h : ∀ c ∈ s.created, own c = .finished) : due N s own = 0 := by
  unfold due dueL
  have : ∀ (cr : List Nat), (∀ c ∈ cr, own c = .finished) →
      (cr.map (fun c => dueOf N s.n (s.level c) (s.kids c) (own c))).sum = 0 := by
    intro cr hcr
    induction cr with
    | nil => rfl
    | cons a t ih =>
      simp only [List.map_cons, List.sum_cons]
      rw [hcr a (List.mem_cons_self ..), ih (fun c hc => hcr c (List.mem_cons_of_mem _ hc))]
      rfl
  exact this _ h

/-! ## one step -/

theorem tickOf_evalDone_ne_amb (N : Nat) (s : S) (w c : Nat) (k : Kind) (ha : s.act w = .eval c)
    (hk : k ≠ .amb) : tickOf N s (.evalDone w k) = announced N (s.level c) := by
  cases k with
  | amb => exact absurd rfl hk
  | term =>
    simp only [tickOf, ha]
    split
    · rfl
    · rename_i h; have : s.level c = 0 := by omega
      rw [this]; rfl
  | leaf =>
    simp only [tickOf, ha]
    split
    · rfl
    · rename_i h; have : s.level c = 0 := by omega
      rw [this]; rfl

section
variable {W L N : Nat} {s : S} {own : Nat → Place}

theorem due_push (hi : Own W L s own) (w c child : Nat) (tl : Bool)
    (ha : s.act w = .split c) (hf : child ∉ s.created) (hl : 0 < s.level c) (hk : s.kids c < s.n) :
    due N (pushed s w c child tl)
      (upd (upd own child .queued) c (if s.kids c + 1 = s.n then .waiting else .split w)) =
    due N s own := by
  have hoc : own c = .split w := (hi.f_split w c).2 ha
  have hcc : c ∈ s.created := hi.mem_created (by simp [hoc])
  have hne : child ≠ c := fun e => hf (e ▸ hcc)
  have hnd := hi.created_nodup
  simp only [due, pushed, dueL, List.map_cons, List.sum_cons]
  -- the new child: queued, one level down
  have hchild : dueOf N s.n (upd s.level child (s.level c - 1) child)
      (upd (upd s.kids c (s.kids c + 1)) child 0 child)
      (upd (upd own child .queued) c (if s.kids c + 1 = s.n then .waiting else .split w) child) =
      announced N (s.level c - 1) := by
    simp [upd, hne, dueOf]
  rw [hchild]
  -- the old cells: only `c` changes
  have hrest := sum_map_update s.created hnd c hcc
    (fun x => dueOf N s.n (s.level x) (s.kids x) (own x))
    (fun x => dueOf N s.n (upd s.level child (s.level c - 1) x)
      (upd (upd s.kids c (s.kids c + 1)) child 0 x)
      (upd (upd own child .queued) c (if s.kids c + 1 = s.n then .waiting else .split w) x))
    (by
      intro x hx hxc
      have hxf : x ≠ child := fun e => hf (e ▸ hx)
      simp [upd, hxf, hxc])
  have hold : dueOf N s.n (s.level c) (s.kids c) (own c) =
      1 + (s.n - s.kids c) * announced N (s.level c - 1) := by rw [hoc]; rfl
  have hnew : dueOf N s.n (upd s.level child (s.level c - 1) c)
      (upd (upd s.kids c (s.kids c + 1)) child 0 c)
      (upd (upd own child .queued) c (if s.kids c + 1 = s.n then .waiting else .split w) c) =
      1 + (s.n - (s.kids c + 1)) * announced N (s.level c - 1) := by
    by_cases hlast : s.kids c + 1 = s.n
    · have : s.n - (s.kids c + 1) = 0 := by omega
      simp [upd, hne.symm, hlast, dueOf]
    · simp [upd, hne.symm, hlast, dueOf]
  rw [hold, hnew] at hrest
  have h1 : s.n - s.kids c = (s.n - (s.kids c + 1)) + 1 := by omega
  rw [h1, Nat.add_mul, Nat.one_mul] at hrest
  omega

/-- **every accepted step moves exactly its tick from the debt to the counter** -/
theorem due_step (hi : Own W L s own) (hn : s.n = 2 ^ N) (e : Ev) (s' : S)
    (h : step s e = some s') :
    tickOf N s e + due N s' (gown s own e) = due N s own := by
  have hnd := hi.created_nodup
  cases e with
  | cancel =>
    simp only [step, Option.some.injEq] at h; subst h
    simp [tickOf, gown, due]
  | loop w =>
    obtain ⟨_, _, _, rfl⟩ := step_loop_inv h
    simp [tickOf, gown, due]
  | noTask w =>
    obtain ⟨_, rfl⟩ := step_noTask_inv h
    simp [tickOf, gown, due]
  | exitLoop w =>
    obtain ⟨_, _, rfl⟩ := step_exitLoop_inv h
    simp [tickOf, gown, due]
  | pop w c =>
    obtain ⟨ha, hcase⟩ := step_pop_inv h
    have hcq : c ∈ s.queued := by
      rcases hcase with ⟨e, he, hec, _⟩ | ⟨hcb, _⟩
      · simp only [S.queued, List.mem_append, List.mem_map]; exact Or.inr ⟨e, he, hec⟩
      · simp only [S.queued, List.mem_append]; exact Or.inl hcb
    have hoc := hi.queued_place hcq
    have hst := dueL_upd' (N := N) (n := s.n) (level := s.level) (kids := s.kids) hnd
      (hi.queued_created hcq) own (.eval w) (announced N (s.level c)) (announced N (s.level c))
      (by rw [hoc]; rfl) rfl
    rcases hcase with ⟨e, he, hec, rfl⟩ | ⟨hcb, rfl⟩ <;>
      · simp only [tickOf, gown, due]
        omega
  | push w child tl =>
    obtain ⟨c, ha, hf, hl, hk, rfl⟩ := step_push_inv h
    simp only [tickOf, gown, ha, Nat.zero_add]
    exact due_push hi w c child tl ha hf hl hk
  | evalDone w k =>
    obtain ⟨c, ha, hk0, hcase⟩ := step_evalDone_inv h
    have hoc : own c = .eval w := (hi.f_eval w c).2 ha
    have hcc : c ∈ s.created := hi.mem_created (by simp [hoc])
    rcases hcase with ⟨rfl, hl, hnpos, rfl⟩ | ⟨hk, rfl⟩
    · obtain ⟨l', hl'⟩ : ∃ l', s.level c = l' + 1 := ⟨s.level c - 1, by omega⟩
      have hst := dueL_upd' (N := N) (n := s.n) (level := s.level) (kids := s.kids) hnd hcc own
        (.split w) (announced N (l' + 1)) (1 + 2 ^ N * announced N l')
        (by rw [hoc, hl']; rfl)
        (by simp [dueOf, hk0, hl', hn])
      rw [announced_succ] at hst
      simp only [tickOf, gown, ha, due, Nat.zero_add]
      omega
    · have hg : gown s own (.evalDone w k) = upd own c (.asc w) := by
        cases k <;> simp_all [gown]
      have hst := dueL_upd' (N := N) (n := s.n) (level := s.level) (kids := s.kids) hnd hcc own
        (.asc w) (announced N (s.level c)) 0 (by rw [hoc]; rfl) rfl
      rw [tickOf_evalDone_ne_amb N s w c k ha hk, hg]
      simp only [due]
      omega
  | collect w last =>
    obtain ⟨c, p, ha, hp, hlast, rfl⟩ := step_collect_inv h
    obtain ⟨hoc, hcc, hpc, hlv, hne, hb, hpos, hz⟩ := hi.ascend_facts ha hp
    have hst := dueL_upd' (N := N) (n := s.n) (level := s.level) (kids := s.kids) hnd hcc own
      .finished 0 0 (by rw [hoc]; rfl) rfl
    cases last with
    | false =>
      simp only [tickOf, gown, ha, hp, due, Bool.false_eq_true, if_false]
      omega
    | true =>
      have h0 : s.pending p = 0 := by simpa using hlast
      obtain ⟨hop, _⟩ := hz h0
      have hst2 := dueL_upd' (N := N) (n := s.n) (level := s.level) (kids := s.kids) hnd hpc
        (upd own c .finished) (.asc w) 1 0 (by simp [upd, hne.symm, hop, dueOf]) rfl
      simp only [tickOf, gown, ha, hp, due, if_true]
      omega
  | exitRoot w =>
    obtain ⟨c, ha, hp, rfl⟩ := step_exitRoot_inv h
    have hoc : own c = .asc w := (hi.f_asc w c).2 ha
    have hcc : c ∈ s.created := hi.mem_created (by simp [hoc])
    have hst := dueL_upd' (N := N) (n := s.n) (level := s.level) (kids := s.kids) hnd hcc own
      .finished 0 0 (by rw [hoc]; rfl) rfl
    simp only [tickOf, gown, ha, due]
    omega

end

/-! ## runs -/

/-- **the tick-accounting invariant along a run**: ticks issued + ticks owed is conserved -/
theorem due_run {W L N : Nat} (tr : List Ev) (s s' : S) (own : Nat → Place) (hi : Own W L s own)
    (hn : s.n = 2 ^ N) (hw : workersBelow W tr) (h : run s tr = some s') :
    ticksIssued N s tr + due N s' (grun s own tr) = due N s own := by
  induction tr generalizing s own with
  | nil => simp [run] at h; subst h; simp [ticksIssued, grun]
  | cons e es ih =>
    simp only [run] at h
    split at h
    · rename_i s1 h1
      have hwe := Ev.below_spec (hw e (List.mem_cons_self ..))
      have h2 := ih s1 _ (own_step hi e s1 h1 hwe) (by rw [step_n h1]; exact hn)
        (fun e' he' => hw e' (List.mem_cons_of_mem _ he')) h
      have h3 := due_step (N := N) hi hn e s1 h1
      simp only [ticksIssued, grun, h1]
      omega
    · simp at h

theorem ticksIssued_append (N : Nat) (s : S) (t1 t2 : List Ev) (s1 : S) (h : run s t1 = some s1) :
    ticksIssued N s (t1 ++ t2) = ticksIssued N s t1 + ticksIssued N s1 t2 := by
  induction t1 generalizing s with
  | nil => simp [run] at h; subst h; simp [ticksIssued]
  | cons e es ih =>
    simp only [run] at h
    split at h
    · rename_i s2 h2
      simp only [List.cons_append, ticksIssued, h2, ih s2 h]
      omega
    · simp at h

theorem tickCalls_sum (N : Nat) (s : S) (tr : List Ev) :
    (tickCalls N s tr).sum = ticksIssued N s tr := by
  induction tr generalizing s with
  | nil => rfl
  | cons e es ih =>
    simp only [tickCalls, ticksIssued]
    split
    · rename_i s1 h1
      split
      · rename_i h0; rw [ih, h0]; omega
      · simp only [List.sum_cons, ih]
    · rfl

theorem tickCalls_pos (N : Nat) (s : S) (tr : List Ev) : ∀ i ∈ tickCalls N s tr, 0 < i := by
  induction tr generalizing s with
  | nil => intro i hi; simp [tickCalls] at hi
  | cons e es ih =>
    intro i hi
    simp only [tickCalls] at hi
    split at hi
    · rename_i s1 h1
      split at hi
      · exact ih s1 i hi
      · rename_i h0
        rcases List.mem_cons.1 hi with rfl | hi
        · omega
        · exact ih s1 i hi
    · simp at hi

end Libfive.Pool
