/-
  Helper lemmas for C06: the real-number instance of the derivative-kernel model and the
  per-opcode chain-rule lemmas (Mathlib analysis).
-/
import Mathlib.Analysis.SpecialFunctions.Trigonometric.Deriv
import Mathlib.Analysis.SpecialFunctions.Trigonometric.ArctanDeriv
import Mathlib.Analysis.SpecialFunctions.Trigonometric.InverseDeriv
import Mathlib.Analysis.SpecialFunctions.Sqrt
import Mathlib.Analysis.SpecialFunctions.ExpDeriv
import Mathlib.Analysis.SpecialFunctions.Log.Deriv
import Mathlib.Analysis.SpecialFunctions.Pow.Deriv
import Mathlib.Analysis.Calculus.Deriv.ZPow
import LibfiveModel.Deriv

open Libfive
open scoped Topology

namespace Libfive.DerivR

/-- `fmodf(b, 2) == 1` over the reals: `b` is an odd natural number -/
noncomputable def oddIntR (b : ℝ) : Bool :=
  @decide (∃ k : ℕ, b = 2 * (k : ℝ) + 1) (Classical.propDecidable _)

theorem oddIntR_true {b : ℝ} (h : ∃ k : ℕ, b = 2 * (k : ℝ) + 1) : oddIntR b = true := by
  unfold oddIntR
  exact @decide_eq_true _ (Classical.propDecidable _) h

/-- the kernel operations over the reals (`pow` is `Real.rpow`) -/
noncomputable def RO : DOps ℝ where
  zero := 0
  one := 1
  two := 2
  add := fun a b => a + b
  sub := fun a b => a - b
  mul := fun a b => a * b
  div := fun a b => a / b
  neg := fun a => -a
  sqrt := Real.sqrt
  sin := Real.sin
  cos := Real.cos
  exp := Real.exp
  pow := fun a b => a ^ b
  lt := fun a b => decide (a < b)
  isZero := fun a => decide (a = 0)
  isNaN := fun _ => false
  oddInt := oddIntR

/-- `atan2 y x` on all four quadrants (value `π` on the branch cut `y = 0, x ≤ 0`) -/
noncomputable def atan2R (y x : ℝ) : ℝ :=
  if 0 < x then Real.arctan (y / x)
  else if 0 < y then Real.pi / 2 - Real.arctan (x / y)
  else if y < 0 then -(Real.pi / 2) - Real.arctan (x / y)
  else Real.pi

/-- the function each opcode denotes over the reals (`ArrayEvaluator::operator()` read as
    mathematics: `mod` is Python's, `nth-root` is the real odd root for negative bases) -/
noncomputable def evR : Op → ℝ → ℝ → ℝ
  | .add, a, b => a + b
  | .mul, a, b => a * b
  | .min, a, b => min a b
  | .max, a, b => max a b
  | .sub, a, b => a - b
  | .div, a, b => a / b
  | .atan2, a, b => atan2R a b
  | .pow, a, b => a ^ b
  | .nthRoot, a, b => if 0 ≤ a then a ^ (1 / b) else -((-a) ^ (1 / b))
  | .mod, a, b => a - b * (⌊a / b⌋ : ℝ)
  | .nanfill, a, _ => a
  | .compare, a, b => if a < b then -1 else if b < a then 1 else 0
  | .square, a, _ => a * a
  | .sqrt, a, _ => Real.sqrt a
  | .neg, a, _ => -a
  | .sin, a, _ => Real.sin a
  | .cos, a, _ => Real.cos a
  | .tan, a, _ => Real.tan a
  | .asin, a, _ => Real.arcsin a
  | .acos, a, _ => Real.arccos a
  | .atan, a, _ => Real.arctan a
  | .exp, a, _ => Real.exp a
  | .log, a, _ => Real.log a
  | .abs, a, _ => |a|
  | .recip, a, _ => 1 / a
  | .constVar, a, _ => a
  | _, a, _ => a

variable {a b : ℝ → ℝ} {a' b' t : ℝ}

/-- a function that is eventually equal to one with a derivative has that derivative -/
theorem of_eventuallyEq {f g : ℝ → ℝ} {g' : ℝ} (hg : HasDerivAt g g' t) (h : ∀ᶠ s in 𝓝 t, f s = g s) :
    HasDerivAt f g' t := hg.congr_of_eventuallyEq h

theorem ev_lt (ha : HasDerivAt a a' t) (hb : HasDerivAt b b' t) (h : a t < b t) :
    ∀ᶠ s in 𝓝 t, a s < b s := ha.continuousAt.eventually_lt hb.continuousAt h

theorem ev_pos (ha : HasDerivAt a a' t) (h : 0 < a t) : ∀ᶠ s in 𝓝 t, 0 < a s :=
  continuousAt_const.eventually_lt ha.continuousAt h

theorem ev_neg (ha : HasDerivAt a a' t) (h : a t < 0) : ∀ᶠ s in 𝓝 t, a s < 0 :=
  ha.continuousAt.eventually_lt continuousAt_const h

/-! ### arithmetic -/

theorem k_add (cv : Bool) (ov : ℝ) (ha : HasDerivAt a a' t) (hb : HasDerivAt b b' t) :
    HasDerivAt (fun s => evR .add (a s) (b s)) (dk RO cv .add (a t) (b t) ov a' b') t := by
  simp only [dk, RO, evR]
  exact ha.add hb

theorem k_sub (cv : Bool) (ov : ℝ) (ha : HasDerivAt a a' t) (hb : HasDerivAt b b' t) :
    HasDerivAt (fun s => evR .sub (a s) (b s)) (dk RO cv .sub (a t) (b t) ov a' b') t := by
  simp only [dk, RO, evR]
  exact ha.sub hb

theorem k_mul (cv : Bool) (ov : ℝ) (ha : HasDerivAt a a' t) (hb : HasDerivAt b b' t) :
    HasDerivAt (fun s => evR .mul (a s) (b s)) (dk RO cv .mul (a t) (b t) ov a' b') t := by
  have h := ha.mul hb
  simp only [dk, RO, evR]
  exact h.congr_deriv (by ring)

theorem k_div (cv : Bool) (ov : ℝ) (ha : HasDerivAt a a' t) (hb : HasDerivAt b b' t) (h0 : b t ≠ 0) :
    HasDerivAt (fun s => evR .div (a s) (b s)) (dk RO cv .div (a t) (b t) ov a' b') t := by
  have h := ha.div hb h0
  simp only [dk, RO, evR, Real.rpow_two]
  exact h.congr_deriv (by ring)

theorem k_neg (cv : Bool) (ov : ℝ) (ha : HasDerivAt a a' t) :
    HasDerivAt (fun s => evR .neg (a s) (b s)) (dk RO cv .neg (a t) (b t) ov a' b') t := by
  simp only [dk, RO, evR]
  exact ha.neg

theorem k_square (cv : Bool) (ov : ℝ) (ha : HasDerivAt a a' t) :
    HasDerivAt (fun s => evR .square (a s) (b s)) (dk RO cv .square (a t) (b t) ov a' b') t := by
  have h := ha.mul ha
  simp only [dk, RO, evR]
  exact h.congr_deriv (by ring)

theorem k_recip (cv : Bool) (ov : ℝ) (ha : HasDerivAt a a' t) (h0 : a t ≠ 0) :
    HasDerivAt (fun s => evR .recip (a s) (b s)) (dk RO cv .recip (a t) (b t) ov a' b') t := by
  have h := ha.inv h0
  simp only [dk, RO, evR, Real.rpow_two, one_div]
  exact h.congr_deriv (by rw [div_neg, neg_div])

/-! ### selections -/

theorem k_min (cv : Bool) (ov : ℝ) (ha : HasDerivAt a a' t) (hb : HasDerivAt b b' t) (hne : a t ≠ b t) :
    HasDerivAt (fun s => evR .min (a s) (b s)) (dk RO cv .min (a t) (b t) ov a' b') t := by
  simp only [dk, RO, evR]
  rcases lt_or_gt_of_ne hne with h | h
  · simp only [h, decide_true, if_true]
    exact of_eventuallyEq ha ((ev_lt ha hb h).mono fun s hs => min_eq_left hs.le)
  · have : ¬ a t < b t := not_lt.mpr h.le
    simp only [this, decide_false, Bool.false_eq_true, if_false]
    exact of_eventuallyEq hb ((ev_lt hb ha h).mono fun s hs => min_eq_right hs.le)

theorem k_max (cv : Bool) (ov : ℝ) (ha : HasDerivAt a a' t) (hb : HasDerivAt b b' t) (hne : a t ≠ b t) :
    HasDerivAt (fun s => evR .max (a s) (b s)) (dk RO cv .max (a t) (b t) ov a' b') t := by
  simp only [dk, RO, evR]
  rcases lt_or_gt_of_ne hne with h | h
  · simp only [h, decide_true, if_true]
    exact of_eventuallyEq hb ((ev_lt ha hb h).mono fun s hs => max_eq_right hs.le)
  · have : ¬ a t < b t := not_lt.mpr h.le
    simp only [this, decide_false, Bool.false_eq_true, if_false]
    exact of_eventuallyEq ha ((ev_lt hb ha h).mono fun s hs => max_eq_left hs.le)

theorem k_abs (cv : Bool) (ov : ℝ) (ha : HasDerivAt a a' t) (hne : a t ≠ 0) :
    HasDerivAt (fun s => evR .abs (a s) (b s)) (dk RO cv .abs (a t) (b t) ov a' b') t := by
  simp only [dk, RO, evR]
  rcases lt_or_gt_of_ne hne with h | h
  · have : ¬ (0 : ℝ) < a t := not_lt.mpr h.le
    simp only [this, decide_false, Bool.false_eq_true, if_false]
    exact of_eventuallyEq ha.neg ((ev_neg ha h).mono fun s hs => abs_of_neg hs)
  · simp only [h, decide_true, if_true]
    exact of_eventuallyEq ha ((ev_pos ha h).mono fun s hs => abs_of_pos hs)

theorem k_compare (cv : Bool) (ov : ℝ) (ha : HasDerivAt a a' t) (hb : HasDerivAt b b' t) (hne : a t ≠ b t) :
    HasDerivAt (fun s => evR .compare (a s) (b s)) (dk RO cv .compare (a t) (b t) ov a' b') t := by
  simp only [dk, RO, evR]
  rcases lt_or_gt_of_ne hne with h | h
  · exact of_eventuallyEq (hasDerivAt_const t (-1 : ℝ)) ((ev_lt ha hb h).mono fun s hs => by simp [hs])
  · exact of_eventuallyEq (hasDerivAt_const t (1 : ℝ))
      ((ev_lt hb ha h).mono fun s hs => by simp [hs, not_lt.mpr hs.le])

theorem k_nanfill (cv : Bool) (ov : ℝ) (ha : HasDerivAt a a' t) :
    HasDerivAt (fun s => evR .nanfill (a s) (b s)) (dk RO cv .nanfill (a t) (b t) ov a' b') t := by
  simp only [dk, RO, evR, Bool.false_eq_true, if_false]
  exact ha

/-- CONST_VAR outside the Jacobian evaluator (`clear_vars = false`) passes the derivative -/
theorem k_constVar (ov : ℝ) (ha : HasDerivAt a a' t) :
    HasDerivAt (fun s => evR .constVar (a s) (b s)) (dk RO false .constVar (a t) (b t) ov a' b') t := by
  simp only [dk, RO, evR, Bool.false_eq_true, if_false]
  exact ha

/-! ### elementary functions -/

theorem k_sqrt (cv : Bool) (ha : HasDerivAt a a' t) (hne : a t ≠ 0) :
    HasDerivAt (fun s => evR .sqrt (a s) (b s)) (dk RO cv .sqrt (a t) (b t) (Real.sqrt (a t)) a' b') t := by
  simp only [dk, RO, evR]
  rcases lt_or_gt_of_ne hne with h | h
  · simp only [h, decide_true, Bool.true_or, if_true]
    exact of_eventuallyEq (hasDerivAt_const t (0 : ℝ))
      ((ev_neg ha h).mono fun s hs => Real.sqrt_eq_zero_of_nonpos hs.le)
  · have hn : ¬ a t < 0 := not_lt.mpr h.le
    have hs := ha.sqrt hne
    by_cases hz : a' = 0
    · simp only [hn, hz, decide_false, decide_true, Bool.or_true, if_true]
      simpa [hz] using hs
    · simp only [hn, hz, decide_false, Bool.or_false, Bool.false_eq_true, if_false]
      exact hs

theorem k_sin (cv : Bool) (ov : ℝ) (ha : HasDerivAt a a' t) :
    HasDerivAt (fun s => evR .sin (a s) (b s)) (dk RO cv .sin (a t) (b t) ov a' b') t := by
  have h := ha.sin
  simp only [dk, RO, evR]
  exact h.congr_deriv (by ring)

theorem k_cos (cv : Bool) (ov : ℝ) (ha : HasDerivAt a a' t) :
    HasDerivAt (fun s => evR .cos (a s) (b s)) (dk RO cv .cos (a t) (b t) ov a' b') t := by
  have h := ha.cos
  simp only [dk, RO, evR]
  exact h.congr_deriv (by ring)

theorem k_exp (cv : Bool) (ov : ℝ) (ha : HasDerivAt a a' t) :
    HasDerivAt (fun s => evR .exp (a s) (b s)) (dk RO cv .exp (a t) (b t) ov a' b') t := by
  have h := ha.exp
  simp only [dk, RO, evR]
  exact h.congr_deriv (by ring)

theorem k_log (cv : Bool) (ov : ℝ) (ha : HasDerivAt a a' t) (hpos : 0 < a t) :
    HasDerivAt (fun s => evR .log (a s) (b s)) (dk RO cv .log (a t) (b t) ov a' b') t := by
  simp only [dk, RO, evR]
  exact ha.log hpos.ne'

theorem k_tan (cv : Bool) (ov : ℝ) (ha : HasDerivAt a a' t) (hc : Real.cos (a t) ≠ 0) :
    HasDerivAt (fun s => evR .tan (a s) (b s)) (dk RO cv .tan (a t) (b t) ov a' b') t := by
  have h := (Real.hasDerivAt_tan hc).comp t ha
  simp only [dk, RO, evR, Real.rpow_two]
  exact h.congr_deriv (by rw [one_div, one_div, inv_pow]; ring)

theorem k_asin (cv : Bool) (ov : ℝ) (ha : HasDerivAt a a' t) (h1 : -1 < a t) (h2 : a t < 1) :
    HasDerivAt (fun s => evR .asin (a s) (b s)) (dk RO cv .asin (a t) (b t) ov a' b') t := by
  have h := (Real.hasDerivAt_arcsin h1.ne' h2.ne).comp t ha
  simp only [dk, RO, evR, Real.rpow_two]
  exact h.congr_deriv (by rw [one_div, div_eq_inv_mul])

theorem k_acos (cv : Bool) (ov : ℝ) (ha : HasDerivAt a a' t) (h1 : -1 < a t) (h2 : a t < 1) :
    HasDerivAt (fun s => evR .acos (a s) (b s)) (dk RO cv .acos (a t) (b t) ov a' b') t := by
  have h := (Real.hasDerivAt_arccos h1.ne' h2.ne).comp t ha
  simp only [dk, RO, evR, Real.rpow_two]
  exact h.congr_deriv (by rw [one_div, div_neg, div_eq_inv_mul, neg_mul])

theorem k_atan (cv : Bool) (ov : ℝ) (ha : HasDerivAt a a' t) :
    HasDerivAt (fun s => evR .atan (a s) (b s)) (dk RO cv .atan (a t) (b t) ov a' b') t := by
  have h := ha.arctan
  simp only [dk, RO, evR, Real.rpow_two]
  exact h.congr_deriv (by rw [one_div, div_eq_inv_mul, add_comm])

/-! ### pow / nth-root / mod / atan2 -/

/-- integer exponent held in a position-independent operand (`bd` is dropped by the kernel) -/
theorem k_pow (cv : Bool) (ov : ℝ) (ha : HasDerivAt a a' t) (n : ℤ) (hb : ∀ s, b s = n)
    (h0 : a t ≠ 0 ∨ 0 ≤ n) :
    HasDerivAt (fun s => evR .pow (a s) (b s)) (dk RO cv .pow (a t) (b t) ov a' b') t := by
  have h := (hasDerivAt_zpow n (a t) h0).comp t ha
  simp only [dk, RO, evR, hb]
  have e1 : (fun s => (a s) ^ ((n : ℤ) : ℝ)) = (fun x => x ^ n) ∘ a := by
    funext s; simp [Real.rpow_intCast]
  have e2 : (a t) ^ (((n : ℤ) : ℝ) - 1) = (a t) ^ (n - 1) := by
    rw [← Real.rpow_intCast]; push_cast; rfl
  rw [e1, e2]
  exact h.congr_deriv (by ring)

/-- constant non-zero root index; positive base, or negative base with an odd natural index
    (`fmodf(bv, 2) == 1`), where the value kernel returns the real odd root `-((-a)^(1/n))` and the
    kernel (since 426a6f0) uses `powf(-av, 1/bv - 1)`. -/
theorem k_nthRoot (cv : Bool) (ov : ℝ) (ha : HasDerivAt a a' t) (c : ℝ) (_hc : c ≠ 0) (hb : ∀ s, b s = c)
    (hdom : 0 < a t ∨ (a t < 0 ∧ ∃ k : ℕ, c = 2 * (k : ℝ) + 1)) :
    HasDerivAt (fun s => evR .nthRoot (a s) (b s)) (dk RO cv .nthRoot (a t) (b t) ov a' b') t := by
  simp only [dk, RO, hb]
  rcases hdom with hpos | ⟨hneg, hodd⟩
  · have h := ha.rpow_const (p := 1 / c) (Or.inl hpos.ne')
    have hev : ∀ᶠ s in 𝓝 t, evR .nthRoot (a s) c = (a s) ^ (1 / c) :=
      (ev_pos ha hpos).mono fun s hs => by simp [evR, hs.le]
    refine of_eventuallyEq ?_ hev
    have hcond : (decide (a t < 0) && oddIntR c) = false := by
      simp [not_lt.mpr hpos.le]
    simp only [hcond, Bool.false_eq_true, if_false]
    by_cases hz : a' = 0
    · simp only [hz, decide_true, if_true]
      simpa [hz] using h
    · simp only [hz, decide_false, Bool.false_eq_true, if_false]
      exact h.congr_deriv (by field_simp)
  · have hna : -(a t) ≠ 0 := neg_ne_zero.mpr hneg.ne
    have h := (ha.neg.rpow_const (p := 1 / c) (Or.inl hna)).neg
    have hev : ∀ᶠ s in 𝓝 t, evR .nthRoot (a s) c = -((-(a s)) ^ (1 / c)) :=
      (ev_neg ha hneg).mono fun s hs => by simp [evR, not_le.mpr hs]
    refine of_eventuallyEq ?_ hev
    have hcond : (decide (a t < 0) && oddIntR c) = true := by
      simp [hneg, oddIntR_true hodd]
    simp only [hcond, if_true]
    by_cases hz : a' = 0
    · simp only [hz, decide_true, if_true]
      exact h.congr_deriv (by simp [hz])
    · simp only [hz, decide_false, Bool.false_eq_true, if_false]
      exact h.congr_deriv (by simp only [Pi.neg_apply]; field_simp)

/-- `mod` with a position-independent non-zero divisor, away from the jumps -/
theorem k_mod (cv : Bool) (ov : ℝ) (ha : HasDerivAt a a' t) (c : ℝ) (_hc : c ≠ 0) (hb : ∀ s, b s = c)
    (hk : ∀ k : ℤ, a t / c ≠ k) :
    HasDerivAt (fun s => evR .mod (a s) (b s)) (dk RO cv .mod (a t) (b t) ov a' b') t := by
  simp only [dk, evR, hb]
  set k : ℤ := ⌊a t / c⌋ with hkdef
  have hq : HasDerivAt (fun s => a s / c) (a' / c) t := ha.div_const c
  have hlo : (k : ℝ) < a t / c := lt_of_le_of_ne (Int.floor_le _) (fun h => hk k h.symm)
  have hhi : a t / c < (k : ℝ) + 1 := Int.lt_floor_add_one _
  have hev : ∀ᶠ s in 𝓝 t, a s - c * (⌊a s / c⌋ : ℝ) = a s - c * (k : ℝ) := by
    have h1 : ∀ᶠ s in 𝓝 t, (k : ℝ) < a s / c := continuousAt_const.eventually_lt hq.continuousAt hlo
    have h2 : ∀ᶠ s in 𝓝 t, a s / c < (k : ℝ) + 1 := hq.continuousAt.eventually_lt continuousAt_const hhi
    filter_upwards [h1, h2] with s hs1 hs2
    have : ⌊a s / c⌋ = k := Int.floor_eq_iff.mpr ⟨hs1.le, hs2⟩
    rw [this]
  refine of_eventuallyEq ?_ hev
  simpa using ha.sub_const (c * (k : ℝ))

theorem atan2R_of_pos_x {y x : ℝ} (hx : 0 < x) : atan2R y x = Real.arctan (y / x) := by
  simp [atan2R, hx]

theorem atan2R_of_pos_y {y x : ℝ} (hy : 0 < y) : atan2R y x = Real.pi / 2 - Real.arctan (x / y) := by
  unfold atan2R
  by_cases hx : 0 < x
  · simp only [hx, if_true]
    have : y / x = (x / y)⁻¹ := by rw [inv_div]
    rw [this, Real.arctan_inv_of_pos (div_pos hx hy)]
  · simp [hx, hy]

theorem atan2R_of_neg_y {y x : ℝ} (hy : y < 0) : atan2R y x = -(Real.pi / 2) - Real.arctan (x / y) := by
  unfold atan2R
  by_cases hx : 0 < x
  · simp only [hx, if_true]
    have : y / x = (x / y)⁻¹ := by rw [inv_div]
    rw [this, Real.arctan_inv_of_neg (div_neg_of_pos_of_neg hx hy)]
  · have : ¬ 0 < y := not_lt.mpr hy.le
    simp [hx, hy, this]

/-- off the branch cut `{a = 0, b ≤ 0}` -/
theorem k_atan2 (cv : Bool) (ov : ℝ) (ha : HasDerivAt a a' t) (hb : HasDerivAt b b' t)
    (hcut : 0 < b t ∨ a t ≠ 0) :
    HasDerivAt (fun s => evR .atan2 (a s) (b s)) (dk RO cv .atan2 (a t) (b t) ov a' b') t := by
  simp only [dk, RO, evR, Real.rpow_two]
  by_cases hbpos : 0 < b t
  · have h := (ha.div hb hbpos.ne').arctan
    refine of_eventuallyEq ?_ ((ev_pos hb hbpos).mono fun s hs => atan2R_of_pos_x hs)
    have hb0 : b t ≠ 0 := hbpos.ne'
    have hsum : a t ^ 2 + b t ^ 2 ≠ 0 := by positivity
    exact h.congr_deriv (by simp only [Pi.div_apply]; field_simp; ring)
  · have hne : a t ≠ 0 := hcut.resolve_left hbpos
    have hq := (hb.div ha hne).arctan
    have hsum : a t ^ 2 + b t ^ 2 ≠ 0 := by positivity
    rcases lt_or_gt_of_ne hne with h | h
    · refine of_eventuallyEq (hq.const_sub (-(Real.pi / 2))) ((ev_neg ha h).mono fun s hs => atan2R_of_neg_y hs) |>.congr_deriv ?_
      simp only [Pi.div_apply]
      field_simp
      ring
    · refine of_eventuallyEq (hq.const_sub (Real.pi / 2)) ((ev_pos ha h).mono fun s hs => atan2R_of_pos_y hs) |>.congr_deriv ?_
      simp only [Pi.div_apply]
      field_simp
      ring

/-! ### tapes -/

theorem ids_cons (c : Clause) (rest : List Clause) : ids (c :: rest) = c.id :: ids rest := rfl

/-- Induction over a well-formed tape, for an arbitrary clause semantics `g` whose clauses satisfy
    the chain rule with the model kernel.  `B` is a set of banned slots (ids of clauses closer to
    the root), `V` any value array agreeing with the final values on the slots the tape touches. -/
theorem tape_gradient_aux (g : Clause → ℝ → ℝ → ℝ) (cv : Bool) (env : ℝ → Nat → ℝ) (denv : Nat → ℝ)
    (s0 : ℝ) (V : Nat → ℝ) :
    ∀ (t : List Clause) (B : Nat → Prop), WF t → (∀ c ∈ t, c.op ≠ Op.oracle) →
      (∀ k, k ∉ ids t → ¬ B k → HasDerivAt (fun s => env s k) (denv k) s0) →
      (∀ c ∈ t, ¬ B c.a ∧ ¬ B c.b) →
      (∀ c ∈ t, V c.a = evalListG g t (env s0) c.a ∧ V c.b = evalListG g t (env s0) c.b ∧
                V c.id = evalListG g t (env s0) c.id) →
      (∀ c ∈ t, ∀ A' B' : ℝ,
          HasDerivAt (fun s => evalListG g t (env s) c.a) A' s0 →
          HasDerivAt (fun s => evalListG g t (env s) c.b) B' s0 →
          HasDerivAt (fun s => g c (evalListG g t (env s) c.a) (evalListG g t (env s) c.b))
            (dk RO cv c.op (evalListG g t (env s0) c.a) (evalListG g t (env s0) c.b)
              (g c (evalListG g t (env s0) c.a) (evalListG g t (env s0) c.b)) A' B') s0) →
      ∀ k, ¬ B k → HasDerivAt (fun s => evalListG g t (env s) k) (derivRow RO cv V t denv k) s0 := by
  intro t
  induction t with
  | nil =>
    intro B _ _ hleaf _ _ _ k hk
    exact hleaf k (by simp [ids]) hk
  | cons c rest ih =>
    intro B hwf hno hleaf hban hV hker k hk
    obtain ⟨_, hnotin, hself, hlater, hwf'⟩ := hwf
    have hcmem : c ∈ c :: rest := List.mem_cons_self ..
    have hcop : c.op ≠ Op.oracle := hno c hcmem
    obtain ⟨hca, hcb⟩ := hself hcop
    have hop : ∀ d ∈ rest, d.a ≠ c.id ∧ d.b ≠ c.id ∧ d.id ≠ c.id := by
      intro d hd
      obtain ⟨h1, h2⟩ := hlater d hd (hno d (List.mem_cons_of_mem _ hd))
      refine ⟨h1, h2, ?_⟩
      intro h
      apply hnotin
      rw [← h]
      exact List.mem_map_of_mem hd
    have hE : ∀ s j, j ≠ c.id → evalListG g (c :: rest) (env s) j = evalListG g rest (env s) j := by
      intro s j hj
      simp only [evalListG]
      exact upd_other _ _ _ _ hj
    have hEid : ∀ s, evalListG g (c :: rest) (env s) c.id =
        g c (evalListG g rest (env s) c.a) (evalListG g rest (env s) c.b) := by
      intro s
      simp only [evalListG, upd_same]
    have IH := ih (fun j => B j ∨ j = c.id) hwf' (fun d hd => hno d (List.mem_cons_of_mem _ hd))
      (by
        intro j hj hB
        have hB1 : ¬ B j := fun h => hB (Or.inl h)
        have hB2 : j ≠ c.id := fun h => hB (Or.inr h)
        refine hleaf j ?_ hB1
        rw [ids_cons]
        intro hmem
        rcases List.mem_cons.mp hmem with h | h
        · exact hB2 h
        · exact hj h)
      (by
        intro d hd
        obtain ⟨h1, h2, _⟩ := hop d hd
        obtain ⟨b1, b2⟩ := hban d (List.mem_cons_of_mem _ hd)
        exact ⟨fun h => h.elim b1 h1, fun h => h.elim b2 h2⟩)
      (by
        intro d hd
        obtain ⟨h1, h2, h3⟩ := hop d hd
        obtain ⟨v1, v2, v3⟩ := hV d (List.mem_cons_of_mem _ hd)
        exact ⟨by rw [v1, hE s0 _ h1], by rw [v2, hE s0 _ h2], by rw [v3, hE s0 _ h3]⟩)
      (by
        intro d hd A' B' hA hB
        obtain ⟨h1, h2, _⟩ := hop d hd
        have := hker d (List.mem_cons_of_mem _ hd) A' B'
          (by simpa only [hE _ _ h1] using hA) (by simpa only [hE _ _ h2] using hB)
        simpa only [hE _ _ h1, hE _ _ h2] using this)
    by_cases hkc : k = c.id
    · subst hkc
      obtain ⟨b1, b2⟩ := hban c hcmem
      have dA := IH c.a (fun h => h.elim b1 hca)
      have dB := IH c.b (fun h => h.elim b2 hcb)
      obtain ⟨v1, v2, v3⟩ := hV c hcmem
      have := hker c hcmem _ _ (by simpa only [hE _ _ hca] using dA) (by simpa only [hE _ _ hcb] using dB)
      simp only [hE _ _ hca, hE _ _ hcb] at this
      simp only [derivRow, upd_same, hEid]
      rw [v1, v2, v3, hE s0 _ hca, hE s0 _ hcb, hEid]
      exact this
    · have := IH k (fun h => h.elim hk hkc)
      simp only [derivRow, upd_other _ _ _ _ hkc, hE _ _ hkc]
      exact this

end Libfive.DerivR
