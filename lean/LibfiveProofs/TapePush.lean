/-
  Soundness of `Tape::push` (model in LibfiveModel/Tape.lean).
  Core Lean only.
-/
import LibfiveModel.Tape
set_option linter.unusedSimpArgs false
set_option linter.unusedVariables false

namespace Libfive

variable {α : Type}

/-! ### evaluation facts -/

theorem evalList_notin (ev : Op → α → α → α) (orc : Nat → α) (t : List Clause) (v : Nat → α)
    (s : Nat) (h : s ∉ ids t) : evalList ev orc t v s = v s := by
  induction t with
  | nil => rfl
  | cons c rest ih =>
    simp only [ids, List.map_cons, List.mem_cons, not_or] at h
    simp only [evalList]
    rw [upd_other _ _ _ _ h.1]
    exact ih (by simpa [ids] using h.2)

theorem evalClause_congr (ev : Op → α → α → α) (orc : Nat → α) (c : Clause) (w w' : Nat → α)
    (h : c.op ≠ Op.oracle → w c.a = w' c.a ∧ w c.b = w' c.b) :
    evalClause ev orc c w = evalClause ev orc c w' := by
  unfold evalClause
  by_cases ho : c.op = Op.oracle
  · simp [ho]
  · simp [ho, (h ho).1, (h ho).2]

/-- In a well-formed tape the final slot values satisfy the clause equations. -/
theorem evalList_fix (ev : Op → α → α → α) (orc : Nat → α) (t : List Clause) (v : Nat → α)
    (hwf : WF t) : ∀ c ∈ t, evalList ev orc t v c.id = evalClause ev orc c (evalList ev orc t v) := by
  induction t with
  | nil => intro c hc; cases hc
  | cons c rest ih =>
    obtain ⟨_, hnot, hself, hrest, hwf'⟩ := hwf
    intro d hd
    simp only [evalList]
    rcases List.mem_cons.mp hd with rfl | hd'
    · rw [upd_same]
      apply evalClause_congr
      intro ho
      have := hself ho
      exact ⟨(upd_other _ _ _ _ this.1).symm, (upd_other _ _ _ _ this.2).symm⟩
    · have hne : d.id ≠ c.id := by
        intro e; apply hnot; rw [← e]; exact List.mem_map.mpr ⟨d, hd', rfl⟩
      rw [upd_other _ _ _ _ hne, ih hwf' d hd']
      apply evalClause_congr
      intro ho
      have := hrest d hd' ho
      exact ⟨(upd_other _ _ _ _ this.1).symm, (upd_other _ _ _ _ this.2).symm⟩

/-! ### facts about one step of the first loop -/

theorem pushStep_skip (keep : Clause → Keep) (S : PushState) (c : Clause)
    (h : S.disabled c.id = true) : pushStep keep S c = S := by
  simp [pushStep, h]

theorem pushStep_remap_other (keep : Clause → Keep) (S : PushState) (c : Clause) (s : Nat)
    (hs : s ≠ c.id) : (pushStep keep S c).remap s = S.remap s := by
  unfold pushStep
  split
  · rfl
  · cases keep c <;> simp only <;> (repeat' split) <;> simp [upd, hs]

theorem pushStep_disabled_other (keep : Clause → Keep) (S : PushState) (c : Clause) (s : Nat)
    (hs : s ≠ c.id) (ha : s ≠ c.a) (hb : s ≠ c.b) :
    (pushStep keep S c).disabled s = S.disabled s := by
  unfold pushStep
  split
  · rfl
  · cases keep c <;> simp only <;> (repeat' split) <;> simp [upd, hs, ha, hb]

theorem pushStep_mono (keep : Clause → Keep) (S : PushState) (c : Clause) (s : Nat)
    (hs : s ≠ c.id) (h : S.disabled s = false) : (pushStep keep S c).disabled s = false := by
  unfold pushStep
  split
  · exact h
  · cases keep c <;> simp only <;> (repeat' split) <;> simp [upd, hs, h]

/-- What the step does to the visited clause's own slots. -/
theorem pushStep_own (keep : Clause → Keep) (S : PushState) (c : Clause)
    (hd : S.disabled c.id = false) (hr : S.remap c.id = 0)
    (hne : c.op ≠ Op.oracle → c.a ≠ c.id ∧ c.b ≠ c.id)
    (horc : c.op = Op.oracle → keep c ≠ Keep.a ∧ keep c ≠ Keep.b) :
    let S' := pushStep keep S c
    (S'.remap c.id ≠ 0 ∧ S'.disabled c.id = true ∧ c.op ≠ Op.oracle ∧
      ((keep c = Keep.a ∧ S'.remap c.id = c.a) ∨ (keep c = Keep.b ∧ S'.remap c.id = c.b)) ∧
      S'.disabled (S'.remap c.id) = false)
    ∨ (S'.remap c.id = 0 ∧ S'.disabled c.id = false ∧
        (c.op ≠ Op.oracle → S'.disabled c.a = false ∧ S'.disabled c.b = false)) := by
  intro S'
  have hS' : S' = pushStep keep S c := rfl
  clear_value S'
  subst hS'
  by_cases ho : c.op = Op.oracle
  · -- oracle: keep is both/always, state unchanged
    right
    have h1 := (horc ho).1
    have h2 := (horc ho).2
    have : pushStep keep S c = S := by
      unfold pushStep
      simp only [hd]
      cases hk : keep c <;> simp_all
    rw [this]
    exact ⟨hr, hd, fun h => absurd ho h⟩
  · have ha := (hne ho).1
    have hb := (hne ho).2
    show (_ ∨ _)
    cases hk : keep c
    · -- keep a
      by_cases h0 : c.a = 0
      · right
        show (pushStep keep S c).remap c.id = 0 ∧ _
        unfold pushStep
        simp [hd, hk, upd, h0, ho, hr, ha, hb, Ne.symm ha, Ne.symm hb]
      · left
        show (pushStep keep S c).remap c.id ≠ 0 ∧ _
        unfold pushStep
        simp [hd, hk, upd, h0, ho, ha, hb, Ne.symm ha, Ne.symm hb]
    · by_cases h0 : c.b = 0
      · right
        show (pushStep keep S c).remap c.id = 0 ∧ _
        unfold pushStep
        simp [hd, hk, upd, h0, ho, hr, ha, hb, Ne.symm ha, Ne.symm hb]
      · left
        show (pushStep keep S c).remap c.id ≠ 0 ∧ _
        unfold pushStep
        simp [hd, hk, upd, h0, ho, ha, hb, Ne.symm ha, Ne.symm hb]
    · right
      show (pushStep keep S c).remap c.id = 0 ∧ _
      unfold pushStep
      simp [hd, hk, upd, ho, hr, ha, hb, Ne.symm ha, Ne.symm hb]
    · right
      show (pushStep keep S c).remap c.id = 0 ∧ _
      unfold pushStep
      simp [hd, hk, upd, ho, hr, ha, hb, Ne.symm ha, Ne.symm hb]

/-! ### the invariant of the first loop -/

/-- a slot is *needed*: marked active, or redirected to another slot -/
def needed (S : PushState) (o : Nat) : Prop := S.disabled o = false ∨ S.remap o ≠ 0

/-- `vals` are the slot values of the unspecialised evaluation; `keep` is sound w.r.t. them -/
def KeepSound (vals : Nat → α) (keep : Clause → Keep) (t : List Clause) : Prop :=
  ∀ c ∈ t, (c.op = Op.oracle → keep c ≠ Keep.a ∧ keep c ≠ Keep.b) ∧
    (keep c = Keep.a → vals c.id = vals c.a) ∧ (keep c = Keep.b → vals c.id = vals c.b)

structure PassInv (vals : Nat → α) (root : Nat) (pre : List Clause) (S : PushState) : Prop where
  live : ∀ c ∈ pre, S.disabled c.id = false →
    S.remap c.id = 0 ∧ (c.op ≠ Op.oracle → needed S c.a ∧ needed S c.b)
  red : ∀ s, S.remap s ≠ 0 → ∃ c ∈ pre, c.id = s ∧ c.op ≠ Op.oracle ∧
    (S.remap s = c.a ∨ S.remap s = c.b) ∧ vals s = vals (S.remap s) ∧ needed S (S.remap s)
  root : needed S root

theorem passInv_init (vals : Nat → α) (root : Nat) : PassInv vals root [] (PushState.init root) := by
  refine ⟨?_, ?_, ?_⟩
  · intro c hc; cases hc
  · intro s hs; simp [PushState.init] at hs
  · left; simp [PushState.init]

/-- facts extracted from well-formedness of `pre ++ c :: post` about the clause `c` -/
theorem WF_mid (pre : List Clause) (c : Clause) (post : List Clause) (h : WF (pre ++ c :: post)) :
    c.id ≠ 0 ∧ (∀ p ∈ pre, p.id ≠ c.id) ∧ (c.op ≠ Op.oracle → c.a ≠ c.id ∧ c.b ≠ c.id) ∧
    (c.op ≠ Op.oracle → ∀ p ∈ pre, c.a ≠ p.id ∧ c.b ≠ p.id) ∧ c.id ∉ ids post := by
  induction pre with
  | nil =>
    obtain ⟨h0, hnot, hself, _, _⟩ := h
    exact ⟨h0, (by intro p hp; cases hp), hself, (by intro _ p hp; cases hp), hnot⟩
  | cons p pre ih =>
    obtain ⟨_, hnot, _, hrest, hwf⟩ := h
    obtain ⟨h0, hpre, hself, hops, hpost⟩ := ih hwf
    refine ⟨h0, ?_, hself, ?_, hpost⟩
    · intro q hq
      rcases List.mem_cons.mp hq with rfl | hq
      · intro e; apply hnot; rw [e]; simp [ids]
      · exact hpre q hq
    · intro ho q hq
      rcases List.mem_cons.mp hq with rfl | hq
      · exact hrest c (by simp) ho
      · exact hops ho q hq

theorem needed_mono (keep : Clause → Keep) (S : PushState) (c : Clause) (o : Nat)
    (hr : S.remap c.id = 0)
    (hown : S.disabled c.id = false → (pushStep keep S c).disabled c.id = false ∨
        (pushStep keep S c).remap c.id ≠ 0)
    (h : needed S o) : needed (pushStep keep S c) o := by
  by_cases ho : o = c.id
  · subst ho
    rcases h with h | h
    · exact hown h
    · exact absurd hr h
  · rcases h with h | h
    · left; exact pushStep_mono keep S c o ho h
    · right; rw [pushStep_remap_other keep S c o ho]; exact h

theorem passInv_step (vals : Nat → α) (root : Nat) (keep : Clause → Keep)
    (pre : List Clause) (c : Clause) (post : List Clause) (S : PushState)
    (hwf : WF (pre ++ c :: post)) (hk : KeepSound vals keep (pre ++ c :: post))
    (inv : PassInv vals root pre S) : PassInv vals root (pre ++ [c]) (pushStep keep S c) := by
  obtain ⟨h0, hpre, hself, hops, _⟩ := WF_mid pre c post hwf
  have hkc := hk c (by simp)
  -- remap of the visited clause is still zero
  have hr : S.remap c.id = 0 := by
    apply Classical.byContradiction
    intro hne
    obtain ⟨p, hp, hid, _⟩ := inv.red c.id hne
    exact hpre p hp hid
  by_cases hd : S.disabled c.id = true
  · -- clause is skipped
    rw [pushStep_skip keep S c hd]
    refine ⟨?_, ?_, inv.root⟩
    · intro d hdm hdd
      rcases List.mem_append.mp hdm with hdm | hdm
      · exact inv.live d hdm hdd
      · simp at hdm; subst hdm; rw [hd] at hdd; cases hdd
    · intro s hs
      obtain ⟨p, hp, rest⟩ := inv.red s hs
      exact ⟨p, List.mem_append_left _ hp, rest⟩
  · have hd' : S.disabled c.id = false := by simpa using hd
    have own := pushStep_own keep S c hd' hr hself hkc.1
    have hown : S.disabled c.id = false → (pushStep keep S c).disabled c.id = false ∨
        (pushStep keep S c).remap c.id ≠ 0 := by
      intro _
      rcases own with ⟨h1, _⟩ | ⟨_, h2, _⟩
      · right; exact h1
      · left; exact h2
    have mono : ∀ o, needed S o → needed (pushStep keep S c) o :=
      fun o h => needed_mono keep S c o hr hown h
    refine ⟨?_, ?_, mono _ inv.root⟩
    · intro d hdm hdd
      rcases List.mem_append.mp hdm with hdm | hdm
      · -- earlier clause: its own slots are untouched by this step
        have hne : d.id ≠ c.id := hpre d hdm
        by_cases hoc : c.op = Op.oracle
        · -- oracle step changes nothing
          have : pushStep keep S c = S := by
            unfold pushStep
            simp only [hd']
            have h1 := (hkc.1 hoc).1
            have h2 := (hkc.1 hoc).2
            cases hk' : keep c <;> simp_all
          rw [this] at hdd ⊢
          exact inv.live d hdm hdd
        · have hops' := hops hoc d hdm
          have e1 : (pushStep keep S c).disabled d.id = S.disabled d.id :=
            pushStep_disabled_other keep S c d.id hne (Ne.symm hops'.1) (Ne.symm hops'.2)
          have e2 : (pushStep keep S c).remap d.id = S.remap d.id :=
            pushStep_remap_other keep S c d.id hne
          rw [e1] at hdd
          obtain ⟨l1, l2⟩ := inv.live d hdm hdd
          refine ⟨by rw [e2]; exact l1, fun hod => ?_⟩
          exact ⟨mono _ (l2 hod).1, mono _ (l2 hod).2⟩
      · simp at hdm; subst hdm
        rcases own with ⟨_, h2, _⟩ | ⟨h1, _, h3⟩
        · rw [h2] at hdd; cases hdd
        · refine ⟨h1, fun hod => ?_⟩
          exact ⟨Or.inl (h3 hod).1, Or.inl (h3 hod).2⟩
    · intro s hs
      by_cases hsc : s = c.id
      · subst hsc
        rcases own with ⟨_, _, hno, hab, hdis⟩ | ⟨h1, _⟩
        · refine ⟨c, by simp, rfl, hno, ?_, ?_, Or.inl hdis⟩
          · rcases hab with ⟨_, e⟩ | ⟨_, e⟩
            · left; exact e
            · right; exact e
          · rcases hab with ⟨k, e⟩ | ⟨k, e⟩
            · rw [e]; exact hkc.2.1 k
            · rw [e]; exact hkc.2.2 k
        · exact absurd h1 hs
      · have e2 : (pushStep keep S c).remap s = S.remap s := pushStep_remap_other keep S c s hsc
        rw [e2] at hs ⊢
        obtain ⟨p, hp, hid, hno, hab, hv, hn⟩ := inv.red s hs
        exact ⟨p, List.mem_append_left _ hp, hid, hno, hab, hv, mono _ hn⟩

theorem passInv_fold (vals : Nat → α) (root : Nat) (keep : Clause → Keep) :
    ∀ (post pre : List Clause) (S : PushState),
    WF (pre ++ post) → KeepSound vals keep (pre ++ post) → PassInv vals root pre S →
    PassInv vals root (pre ++ post) (pushPass1 keep post S) := by
  intro post
  induction post with
  | nil => intro pre S _ _ inv; simpa [pushPass1] using inv
  | cons c post ih =>
    intro pre S hwf hk inv
    have step := passInv_step vals root keep pre c post S hwf hk inv
    have := ih (pre ++ [c]) (pushStep keep S c) (by simpa using hwf) (by simpa using hk) step
    simpa [pushPass1] using this

/-- The state after the first loop satisfies the invariant for the whole tape. -/
theorem passInv_final (vals : Nat → α) (root : Nat) (keep : Clause → Keep) (t : List Clause)
    (hwf : WF t) (hk : KeepSound vals keep t) :
    PassInv vals root t (pushPass1 keep t (PushState.init root)) := by
  simpa using passInv_fold vals root keep t [] (PushState.init root) (by simpa using hwf)
    (by simpa using hk) (passInv_init vals root)

/-! ### the second loop -/

theorem mem_ids {t : List Clause} {c : Clause} (h : c ∈ t) : c.id ∈ ids t :=
  List.mem_map.mpr ⟨c, h, rfl⟩

theorem ids_append (a b : List Clause) : ids (a ++ b) = ids a ++ ids b := by simp [ids]

theorem resolve_zero (remap : Nat → Nat) (fuel s : Nat) (h : remap s = 0) :
    resolve remap fuel s = s := by
  cases fuel <;> simp [resolve, h]

/-- operands of a non-oracle clause of a well-formed tape `pre ++ rest` that lies in `rest`
    are not ids of `pre`, nor the clause's own id -/
theorem WF_operands (pre rest : List Clause) (hwf : WF (pre ++ rest)) (p : Clause) (hp : p ∈ rest)
    (hno : p.op ≠ Op.oracle) :
    p.a ∉ ids pre ∧ p.b ∉ ids pre ∧ p.a ≠ p.id ∧ p.b ≠ p.id := by
  obtain ⟨l1, l2, rfl⟩ := List.append_of_mem hp
  have hwf' : WF ((pre ++ l1) ++ p :: l2) := by simpa using hwf
  obtain ⟨_, _, hself, hops, _⟩ := WF_mid (pre ++ l1) p l2 hwf'
  refine ⟨?_, ?_, (hself hno).1, (hself hno).2⟩
  · intro hm
    obtain ⟨q, hq, hqid⟩ := List.mem_map.mp hm
    exact (hops hno q (List.mem_append_left _ hq)).1 hqid.symm
  · intro hm
    obtain ⟨q, hq, hqid⟩ := List.mem_map.mp hm
    exact (hops hno q (List.mem_append_left _ hq)).2 hqid.symm

/-- Following the remap chain from a needed slot ends, within `rest.length` steps, at an
    active un-redirected slot with the same (unspecialised) value. -/
theorem resolve_ok (vals : Nat → α) (root : Nat) (t : List Clause) (S : PushState)
    (hwf : WF t) (inv : PassInv vals root t S) :
    ∀ (rest pre : List Clause), t = pre ++ rest → ∀ (s fuel : Nat), needed S s → s ∉ ids pre →
      rest.length ≤ fuel →
      vals (resolve S.remap fuel s) = vals s ∧ S.remap (resolve S.remap fuel s) = 0 ∧
      S.disabled (resolve S.remap fuel s) = false ∧ resolve S.remap fuel s ∉ ids pre := by
  intro rest
  induction rest with
  | nil =>
    intro pre ht s fuel hn hs _
    have hz : S.remap s = 0 := by
      apply Classical.byContradiction
      intro hne
      obtain ⟨p, hp, hid, _⟩ := inv.red s hne
      apply hs
      rw [← hid]
      exact mem_ids (by simpa [ht] using hp)
    rw [resolve_zero _ _ _ hz]
    refine ⟨rfl, hz, ?_, hs⟩
    rcases hn with h | h
    · exact h
    · exact absurd hz h
  | cons c rest ih =>
    intro pre ht s fuel hn hs hfuel
    by_cases hz : S.remap s = 0
    · rw [resolve_zero _ _ _ hz]
      refine ⟨rfl, hz, ?_, hs⟩
      rcases hn with h | h
      · exact h
      · exact absurd hz h
    · obtain ⟨p, hp, hid, hno, hab, hv, hno'⟩ := inv.red s hz
      cases fuel with
      | zero => simp at hfuel
      | succ f =>
        have hres : resolve S.remap (f + 1) s = resolve S.remap f (S.remap s) := by
          simp [resolve, hz]
        rw [hres]
        -- p lies in c :: rest
        have hp' : p ∈ c :: rest := by
          rw [ht] at hp
          rcases List.mem_append.mp hp with h | h
          · exact absurd (hid ▸ mem_ids h) hs
          · exact h
        have hwf' : WF (pre ++ c :: rest) := ht ▸ hwf
        obtain ⟨oa, ob, sa, sb⟩ := WF_operands pre (c :: rest) hwf' p hp' hno
        -- the redirect target is not an id of pre ++ [c]
        have ho : S.remap s ∉ ids (pre ++ [c]) := by
          rw [ids_append]
          intro hm
          rcases List.mem_append.mp hm with hm | hm
          · rcases hab with e | e
            · exact oa (e ▸ hm)
            · exact ob (e ▸ hm)
          · simp [ids] at hm
            -- target = c.id : then p must come after c or be c, contradiction either way
            rcases List.mem_cons.mp hp' with hpc | hpr
            · subst hpc
              rcases hab with e | e
              · exact sa (e ▸ hm)
              · exact sb (e ▸ hm)
            · have hwf'' : WF ((pre ++ [c]) ++ rest) := by simpa using hwf'
              obtain ⟨oa', ob', _, _⟩ := WF_operands (pre ++ [c]) rest hwf'' p hpr hno
              have hc : c.id ∈ ids (pre ++ [c]) := by simp [ids]
              rcases hab with e | e
              · exact oa' (e ▸ hm ▸ hc)
              · exact ob' (e ▸ hm ▸ hc)
        have := ih (pre ++ [c]) (by simpa using ht) (S.remap s) f hno' ho
          (by simpa using Nat.le_of_succ_le_succ hfuel)
        obtain ⟨r1, r2, r3, r4⟩ := this
        refine ⟨r1.trans hv.symm, r2, r3, ?_⟩
        intro hm
        apply r4
        rw [ids_append]
        exact List.mem_append_left _ hm

/-- Main induction for the second loop: evaluating the emitted suffix reproduces the
    unspecialised value in every active slot that is not an id of the prefix. -/
theorem emit_sound (ev : Op → α → α → α) (orc : Nat → α) (v : Nat → α) (root : Nat)
    (t : List Clause) (S : PushState) (hwf : WF t)
    (inv : PassInv (evalList ev orc t v) root t S) :
    ∀ (rest pre : List Clause), t = pre ++ rest → ∀ r, r ∉ ids pre → S.disabled r = false →
      evalList ev orc (emit S t.length rest) v r = evalList ev orc t v r := by
  intro rest
  induction rest with
  | nil =>
    intro pre ht r hr _
    simp only [emit, List.filterMap_nil, evalList]
    rw [evalList_notin]
    simpa [ht] using hr
  | cons c rest ih =>
    intro pre ht r hr hdr
    have hwf' : WF (pre ++ c :: rest) := ht ▸ hwf
    have ht' : t = (pre ++ [c]) ++ rest := by simpa using ht
    have hlen : rest.length ≤ t.length := by rw [ht]; simp; omega
    by_cases hdc : S.disabled c.id = true
    · -- clause not emitted
      have he : emit S t.length (c :: rest) = emit S t.length rest := by
        simp [emit, hdc]
      rw [he]
      apply ih (pre ++ [c]) ht' r _ hdr
      rw [ids_append]
      intro hm
      rcases List.mem_append.mp hm with hm | hm
      · exact hr hm
      · simp [ids] at hm; subst hm; rw [hdc] at hdr; cases hdr
    · have hdc' : S.disabled c.id = false := by simpa using hdc
      have hcm : c ∈ t := by rw [ht]; simp
      obtain ⟨_, hlive⟩ := inv.live c hcm hdc'
      by_cases hoc : c.op = Op.oracle
      · have he : emit S t.length (c :: rest) = c :: emit S t.length rest := by
          simp [emit, hdc', hoc]
        rw [he]
        simp only [evalList]
        by_cases hrc : r = c.id
        · subst hrc
          rw [upd_same, evalList_fix ev orc t v hwf c hcm]
          simp [evalClause, hoc]
        · rw [upd_other _ _ _ _ hrc]
          apply ih (pre ++ [c]) ht' r _ hdr
          rw [ids_append]
          intro hm
          rcases List.mem_append.mp hm with hm | hm
          · exact hr hm
          · simp [ids] at hm; exact hrc hm
      · have he : emit S t.length (c :: rest) =
            { c with a := resolve S.remap t.length c.a, b := resolve S.remap t.length c.b } ::
              emit S t.length rest := by
          simp [emit, hdc', hoc]
        rw [he]
        simp only [evalList]
        by_cases hrc : r = c.id
        · subst hrc
          rw [upd_same, evalList_fix ev orc t v hwf c hcm]
          obtain ⟨na, nb⟩ := hlive hoc
          obtain ⟨oa, ob, sa, sb⟩ := WF_operands pre (c :: rest) hwf' c (by simp) hoc
          have hnot : ∀ o, o ∉ ids pre → o ≠ c.id → o ∉ ids (pre ++ [c]) := by
            intro o h1 h2
            rw [ids_append]
            intro hm
            rcases List.mem_append.mp hm with hm | hm
            · exact h1 hm
            · simp [ids] at hm; exact h2 hm
          obtain ⟨a1, a2, a3, a4⟩ := resolve_ok (evalList ev orc t v) root t S hwf inv rest (pre ++ [c]) ht'
            c.a t.length na (hnot _ oa sa) hlen
          obtain ⟨b1, b2, b3, b4⟩ := resolve_ok (evalList ev orc t v) root t S hwf inv rest (pre ++ [c]) ht'
            c.b t.length nb (hnot _ ob sb) hlen
          have ea := ih (pre ++ [c]) ht' _ a4 a3
          have eb := ih (pre ++ [c]) ht' _ b4 b3
          simp only [evalClause, hoc, if_false]
          rw [ea, eb, a1, b1]
        · rw [upd_other _ _ _ _ hrc]
          apply ih (pre ++ [c]) ht' r _ hdr
          rw [ids_append]
          intro hm
          rcases List.mem_append.mp hm with hm | hm
          · exact hr hm
          · simp [ids] at hm; exact hrc hm

/-! ### the specialised tape is again well-formed -/

theorem emit_wf (vals : Nat → α) (root : Nat) (t : List Clause) (S : PushState)
    (hwf : WF t) (inv : PassInv vals root t S) :
    ∀ (rest pre : List Clause), t = pre ++ rest →
      WF (emit S t.length rest) ∧ (∀ i ∈ ids (emit S t.length rest), i ∈ ids rest) ∧
      (∀ d ∈ emit S t.length rest, d.op ≠ Op.oracle → d.a ∉ ids pre ∧ d.b ∉ ids pre) := by
  intro rest
  induction rest with
  | nil => intro pre _; simp [emit, WF, ids]
  | cons c rest ih =>
    intro pre ht
    have hwf' : WF (pre ++ c :: rest) := ht ▸ hwf
    have ht' : t = (pre ++ [c]) ++ rest := by simpa using ht
    have hlen : rest.length ≤ t.length := by rw [ht]; simp; omega
    obtain ⟨w1, w2, w3⟩ := ih (pre ++ [c]) ht'
    obtain ⟨h0, _, _, _, hnotin⟩ := WF_mid pre c rest hwf'
    have w3' : ∀ d ∈ emit S t.length rest, d.op ≠ Op.oracle → d.a ∉ ids pre ∧ d.b ∉ ids pre := by
      intro d hd hno
      obtain ⟨x, y⟩ := w3 d hd hno
      rw [ids_append] at x y
      exact ⟨fun h => x (List.mem_append_left _ h), fun h => y (List.mem_append_left _ h)⟩
    have w3c : ∀ d ∈ emit S t.length rest, d.op ≠ Op.oracle → d.a ≠ c.id ∧ d.b ≠ c.id := by
      intro d hd hno
      obtain ⟨x, y⟩ := w3 d hd hno
      rw [ids_append] at x y
      have hc : c.id ∈ ids [c] := by simp [ids]
      exact ⟨fun h => x (List.mem_append_right _ (h ▸ hc)), fun h => y (List.mem_append_right _ (h ▸ hc))⟩
    by_cases hdc : S.disabled c.id = true
    · have he : emit S t.length (c :: rest) = emit S t.length rest := by simp [emit, hdc]
      rw [he]
      refine ⟨w1, ?_, w3'⟩
      intro i hi
      simp only [ids, List.map_cons, List.mem_cons]
      right
      exact w2 i hi
    · have hdc' : S.disabled c.id = false := by simpa using hdc
      have hcm : c ∈ t := by rw [ht]; simp
      obtain ⟨_, hlive⟩ := inv.live c hcm hdc'
      have hidnot : c.id ∉ ids (emit S t.length rest) := fun h => hnotin (w2 _ h)
      by_cases hoc : c.op = Op.oracle
      · have he : emit S t.length (c :: rest) = c :: emit S t.length rest := by
          simp [emit, hdc', hoc]
        rw [he]
        refine ⟨⟨h0, hidnot, fun h => absurd hoc h, w3c, w1⟩, ?_, ?_⟩
        · intro i hi
          simp only [ids, List.map_cons, List.mem_cons] at hi ⊢
          rcases hi with hi | hi
          · left; exact hi
          · right; exact w2 i hi
        · intro d hd hno
          rcases List.mem_cons.mp hd with rfl | hd
          · exact absurd hoc hno
          · exact w3' d hd hno
      · obtain ⟨na, nb⟩ := hlive hoc
        obtain ⟨oa, ob, sa, sb⟩ := WF_operands pre (c :: rest) hwf' c (by simp) hoc
        have hnot : ∀ o, o ∉ ids pre → o ≠ c.id → o ∉ ids (pre ++ [c]) := by
          intro o h1 h2
          rw [ids_append]
          intro hm
          rcases List.mem_append.mp hm with hm | hm
          · exact h1 hm
          · simp [ids] at hm; exact h2 hm
        obtain ⟨_, _, _, a4⟩ := resolve_ok vals root t S hwf inv rest (pre ++ [c]) ht'
          c.a t.length na (hnot _ oa sa) hlen
        obtain ⟨_, _, _, b4⟩ := resolve_ok vals root t S hwf inv rest (pre ++ [c]) ht'
          c.b t.length nb (hnot _ ob sb) hlen
        rw [ids_append] at a4 b4
        have hc : c.id ∈ ids [c] := by simp [ids]
        have he : emit S t.length (c :: rest) =
            { c with a := resolve S.remap t.length c.a, b := resolve S.remap t.length c.b } ::
              emit S t.length rest := by
          simp [emit, hdc', hoc]
        rw [he]
        refine ⟨⟨h0, hidnot, ?_, w3c, w1⟩, ?_, ?_⟩
        · intro _
          refine ⟨fun h => a4 (List.mem_append_right _ ?_), fun h => b4 (List.mem_append_right _ ?_)⟩
          · have h' : resolve S.remap t.length c.a = c.id := h
            rw [h']; exact hc
          · have h' : resolve S.remap t.length c.b = c.id := h
            rw [h']; exact hc
        · intro i hi
          simp only [ids, List.map_cons, List.mem_cons] at hi ⊢
          rcases hi with hi | hi
          · left; exact hi
          · right; exact w2 i hi
        · intro d hd hno
          rcases List.mem_cons.mp hd with rfl | hd
          · exact ⟨fun h => a4 (List.mem_append_left _ h), fun h => b4 (List.mem_append_left _ h)⟩
          · exact w3' d hd hno

/-- the boolean test implies the well-formedness predicate -/
theorem wfb_sound : ∀ t : List Clause, wfb t = true → WF t := by
  intro t
  induction t with
  | nil => intro _; trivial
  | cons c rest ih =>
    intro h
    simp only [wfb, Bool.and_eq_true, bne_iff_ne, ne_eq, Bool.not_eq_true', Bool.or_eq_true,
      beq_iff_eq, List.all_eq_true] at h
    obtain ⟨⟨⟨⟨h0, h1⟩, h2⟩, h3⟩, h4⟩ := h
    refine ⟨h0, ?_, ?_, ?_, ih h4⟩
    · intro hm; simp [List.contains_iff_mem, hm] at h1
    · intro ho; rcases h2 with h2 | h2
      · exact absurd h2 ho
      · exact h2
    · intro d hd ho
      rcases h3 d hd with h3 | h3
      · exact absurd h3 ho
      · exact h3

end Libfive
