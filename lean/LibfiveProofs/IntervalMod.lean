/-
  C02 helper lemmas: `Interval::mod` (the `position` switch and the quotient refinement).
-/
import LibfiveProofs.Interval2
import Mathlib.Algebra.Order.Floor.Defs
import Mathlib.Algebra.Order.Floor.Ring
import Mathlib.Tactic.Ring

set_option linter.unusedSectionVars false
set_option linter.unusedVariables false

namespace Libfive.Ivl

open FVal

variable {K : Type} [Field K] [LinearOrder K] [IsStrictOrderedRing K] [FloorRing K]
variable {Bo : BoostOps K} {P : PointFns K}

/-- `−2³¹ ≤ q < 2³¹`: where `static_cast<int>(std::floor(q))` is the mathematical floor -/
def inIntRange (q : K) : Prop := -(2147483648 : K) ≤ q ∧ q < 2147483648

/-- the quotient interval computed for numerator `U` has finite bounds in `int` range -/
def QuotOK (Bo : BoostOps K) (U : Bnd K) (B : IVal K) : Prop :=
  ∃ ql qh : K, Bo.div U (Bo.abs B.b) = ⟨fin ql, fin qh⟩ ∧ inIntRange ql ∧ inIntRange qh

/-- The hypotheses missing from `Interval::mod`: operands not flagged (the flags are dropped), all
    four bounds finite (`mod(±∞, b)` and `mod(a, ±∞)` are NaN but only `b ∋ 0` is flagged), and the
    quotient bounds within `int` range (`static_cast<int>` overflows otherwise). -/
def ModSafe (Bo : BoostOps K) (A B : IVal K) : Prop :=
  A.mn = false ∧ B.mn = false ∧
  A.lo.isFinite = true ∧ A.hi.isFinite = true ∧ B.lo.isFinite = true ∧ B.hi.isFinite = true ∧
  (Ivl.hasZero B = false → QuotOK Bo A.b B ∧ QuotOK Bo (Bo.mulNeg1 A.b) B)

/-- contracts of the remaining primitives used by `mod`, and the meaning of `floor` -/
structure ModSound (Bo : BoostOps K) (P : PointFns K) : Prop where
  mulNeg1 : ∀ X a, inBb X a → inBb (Bo.mulNeg1 X) (FVal.neg a)
  mulInt : ∀ X b (k : Int), inBb X b → FVal.mul b (fin (k : K)) ≠ nan →
    inBb (Bo.mulInt X k) (FVal.mul b (fin (k : K)))
  floorInt : ∀ q : K, inIntRange q → Bo.floorInt (fin q) = ⌊q⌋
  floor : ∀ x : K, P.floor x = ⌊x⌋
  ofInt : ∀ k : Int, P.ofInt k = (k : K)

/-- Python-style remainder in exact arithmetic -/
def pyMod (x y : K) : K := x - y * ((⌊x / y⌋ : Int) : K)

theorem pyMod_pos {x y : K} (hy : 0 < y) : 0 ≤ pyMod x y ∧ pyMod x y < y := by
  unfold pyMod
  have h1 : ((⌊x / y⌋ : Int) : K) * y ≤ x := (le_div_iff₀ hy).1 (Int.floor_le _)
  have h2 : x < (((⌊x / y⌋ : Int) : K) + 1) * y := (div_lt_iff₀ hy).1 (Int.lt_floor_add_one _)
  constructor <;> nlinarith

theorem pyMod_neg {x y : K} (hy : y < 0) : y < pyMod x y ∧ pyMod x y ≤ 0 := by
  unfold pyMod
  have h1 : x ≤ ((⌊x / y⌋ : Int) : K) * y := (le_div_iff_of_neg hy).1 (Int.floor_le _)
  have h2 : (((⌊x / y⌋ : Int) : K) + 1) * y < x := (div_lt_iff_of_neg hy).1 (Int.lt_floor_add_one _)
  constructor <;> nlinarith

theorem pmod_fin (hM : ModSound Bo P) {x y : K} (hy : y ≠ 0) :
    pmod P (fin x) (fin y) = fin (pyMod x y) := by
  have hcond : (0 : K) < y ∨ y < 0 := (lt_or_gt_of_ne hy).symm.imp id id
  unfold pmod
  simp only [hcond, if_true, hM.floor, hM.ofInt]
  rcases lt_or_gt_of_ne hy with hneg | hpos
  · obtain ⟨h1, h2⟩ := pyMod_neg (x := x) hneg
    unfold pyMod at h1 h2
    have n1 : ¬ ((0 : K) < y) := not_lt.2 (le_of_lt hneg)
    simp only [n1, false_and, false_or, hneg, true_and, not_lt.2 (le_of_lt h1), if_false,
      not_lt.2 h2, pyMod]
  · obtain ⟨h1, h2⟩ := pyMod_pos (x := x) hpos
    unfold pyMod at h1 h2
    have n1 : ¬ (y < (0 : K)) := not_lt.2 (le_of_lt hpos)
    simp only [n1, false_and, or_false, hpos, true_and, not_lt.2 (le_of_lt h2), if_false,
      not_lt.2 h1, pyMod]

theorem imod_mn (A B : IVal K) : (imod Bo A B).mn = (FVal.ge B.hi zeroV && FVal.le B.lo zeroV) := rfl

/-- the coarse result `[fmin(b.lo,0), fmax(0,b.hi)]` contains every remainder -/
theorem out0_encl {l h x y : K} (hy : y ≠ 0) (hl : l ≤ y) (hh : y ≤ h) :
    inBb (⟨fmin (fin l) zeroV, fmax zeroV (fin h)⟩ : Bnd K) (fin (pyMod x y)) := by
  have hm : (y < 0 ∧ y < pyMod x y ∧ pyMod x y ≤ 0) ∨ (0 < y ∧ 0 ≤ pyMod x y ∧ pyMod x y < y) := by
    rcases lt_or_gt_of_ne hy with hneg | hpos
    · exact Or.inl ⟨hneg, pyMod_neg hneg⟩
    · exact Or.inr ⟨hpos, pyMod_pos hpos⟩
  refine ⟨by simp, ?_, ?_⟩
  · show FVal.le (fmin (fin l) zeroV) (fin (pyMod x y)) = true
    simp only [fmin, zeroV, lt_fin_fin]
    by_cases hc : (0 : K) < l
    · simp only [hc, decide_true, if_true, le_fin_fin, decide_eq_true_eq]
      rcases hm with ⟨h1, _, _⟩ | ⟨_, h2, _⟩
      · exact absurd hc (not_lt.2 (le_of_lt (lt_of_le_of_lt hl h1)))
      · exact h2
    · simp only [hc, decide_false, Bool.false_eq_true, if_false, le_fin_fin, decide_eq_true_eq]
      rcases hm with ⟨_, h2, _⟩ | ⟨_, h2, _⟩
      · exact le_of_lt (lt_of_le_of_lt hl h2)
      · exact le_trans (not_lt.1 hc) h2
  · show FVal.le (fin (pyMod x y)) (fmax zeroV (fin h)) = true
    simp only [fmax, zeroV, lt_fin_fin]
    by_cases hc : (0 : K) < h
    · simp only [hc, decide_true, if_true, le_fin_fin, decide_eq_true_eq]
      rcases hm with ⟨_, _, h3⟩ | ⟨_, _, h3⟩
      · exact le_trans h3 (le_of_lt hc)
      · exact le_of_lt (lt_of_lt_of_le h3 hh)
    · simp only [hc, decide_false, Bool.false_eq_true, if_false, le_fin_fin, decide_eq_true_eq]
      rcases hm with ⟨_, _, h3⟩ | ⟨h1, _, _⟩
      · exact h3
      · exact absurd (lt_of_lt_of_le h1 hh) hc

theorem Bnd.ext' {a b : Bnd K} (h1 : a.lo = b.lo) (h2 : a.hi = b.hi) : a = b := by
  cases a; cases b; simp_all

def out0 (B : IVal K) : Bnd K := ⟨fmin B.lo zeroV, fmax zeroV B.hi⟩

theorem imod_b_zero {A B : IVal K} (hl : A.lo.isFinite = true) (hh : A.hi.isFinite = true)
    (h1 : FVal.ge B.hi zeroV = true) (h2 : FVal.le B.lo zeroV = true) :
    (imod Bo A B).b = out0 B := by
  simp [imod, modPosition, h1, h2, hl, hh, out0, IVal.b, IVal.of]

theorem imod_b_pos {A B : IVal K} (hl : A.lo.isFinite = true) (hh : A.hi.isFinite = true)
    (h1 : FVal.ge B.hi zeroV = true) (h2 : FVal.le B.lo zeroV = false) :
    (imod Bo A B).b =
      (if Bo.floorInt (Bo.div A.b (Bo.abs B.b)).lo == Bo.floorInt (Bo.div A.b (Bo.abs B.b)).hi
       then Bo.sub A.b (Bo.mulInt B.b (Bo.floorInt (Bo.div A.b (Bo.abs B.b)).lo)) else out0 B) := by
  apply Bnd.ext' <;> simp [imod, modPosition, h1, h2, hl, hh, out0, IVal.b, IVal.of]

theorem imod_b_neg {A B : IVal K} (hl : A.lo.isFinite = true) (hh : A.hi.isFinite = true)
    (h1 : FVal.ge B.hi zeroV = false) (h2 : FVal.le B.lo zeroV = true) :
    (imod Bo A B).b =
      (if Bo.floorInt (Bo.div (Bo.mulNeg1 A.b) (Bo.abs B.b)).lo ==
          Bo.floorInt (Bo.div (Bo.mulNeg1 A.b) (Bo.abs B.b)).hi
       then Bo.sub A.b (Bo.mulInt B.b (Bo.floorInt (Bo.div (Bo.mulNeg1 A.b) (Bo.abs B.b)).lo))
       else out0 B) := by
  apply Bnd.ext' <;> simp [imod, modPosition, h1, h2, hl, hh, out0, IVal.b, IVal.of]

theorem quot_floor {ql qh q : K} (hd : inBb (⟨fin ql, fin qh⟩ : Bnd K) (fin q))
    (heq : (⌊ql⌋ : Int) = ⌊qh⌋) : (⌊q⌋ : Int) = ⌊ql⌋ := by
  have h1 : ql ≤ q := by simpa using hd.2.1
  have h2 : q ≤ qh := by simpa using hd.2.2
  exact le_antisymm (by rw [heq]; exact Int.floor_le_floor h2) (Int.floor_le_floor h1)

theorem refined_encl (hS : BoostSound Bo P) (hM : ModSound Bo P) {A B : Bnd K} {x y : K}
    (ia : inBb A (fin x)) (ib : inBb B (fin y)) {n : Int} (hn : (⌊x / y⌋ : Int) = n) :
    inBb (Bo.sub A (Bo.mulInt B n)) (fin (pyMod x y)) := by
  have hmul := hM.mulInt B (fin y) n ib (by simp [FVal.mul])
  have hsub := hS.sub A _ (fin x) _ ia hmul (by simp [FVal.mul, FVal.sub, FVal.add, FVal.neg])
  have : FVal.sub (fin x) (FVal.mul (fin y) (fin (n : K))) = fin (pyMod x y) := by
    simp only [FVal.mul, FVal.sub, FVal.add, FVal.neg, pyMod, hn]
    congr 1
    ring
  rw [this] at hsub
  exact hsub

/-- `mod` under the missing hypotheses `ModSafe` -/
theorem mod_enclS_partial (hS : BoostSound Bo P) (hM : ModSound Bo P) {A B : IVal K} {a b : FVal K}
    (hsafe : ModSafe Bo A B) (ha : enclS A a) (hb : enclS B b) :
    enclS (imod Bo A B) (pointOp P Op.mod a b) := by
  obtain ⟨hAm, hBm, hAl, hAh, hBl, hBh, hq⟩ := hsafe
  have ia : inB A a := by
    rcases ha with ⟨h, _⟩ | h
    · rw [hAm] at h; exact Bool.noConfusion h
    · exact h
  have ib : inB B b := by
    rcases hb with ⟨h, _⟩ | h
    · rw [hBm] at h; exact Bool.noConfusion h
    · exact h
  obtain ⟨x, rfl⟩ := ia.finite hAl hAh
  obtain ⟨y, rfl⟩ := ib.finite hBl hBh
  show enclS (imod Bo A B) (pmod P (fin x) (fin y))
  by_cases hy : y = 0
  · subst hy
    have hz := ib.zero_bounds
    have : pmod P (fin x) (fin (0 : K)) = nan := by simp [pmod]
    rw [this]
    exact Or.inl ⟨by rw [imod_mn]; simp [hz.1, hz.2], rfl⟩
  · rw [pmod_fin hM hy]
    right
    obtain ⟨l, hl⟩ : ∃ l, B.lo = fin l := by
      cases h : B.lo <;> simp_all [FVal.isFinite]
    obtain ⟨h, hh⟩ : ∃ h, B.hi = fin h := by
      cases h : B.hi <;> simp_all [FVal.isFinite]
    have hly : l ≤ y := by
      have := ib.2.1; simp only [IVal.b, hl, le_fin_fin, decide_eq_true_eq] at this; exact this
    have hyh : y ≤ h := by
      have := ib.2.2; simp only [IVal.b, hh, le_fin_fin, decide_eq_true_eq] at this; exact this
    have hout0 : inBb (out0 B) (fin (pyMod x y)) := by
      have := out0_encl (x := x) hy hly hyh
      simpa [out0, hl, hh] using this
    show inBb (imod Bo A B).b (fin (pyMod x y))
    by_cases hz : Ivl.hasZero B = true
    · have hz' := hz
      simp only [Ivl.hasZero, Bool.and_eq_true] at hz'
      rw [imod_b_zero hAl hAh hz'.2 hz'.1]
      exact hout0
    · have hz0 : Ivl.hasZero B = false := by simpa using hz
      obtain ⟨hq1, hq2⟩ := hq hz0
      have hb0 : (fin y : FVal K) ≠ fin 0 := by
        intro e; injection e with e; exact hy e
      rcases lt_or_gt_of_ne hy with hneg | hpos
      · -- b < 0: position 2
        have h2 : FVal.le B.lo zeroV = true := by
          simp only [hl, zeroV, le_fin_fin, decide_eq_true_eq]; exact le_of_lt (lt_of_le_of_lt hly hneg)
        have h1 : FVal.ge B.hi zeroV = false := by
          cases hc : FVal.ge B.hi zeroV
          · rfl
          · simp [Ivl.hasZero, h2, hc] at hz0
        rw [imod_b_neg hAl hAh h1 h2]
        obtain ⟨ql, qh, hqeq, r1, r2⟩ := hq2
        simp only [hqeq, hM.floorInt ql r1, hM.floorInt qh r2]
        by_cases hc : ((⌊ql⌋ : Int) == ⌊qh⌋) = true
        · simp only [hc, if_true]
          have heq : (⌊ql⌋ : Int) = ⌊qh⌋ := by simpa using hc
          have habs := hS.abs B.b (fin y) ib
          have hab : FVal.abs (fin y) = fin (-y) := by simp [FVal.abs, hneg]
          rw [hab] at habs
          have hneg1 := hM.mulNeg1 A.b (fin x) ia
          have hnn : (-y) ≠ 0 := neg_ne_zero.2 hy
          have hd := hS.div _ _ _ _ hneg1 habs (by intro e; injection e with e; exact hnn e)
            (by simp [FVal.neg, FVal.div, hneg])
          have hdv : FVal.div (FVal.neg (fin x)) (fin (-y)) = fin (x / y) := by
            simp [FVal.neg, FVal.div, hneg, neg_div_neg_eq]
          rw [hdv, hqeq] at hd
          exact refined_encl hS hM ia ib (quot_floor hd heq)
        · simp only [hc]; exact hout0
      · -- b > 0: position 1
        have h1 : FVal.ge B.hi zeroV = true := by
          simp only [FVal.ge, hh, zeroV, le_fin_fin, decide_eq_true_eq]
          exact le_of_lt (lt_of_lt_of_le hpos hyh)
        have h2 : FVal.le B.lo zeroV = false := by
          cases hc : FVal.le B.lo zeroV
          · rfl
          · simp [Ivl.hasZero, h1, hc] at hz0
        rw [imod_b_pos hAl hAh h1 h2]
        obtain ⟨ql, qh, hqeq, r1, r2⟩ := hq1
        simp only [hqeq, hM.floorInt ql r1, hM.floorInt qh r2]
        by_cases hc : ((⌊ql⌋ : Int) == ⌊qh⌋) = true
        · simp only [hc, if_true]
          have heq : (⌊ql⌋ : Int) = ⌊qh⌋ := by simpa using hc
          have habs := hS.abs B.b (fin y) ib
          have hab : FVal.abs (fin y) = fin y := by simp [FVal.abs, not_lt.2 (le_of_lt hpos)]
          rw [hab] at habs
          have hd := hS.div _ _ _ _ ia habs hb0 (by simp [FVal.div, hpos])
          have hdv : FVal.div (fin x) (fin y) = fin (x / y) := by simp [FVal.div, hpos]
          rw [hdv, hqeq] at hd
          exact refined_encl hS hM ia ib (quot_floor hd heq)
        · simp only [hc]; exact hout0

end Libfive.Ivl
