/-
  C02 helper lemmas: `Interval::mod` (the `position` switch and the quotient refinement).
-/
import LibfiveProofs.Interval2
import Mathlib.Algebra.Order.Floor.Defs
import Mathlib.Algebra.Order.Floor.Ring
import Mathlib.Tactic.Ring

set_option linter.unusedSectionVars false
set_option linter.unusedVariables false

namespace Libfive.Ivl

open FVal

variable {K : Type} [Field K] [LinearOrder K] [IsStrictOrderedRing K] [FloorRing K]
variable {Bo : BoostOps K} {P : PointFns K}

/-- contracts of the remaining primitives used by `mod`, and the meaning of `floor` -/
structure ModSound (Bo : BoostOps K) (P : PointFns K) : Prop where
  mulNeg1 : ∀ X a, inBb X a → inBb (Bo.mulNeg1 X) (FVal.neg a)
  mulF : ∀ X b (k : K), inBb X b → FVal.mul b (fin k) ≠ nan →
    inBb (Bo.mulF X (fin k)) (FVal.mul b (fin k))
  /-- `std::floor` is exact on finite floats … -/
  floorF_fin : ∀ q : K, Bo.floorF (fin q) = fin ((⌊q⌋ : Int) : K)
  /-- … and maps non-finite values to non-finite values -/
  floorF_finite : ∀ v : FVal K, (Bo.floorF v).isFinite = true → v.isFinite = true
  floor : ∀ x : K, P.floor x = ⌊x⌋
  ofInt : ∀ k : Int, P.ofInt k = (k : K)

/-- Python-style remainder in exact arithmetic -/
def pyMod (x y : K) : K := x - y * ((⌊x / y⌋ : Int) : K)

theorem pyMod_pos {x y : K} (hy : 0 < y) : 0 ≤ pyMod x y ∧ pyMod x y < y := by
  unfold pyMod
  have h1 : ((⌊x / y⌋ : Int) : K) * y ≤ x := (le_div_iff₀ hy).1 (Int.floor_le _)
  have h2 : x < (((⌊x / y⌋ : Int) : K) + 1) * y := (div_lt_iff₀ hy).1 (Int.lt_floor_add_one _)
  constructor <;> nlinarith

theorem pyMod_neg {x y : K} (hy : y < 0) : y < pyMod x y ∧ pyMod x y ≤ 0 := by
  unfold pyMod
  have h1 : x ≤ ((⌊x / y⌋ : Int) : K) * y := (le_div_iff_of_neg hy).1 (Int.floor_le _)
  have h2 : (((⌊x / y⌋ : Int) : K) + 1) * y < x := (div_lt_iff_of_neg hy).1 (Int.lt_floor_add_one _)
  constructor <;> nlinarith

theorem pmod_fin (hM : ModSound Bo P) {x y : K} (hy : y ≠ 0) :
    pmod P (fin x) (fin y) = fin (pyMod x y) := by
  have hcond : (0 : K) < y ∨ y < 0 := (lt_or_gt_of_ne hy).symm.imp id id
  unfold pmod
  simp only [hcond, if_true, hM.floor, hM.ofInt]
  rcases lt_or_gt_of_ne hy with hneg | hpos
  · obtain ⟨h1, h2⟩ := pyMod_neg (x := x) hneg
    unfold pyMod at h1 h2
    have n1 : ¬ ((0 : K) < y) := not_lt.2 (le_of_lt hneg)
    simp only [n1, false_and, false_or, hneg, true_and, not_lt.2 (le_of_lt h1), if_false,
      not_lt.2 h2, pyMod]
  · obtain ⟨h1, h2⟩ := pyMod_pos (x := x) hpos
    unfold pyMod at h1 h2
    have n1 : ¬ (y < (0 : K)) := not_lt.2 (le_of_lt hpos)
    simp only [n1, false_and, or_false, hpos, true_and, not_lt.2 (le_of_lt h2), if_false,
      not_lt.2 h1, pyMod]

/-- the Boost bounds `Interval::mod` hands to the constructor -/
def imodOut (Bo : BoostOps K) (A B : IVal K) : Bnd K :=
  if A.hi.isFinite && A.lo.isFinite then
    match modPosition B with
    | 3 => ⟨fmin B.lo zeroV, fmax zeroV B.hi⟩
    | 0 => Bo.empty
    | p =>
      if (Bo.floorF (Bo.div (if p == 2 then Bo.mulNeg1 A.b else A.b) (Bo.abs B.b)).lo).isFinite &&
          feq (Bo.floorF (Bo.div (if p == 2 then Bo.mulNeg1 A.b else A.b) (Bo.abs B.b)).lo)
            (Bo.floorF (Bo.div (if p == 2 then Bo.mulNeg1 A.b else A.b) (Bo.abs B.b)).hi) then
        Bo.sub A.b (Bo.mulF B.b
          (Bo.floorF (Bo.div (if p == 2 then Bo.mulNeg1 A.b else A.b) (Bo.abs B.b)).lo))
      else ⟨fmin B.lo zeroV, fmax zeroV B.hi⟩
  else ⟨fmin B.lo zeroV, fmax zeroV B.hi⟩

theorem imod_eq (A B : IVal K) : imod Bo A B = IVal.of (imodOut Bo A B)
    (A.mn || B.mn || (FVal.ge B.hi zeroV && FVal.le B.lo zeroV) ||
      A.lo.isInf || A.hi.isInf || B.lo.isInf || B.hi.isInf) := rfl

/-- the flag of `mod`: the authored expression, or a NaN bound returned by Boost (the constructor
    then replaces the bounds by the whole line) -/
theorem imod_flag (A B : IVal K) : (imod Bo A B).mn = true ↔
    ((A.mn || B.mn || (FVal.ge B.hi zeroV && FVal.le B.lo zeroV) ||
      A.lo.isInf || A.hi.isInf || B.lo.isInf || B.hi.isInf) = true ∨
     (imodOut Bo A B).lo.isNan = true ∨ (imodOut Bo A B).hi.isNan = true) := by
  rw [imod_eq, mn_of]
  simp only [Bool.or_eq_true]
  constructor
  · rintro ((h | h) | h)
    · exact Or.inl h
    · exact Or.inr (Or.inl h)
    · exact Or.inr (Or.inr h)
  · rintro (h | h | h)
    · exact Or.inl (Or.inl h)
    · exact Or.inl (Or.inr h)
    · exact Or.inr h

theorem out0_lo {l x y : K} (hy : y ≠ 0) (hl : l ≤ y) :
    FVal.le (fmin (fin l) zeroV) (fin (pyMod x y)) = true := by
  have hm : (y < 0 ∧ y < pyMod x y ∧ pyMod x y ≤ 0) ∨ (0 < y ∧ 0 ≤ pyMod x y ∧ pyMod x y < y) := by
    rcases lt_or_gt_of_ne hy with hneg | hpos
    · exact Or.inl ⟨hneg, pyMod_neg hneg⟩
    · exact Or.inr ⟨hpos, pyMod_pos hpos⟩
  simp only [fmin, zeroV, lt_fin_fin]
  by_cases hc : (0 : K) < l
  · simp only [hc, decide_true, if_true, le_fin_fin, decide_eq_true_eq]
    rcases hm with ⟨h1, _, _⟩ | ⟨_, h2, _⟩
    · exact absurd hc (not_lt.2 (le_of_lt (lt_of_le_of_lt hl h1)))
    · exact h2
  · simp only [hc, decide_false, Bool.false_eq_true, if_false, le_fin_fin, decide_eq_true_eq]
    rcases hm with ⟨_, h2, _⟩ | ⟨_, h2, _⟩
    · exact le_of_lt (lt_of_le_of_lt hl h2)
    · exact le_trans (not_lt.1 hc) h2

theorem out0_hi {h x y : K} (hy : y ≠ 0) (hh : y ≤ h) :
    FVal.le (fin (pyMod x y)) (fmax zeroV (fin h)) = true := by
  have hm : (y < 0 ∧ y < pyMod x y ∧ pyMod x y ≤ 0) ∨ (0 < y ∧ 0 ≤ pyMod x y ∧ pyMod x y < y) := by
    rcases lt_or_gt_of_ne hy with hneg | hpos
    · exact Or.inl ⟨hneg, pyMod_neg hneg⟩
    · exact Or.inr ⟨hpos, pyMod_pos hpos⟩
  simp only [fmax, zeroV, lt_fin_fin]
  by_cases hc : (0 : K) < h
  · simp only [hc, decide_true, if_true, le_fin_fin, decide_eq_true_eq]
    rcases hm with ⟨_, _, h3⟩ | ⟨_, _, h3⟩
    · exact le_trans h3 (le_of_lt hc)
    · exact le_of_lt (lt_of_lt_of_le h3 hh)
  · simp only [hc, decide_false, Bool.false_eq_true, if_false, le_fin_fin, decide_eq_true_eq]
    rcases hm with ⟨_, _, h3⟩ | ⟨h1, _, _⟩
    · exact h3
    · exact absurd (lt_of_lt_of_le h1 hh) hc

theorem Bnd.ext' {a b : Bnd K} (h1 : a.lo = b.lo) (h2 : a.hi = b.hi) : a = b := by
  cases a; cases b; simp_all

def out0 (B : IVal K) : Bnd K := ⟨fmin B.lo zeroV, fmax zeroV B.hi⟩

/-- the coarse result `[fmin(b.lo,0), fmax(0,b.hi)]` contains every remainder, for any (also
    infinite) divisor bounds -/
theorem out0_encl {B : IVal K} {x y : K} (ib : inB B (fin y)) (hy : y ≠ 0) :
    inBb (out0 B) (fin (pyMod x y)) := by
  obtain ⟨_, h1, h2⟩ := ib
  refine ⟨by simp, ?_, ?_⟩
  · show FVal.le (fmin B.lo zeroV) (fin (pyMod x y)) = true
    have h1 : FVal.le B.lo (fin y) = true := h1
    cases hl : B.lo with
    | nan => rw [hl] at h1; simp at h1
    | pinf => rw [hl] at h1; simp [FVal.le] at h1
    | ninf => simp [fmin, zeroV, FVal.lt, FVal.le]
    | fin l =>
      rw [hl] at h1
      exact out0_lo hy (by simpa using h1)
  · show FVal.le (fin (pyMod x y)) (fmax zeroV B.hi) = true
    have h2 : FVal.le (fin y) B.hi = true := h2
    cases hh : B.hi with
    | nan => rw [hh] at h2; simp at h2
    | ninf => rw [hh] at h2; simp [FVal.le] at h2
    | pinf => simp [fmax, zeroV, FVal.lt, FVal.le]
    | fin h =>
      rw [hh] at h2
      exact out0_hi hy (by simpa using h2)

theorem imod_b_notfin {A B : IVal K} (h : (A.hi.isFinite && A.lo.isFinite) = false) :
    imodOut Bo A B = out0 B := by
  apply Bnd.ext' <;> simp [imodOut, h, out0]

theorem imod_b_zero {A B : IVal K} (h : (A.hi.isFinite && A.lo.isFinite) = true)
    (h1 : FVal.ge B.hi zeroV = true) (h2 : FVal.le B.lo zeroV = true) :
    imodOut Bo A B = out0 B := by
  apply Bnd.ext' <;> simp [imodOut, modPosition, h1, h2, h, out0]

theorem imod_b_pos {A B : IVal K} (h : (A.hi.isFinite && A.lo.isFinite) = true)
    (h1 : FVal.ge B.hi zeroV = true) (h2 : FVal.le B.lo zeroV = false) :
    imodOut Bo A B =
      (if ((Bo.floorF (Bo.div A.b (Bo.abs B.b)).lo).isFinite &&
            FVal.feq (Bo.floorF (Bo.div A.b (Bo.abs B.b)).lo) (Bo.floorF (Bo.div A.b (Bo.abs B.b)).hi)) = true
       then Bo.sub A.b (Bo.mulF B.b (Bo.floorF (Bo.div A.b (Bo.abs B.b)).lo)) else out0 B) := by
  apply Bnd.ext' <;> simp [imodOut, modPosition, h1, h2, h, out0, IVal.b]

theorem imod_b_neg {A B : IVal K} (h : (A.hi.isFinite && A.lo.isFinite) = true)
    (h1 : FVal.ge B.hi zeroV = false) (h2 : FVal.le B.lo zeroV = true) :
    imodOut Bo A B =
      (if ((Bo.floorF (Bo.div (Bo.mulNeg1 A.b) (Bo.abs B.b)).lo).isFinite &&
            FVal.feq (Bo.floorF (Bo.div (Bo.mulNeg1 A.b) (Bo.abs B.b)).lo)
              (Bo.floorF (Bo.div (Bo.mulNeg1 A.b) (Bo.abs B.b)).hi)) = true
       then Bo.sub A.b (Bo.mulF B.b (Bo.floorF (Bo.div (Bo.mulNeg1 A.b) (Bo.abs B.b)).lo))
       else out0 B) := by
  apply Bnd.ext' <;> simp [imodOut, modPosition, h1, h2, h, out0, IVal.b]

/-- what the refinement test `isfinite(floor q.lo) && floor q.lo == floor q.hi` establishes -/
theorem floor_cond (hM : ModSound Bo P) {q : Bnd K}
    (hc : ((Bo.floorF q.lo).isFinite && FVal.feq (Bo.floorF q.lo) (Bo.floorF q.hi)) = true) :
    ∃ ql qh : K, q.lo = fin ql ∧ q.hi = fin qh ∧ Bo.floorF q.lo = fin ((⌊ql⌋ : Int) : K) ∧
      (⌊ql⌋ : Int) = ⌊qh⌋ := by
  simp only [Bool.and_eq_true] at hc
  obtain ⟨hf, he⟩ := hc
  have h1 := hM.floorF_finite _ hf
  obtain ⟨ql, hql⟩ : ∃ ql, q.lo = fin ql := by
    cases h : q.lo <;> simp_all [FVal.isFinite]
  have e1 : Bo.floorF q.lo = fin ((⌊ql⌋ : Int) : K) := by rw [hql]; exact hM.floorF_fin ql
  rw [e1] at he
  simp only [FVal.feq, Bool.and_eq_true] at he
  have e2 : Bo.floorF q.hi = fin ((⌊ql⌋ : Int) : K) := fle_antisymm_fin he.1 he.2
  have h2 := hM.floorF_finite q.hi (by rw [e2]; rfl)
  obtain ⟨qh, hqh⟩ : ∃ qh, q.hi = fin qh := by
    cases h : q.hi <;> simp_all [FVal.isFinite]
  have e3 : Bo.floorF q.hi = fin ((⌊qh⌋ : Int) : K) := by rw [hqh]; exact hM.floorF_fin qh
  rw [e3] at e2
  have : ((⌊qh⌋ : Int) : K) = ((⌊ql⌋ : Int) : K) := by injection e2
  exact ⟨ql, qh, hql, hqh, e1, (Int.cast_injective this).symm⟩

theorem quot_floor {ql qh q : K} (h1 : ql ≤ q) (h2 : q ≤ qh)
    (heq : (⌊ql⌋ : Int) = ⌊qh⌋) : (⌊q⌋ : Int) = ⌊ql⌋ :=
  le_antisymm (by rw [heq]; exact Int.floor_le_floor h2) (Int.floor_le_floor h1)

theorem refined_encl (hS : BoostSound Bo P) (hM : ModSound Bo P) {A B : Bnd K} {x y : K}
    (ia : inBb A (fin x)) (ib : inBb B (fin y)) {n : Int} (hn : (⌊x / y⌋ : Int) = n) :
    inBb (Bo.sub A (Bo.mulF B (fin (n : K)))) (fin (pyMod x y)) := by
  have hmul := hM.mulF B (fin y) (n : K) ib (by simp [FVal.mul])
  have hsub := hS.sub A _ (fin x) _ ia hmul (by simp [FVal.mul, FVal.sub, FVal.add, FVal.neg])
  have : FVal.sub (fin x) (FVal.mul (fin y) (fin (n : K))) = fin (pyMod x y) := by
    simp only [FVal.mul, FVal.sub, FVal.add, FVal.neg, pyMod, hn]
    congr 1
    ring
  rw [this] at hsub
  exact hsub

/-- the quotient refinement is sound whenever its test passes -/
theorem refine_step (hS : BoostSound Bo P) (hM : ModSound Bo P) {A B : IVal K} {x y q : K}
    {Q : Bnd K} (ia : inB A (fin x)) (ib : inB B (fin y)) (hq : x / y = q)
    (hd : inBb Q (fin q)) (hout0 : inBb (out0 B) (fin (pyMod x y))) :
    inBb (if ((Bo.floorF Q.lo).isFinite && FVal.feq (Bo.floorF Q.lo) (Bo.floorF Q.hi)) = true
          then Bo.sub A.b (Bo.mulF B.b (Bo.floorF Q.lo)) else out0 B) (fin (pyMod x y)) := by
  by_cases hc : ((Bo.floorF Q.lo).isFinite && FVal.feq (Bo.floorF Q.lo) (Bo.floorF Q.hi)) = true
  · simp only [hc, if_true]
    obtain ⟨ql, qh, hql, hqh, e1, heq⟩ := floor_cond hM hc
    have h1 : ql ≤ q := by have := hd.2.1; rw [hql] at this; simpa using this
    have h2 : q ≤ qh := by have := hd.2.2; rw [hqh] at this; simpa using this
    rw [e1]
    exact refined_encl hS hM ia ib (by rw [hq]; exact quot_floor h1 h2 heq)
  · simp only [hc]; exact hout0

theorem pmod_nan_l (b : FVal K) : pmod P nan b = nan := by cases b <;> rfl
theorem pmod_nan_r (a : FVal K) : pmod P a nan = nan := by cases a <;> rfl
theorem pmod_inf_l {a : FVal K} (b : FVal K) (h : a.isInf = true) : pmod P a b = nan := by
  cases a <;> simp [FVal.isInf] at h <;> cases b <;> rfl
theorem pmod_inf_r (a : FVal K) {b : FVal K} (h : b.isInf = true) : pmod P a b = nan := by
  cases b <;> simp [FVal.isInf] at h <;> cases a <;> rfl

/-- **`mod`**, unconditional on the fixed tree: the operand flags are propagated, infinite operand
    bounds and divisors containing 0 are flagged, and the refinement compares exact floors. -/
theorem mod_enclS (hS : BoostSound Bo P) (hM : ModSound Bo P) {A B : IVal K} {a b : FVal K}
    (ha : enclS A a) (hb : enclS B b) :
    enclS (imod Bo A B) (pointOp P Op.mod a b) := by
  show enclS (imod Bo A B) (pmod P a b)
  by_cases n1 : a = nan
  · subst n1
    rw [pmod_nan_l]
    exact Or.inl ⟨(imod_flag A B).2 (Or.inl (by simp [ha.mn_of_nan])), rfl⟩
  by_cases n2 : b = nan
  · subst n2
    rw [pmod_nan_r]
    exact Or.inl ⟨(imod_flag A B).2 (Or.inl (by simp [hb.mn_of_nan])), rfl⟩
  have ia := ha.inB_of_ne n1
  have ib := hb.inB_of_ne n2
  by_cases i1 : a.isInf = true
  · rw [pmod_inf_l b i1]
    have := ia.isInf_bounds i1
    simp only [Bool.or_eq_true] at this
    exact Or.inl ⟨(imod_flag A B).2 (Or.inl (by rcases this with t | t <;> simp [t])), rfl⟩
  by_cases i2 : b.isInf = true
  · rw [pmod_inf_r a i2]
    have := ib.isInf_bounds i2
    simp only [Bool.or_eq_true] at this
    exact Or.inl ⟨(imod_flag A B).2 (Or.inl (by rcases this with t | t <;> simp [t])), rfl⟩
  obtain ⟨x, rfl⟩ : ∃ x, a = fin x := by cases a <;> simp_all [FVal.isInf]
  obtain ⟨y, rfl⟩ : ∃ y, b = fin y := by cases b <;> simp_all [FVal.isInf]
  by_cases hy : y = 0
  · subst hy
    have hz := ib.zero_bounds
    have : pmod P (fin x) (fin (0 : K)) = nan := by simp [pmod]
    rw [this]
    exact Or.inl ⟨(imod_flag A B).2 (Or.inl (by simp [hz.1, hz.2])), rfl⟩
  · rw [pmod_fin hM hy]
    right
    have hout0 : inBb (out0 B) (fin (pyMod x y)) := out0_encl ib hy
    rw [imod_eq]
    apply inB_of
    by_cases hfin : (A.hi.isFinite && A.lo.isFinite) = true
    swap
    · rw [imod_b_notfin (by simpa using hfin)]; exact hout0
    by_cases hz : Ivl.hasZero B = true
    · have hz' := hz
      simp only [Ivl.hasZero, Bool.and_eq_true] at hz'
      rw [imod_b_zero hfin hz'.2 hz'.1]
      exact hout0
    · have hz0 : Ivl.hasZero B = false := by simpa using hz
      have hb0 : (fin y : FVal K) ≠ fin 0 := by
        intro e; injection e with e; exact hy e
      have habs := hS.abs B.b (fin y) ib
      rcases lt_or_gt_of_ne hy with hneg | hpos
      · -- b < 0: position 2
        have h2 : FVal.le B.lo zeroV = true :=
          fle_trans ib.2.1 (by simp [zeroV, le_of_lt hneg])
        have h1 : FVal.ge B.hi zeroV = false := by
          cases hc : FVal.ge B.hi zeroV
          · rfl
          · simp [Ivl.hasZero, h2, hc] at hz0
        rw [imod_b_neg hfin h1 h2]
        have hab : FVal.abs (fin y) = fin (-y) := by simp [FVal.abs, hneg]
        rw [hab] at habs
        have hneg1 := hM.mulNeg1 A.b (fin x) ia
        have hnn : (-y) ≠ 0 := neg_ne_zero.2 hy
        have hd := hS.div _ _ _ _ hneg1 habs (by intro e; injection e with e; exact hnn e)
          (by simp [FVal.neg, FVal.div, hneg])
        have hdv : FVal.div (FVal.neg (fin x)) (fin (-y)) = fin (x / y) := by
          simp [FVal.neg, FVal.div, hneg, neg_div_neg_eq]
        rw [hdv] at hd
        exact refine_step hS hM ia ib rfl hd hout0
      · -- b > 0: position 1
        have h1 : FVal.ge B.hi zeroV = true :=
          fle_trans (by simp [zeroV, le_of_lt hpos]) ib.2.2
        have h2 : FVal.le B.lo zeroV = false := by
          cases hc : FVal.le B.lo zeroV
          · rfl
          · simp [Ivl.hasZero, h1, hc] at hz0
        rw [imod_b_pos hfin h1 h2]
        have hab : FVal.abs (fin y) = fin y := by simp [FVal.abs, not_lt.2 (le_of_lt hpos)]
        rw [hab] at habs
        have hd := hS.div _ _ _ _ ia habs hb0 (by simp [FVal.div, hpos])
        have hdv : FVal.div (fin x) (fin y) = fin (x / y) := by simp [FVal.div, hpos]
        rw [hdv] at hd
        exact refine_step hS hM ia ib rfl hd hout0

end Libfive.Ivl
