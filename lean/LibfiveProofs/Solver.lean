/-
  Helper lemmas for C17 (model: LibfiveModel/Solver.lean).  Core Lean only.
-/
import LibfiveModel.Solver

namespace Libfive.Solver

variable {V : Type}

/-! ### association lists -/

theorem keys_load (e vs : Assign V) : keys (load e vs) = keys e := by
  simp [keys, load, List.map_map, Function.comp_def]

theorem keys_stepVars (S : Scalar V) (vars ds : Assign V) (step : V) :
    keys (stepVars S vars ds step) = keys vars := by
  simp [keys, stepVars, List.map_map, Function.comp_def]

theorem lookup_eq_none_of_not_mem_keys (a : Assign V) (x : Var) (h : x ∉ keys a) :
    a.lookup x = none := by
  induction a with
  | nil => rfl
  | cons p t ih =>
    obtain ⟨k, v⟩ := p
    simp only [keys, List.map_cons, List.mem_cons, not_or] at h
    have hne : (x == k) = false := by simpa using h.1
    simp only [List.lookup, hne]
    exact ih (by simpa [keys] using h.2)

theorem mem_keys_of_lookup_eq_some (a : Assign V) (x : Var) (v : V) (h : a.lookup x = some v) :
    x ∈ keys a := by
  by_cases hx : x ∈ keys a
  · exact hx
  · rw [lookup_eq_none_of_not_mem_keys a x hx] at h; cases h

/-- `lookup` through `load`: a slot keeps its key and takes the listed value if there is one. -/
theorem lookup_load (e vs : Assign V) (x : Var) :
    (load e vs).lookup x = (e.lookup x).map fun w => (vs.lookup x).getD w := by
  induction e with
  | nil => rfl
  | cons p t ih =>
    obtain ⟨k, v⟩ := p
    by_cases hk : (x == k) = true
    · have : x = k := by simpa using hk
      subst this
      simp [load, List.lookup]
    · have hk' : (x == k) = false := by simpa using hk
      simp only [load, List.map_cons, List.lookup, hk']
      simpa [load] using ih

/-- lookup in a list mapped value-wise -/
theorem lookup_mapVal (a : Assign V) (f : Var → V → V) (x : Var) :
    (a.map fun p => (p.1, f p.1 p.2)).lookup x = (a.lookup x).map (f x) := by
  induction a with
  | nil => rfl
  | cons p t ih =>
    obtain ⟨k, v⟩ := p
    by_cases hk : (x == k) = true
    · have : x = k := by simpa using hk
      subst this
      simp [List.lookup]
    · have hk' : (x == k) = false := by simpa using hk
      simp only [List.map_cons, List.lookup, hk']
      exact ih

theorem lookup_stepVars (S : Scalar V) (vars ds : Assign V) (step : V) (x : Var) :
    (stepVars S vars ds step).lookup x =
      (vars.lookup x).map fun v => S.subMul v step (dsAt S ds x) := by
  simpa [stepVars] using lookup_mapVal vars (fun k v => S.subMul v step (dsAt S ds k)) x

/-- lookup in a list filtered by a predicate on keys -/
theorem lookup_filterKey (a : Assign V) (q : Var → Bool) (x : Var) :
    (a.filter fun p => q p.1).lookup x = if q x then a.lookup x else none := by
  induction a with
  | nil => simp [List.lookup]
  | cons p t ih =>
    obtain ⟨k, v⟩ := p
    by_cases hq : q k = true
    · simp only [List.filter, hq]
      by_cases hk : (x == k) = true
      · have : x = k := by simpa using hk
        subst this
        simp [List.lookup, hq]
      · have hk' : (x == k) = false := by simpa using hk
        simp only [List.lookup, hk']
        exact ih
    · have hq' : q k = false := by simpa using hq
      simp only [List.filter, hq']
      by_cases hk : (x == k) = true
      · have : x = k := by simpa using hk
        subst this
        rw [ih]; simp [hq']
      · have hk' : (x == k) = false := by simpa using hk
        simp only [List.lookup, hk']
        exact ih

/-- Loading twice: if every variable listed first is also listed second, the first load is
    overwritten. -/
theorem load_load (e vs vs' : Assign V) (h : ∀ x, x ∈ keys vs → x ∈ keys vs') :
    load (load e vs) vs' = load e vs' := by
  simp only [load, List.map_map]
  apply List.map_congr_left
  intro p _
  simp only [Function.comp]
  congr 1
  cases h' : vs'.lookup p.1 with
  | some w => rfl
  | none =>
    have : p.1 ∉ keys vs := fun hm => by
      have := h _ hm
      by_cases hx : p.1 ∈ keys vs'
      · cases hl : vs'.lookup p.1 with
        | none =>
          -- a key that is present has a value
          exfalso
          clear h' this h
          induction vs' with
          | nil => simp [keys] at hx
          | cons q t ih =>
            obtain ⟨k, v⟩ := q
            by_cases hk : (p.1 == k) = true
            · simp [List.lookup, hk] at hl
            · have hk' : (p.1 == k) = false := by simpa using hk
              simp only [List.lookup, hk'] at hl
              simp only [keys, List.map_cons, List.mem_cons] at hx
              rcases hx with hx | hx
              · exact hk (by simpa using hx)
              · exact ih (by simpa [keys] using hx) hl
        | some w => rw [hl] at h'; cases h'
      · exact hx this
    rw [lookup_eq_none_of_not_mem_keys vs p.1 this]
    rfl

/-- Loading the unmasked part of what is already loaded changes nothing. -/
theorem load_filter_self (e init : Assign V) (q : Var → Bool) :
    load (load e init) (init.filter fun p => q p.1) = load e init := by
  simp only [load, List.map_map]
  apply List.map_congr_left
  intro p _
  simp only [Function.comp]
  congr 1
  rw [lookup_filterKey]
  by_cases hq : q p.1 = true
  · simp only [hq, if_true]
    cases init.lookup p.1 <;> rfl
  · simp [hq]

theorem dsAt_load (S : Scalar V) (ds g : Assign V) (x : Var)
    (h0 : dsAt S ds x = S.zero) (hg : g.lookup x = none ∨ g.lookup x = some S.zero) :
    dsAt S (load ds g) x = S.zero := by
  unfold dsAt at *
  rw [lookup_load]
  cases hd : ds.lookup x with
  | none => rfl
  | some w =>
    rw [hd] at h0
    rcases hg with hg | hg <;> simp [hg] <;> simpa using h0

theorem dsAt_init (S : Scalar V) (vars : Assign V) (x : Var) :
    dsAt S (vars.map fun p => (p.1, S.zero)) x = S.zero := by
  unfold dsAt
  have := lookup_mapVal vars (fun _ _ => S.zero) x
  rw [this]
  cases vars.lookup x <;> rfl

/-! ### the line search -/

/-- Everything an accepted step satisfies, on every exit path of `lineSearch`. -/
theorem lineSearch_accepted (S : Scalar V) (P : Problem V) (r slope : V) (ds vars ev : Assign V) :
    ∀ (fuel n : Nat) (step : V) (a : Accepted V),
      lineSearch S P r slope ds vars ev fuel n step = .accepted a →
      a.vars = stepVars S vars ds a.step ∧ a.ev = load ev a.vars ∧ a.r = P.value a.ev ∧
      n ≤ a.halvings ∧ a.halvings < n + fuel ∧ a.step = iter S.half (a.halvings - n) step ∧
      exitTest S r slope a.step a.r = true := by
  intro fuel
  induction fuel with
  | zero => intro n step a h; simp [lineSearch] at h
  | succ fuel ih =>
    intro n step a h
    simp only [lineSearch] at h
    split at h
    · rename_i hexit
      injection h with h
      subst h
      refine ⟨rfl, rfl, rfl, Nat.le_refl _, ?_, ?_, hexit⟩
      · show n < n + (fuel + 1)
        omega
      · show step = iter S.half (n - n) step
        simp [iter]
    · obtain ⟨h1, h2, h3, h4, h5, h6, h7⟩ := ih (n + 1) (S.half step) a h
      refine ⟨h1, h2, h3, by omega, by omega, ?_, h7⟩
      rw [h6]
      have : a.halvings - n = (a.halvings - (n + 1)) + 1 := by omega
      rw [this, iter]

/-- A state of the line search that halving does not change and that fails the exit test is
    never left. -/
theorem lineSearch_fixed_point (S : Scalar V) (P : Problem V) (r slope : V) (ds vars ev : Assign V)
    (step : V) (hfix : S.half step = step)
    (hno : exitTest S r slope step (P.value (load ev (stepVars S vars ds step))) = false) :
    ∀ fuel n, lineSearch S P r slope ds vars ev fuel n step = .outOfFuel step (n + fuel) := by
  intro fuel
  induction fuel with
  | zero => intro n; simp [lineSearch]
  | succ fuel ih =>
    intro n
    simp only [lineSearch, hno, hfix]
    rw [ih (n + 1)]
    have : n + 1 + fuel = n + (fuel + 1) := by omega
    simp [this]

/-- IEEE facts about the scalar that the termination / untouched-variable theorems need.
    `bound s` is the number of halvings after which a finite `s` has underflowed to zero. -/
structure Laws (S : Scalar V) (bound : V → Nat) : Prop where
  /-- `v - s*0 = v` for finite `s` -/
  subMul_zero : ∀ v s, S.isFinite s = true → S.subMul v s S.zero = v
  /-- `v - 0*d = v` for finite `d` -/
  subMul_zero_step : ∀ v z d, S.isZero z = true → S.isFinite d = true → S.subMul v z d = v
  half_finite : ∀ s, S.isFinite s = true → S.isFinite (S.half s) = true
  halves_to_zero : ∀ s, S.isFinite s = true → S.isZero (iter S.half (bound s) s) = true
  /-- `|r - r| < EPSILON` for finite `r` -/
  sub_self_small : ∀ r, S.isFinite r = true → S.lt (S.abs (S.sub r r)) S.eps = true
  /-- a finite quotient has a finite numerator (`±∞/y` and `NaN/y` are never finite) -/
  div_finite : ∀ a b, S.isFinite (S.div a b) = true → S.isFinite a = true

theorem stepVars_zero_step (S : Scalar V) (bound : V → Nat) (L : Laws S bound) (vars ds : Assign V) (z : V)
    (hz : S.isZero z = true) (hd : ∀ p ∈ vars, S.isFinite (dsAt S ds p.1) = true) :
    stepVars S vars ds z = vars := by
  unfold stepVars
  conv => rhs; rw [← List.map_id vars]
  apply List.map_congr_left
  intro p hp
  obtain ⟨k, v⟩ := p
  simp only [id]
  rw [L.subMul_zero_step v z _ hz (hd _ hp)]

theorem lineSearch_exit (S : Scalar V) (P : Problem V) (r slope : V) (ds vars ev : Assign V)
    (fuel n : Nat) (step : V)
    (h : exitTest S r slope step (P.value (load ev (stepVars S vars ds step))) = true) :
    lineSearch S P r slope ds vars ev (fuel + 1) n step =
      .accepted { converged := S.lt (S.abs (S.sub r (P.value (load ev (stepVars S vars ds step))))) S.eps,
                  r := P.value (load ev (stepVars S vars ds step)),
                  vars := stepVars S vars ds step, ev := load ev (stepVars S vars ds step),
                  step := step, halvings := n } := by
  simp only [lineSearch, h, if_true]

theorem lineSearch_noexit (S : Scalar V) (P : Problem V) (r slope : V) (ds vars ev : Assign V)
    (fuel n : Nat) (step : V)
    (h : exitTest S r slope step (P.value (load ev (stepVars S vars ds step))) = false) :
    lineSearch S P r slope ds vars ev (fuel + 1) n step =
      lineSearch S P r slope ds vars ev fuel (n + 1) (S.half step) := by
  simp only [lineSearch, h, Bool.false_eq_true, if_false]

/-- Termination of the line search from any step that reaches zero in `k` halvings. -/
theorem lineSearch_terminates_aux (S : Scalar V) (bound : V → Nat) (L : Laws S bound) (P : Problem V)
    (r slope : V) (ds vars ev : Assign V)
    (hr : S.isFinite r = true) (hrv : r = P.value ev) (hev : load ev vars = ev)
    (hd : ∀ p ∈ vars, S.isFinite (dsAt S ds p.1) = true) :
    ∀ (k n : Nat) (step : V), S.isZero (iter S.half k step) = true →
      ∃ a, lineSearch S P r slope ds vars ev (k + 1) n step = .accepted a ∧ a.halvings ≤ n + k := by
  intro k
  induction k with
  | zero =>
    intro n step hz
    simp only [iter] at hz
    have hsv := stepVars_zero_step S bound L vars ds step hz hd
    have hexit : exitTest S r slope step (P.value (load ev (stepVars S vars ds step))) = true := by
      rw [hsv, hev, ← hrv]
      simp [exitTest, L.sub_self_small r hr]
    exact ⟨_, lineSearch_exit S P r slope ds vars ev 0 n step hexit, Nat.le_refl _⟩
  | succ k ih =>
    intro n step hz
    simp only [iter] at hz
    cases hexit : exitTest S r slope step (P.value (load ev (stepVars S vars ds step))) with
    | true => exact ⟨_, lineSearch_exit S P r slope ds vars ev (k + 1) n step hexit, by show n ≤ n + (k + 1); omega⟩
    | false =>
      obtain ⟨a, ha, hb⟩ := ih (n + 1) (S.half step) hz
      refine ⟨a, ?_, by omega⟩
      rw [lineSearch_noexit S P r slope ds vars ev (k + 1) n step hexit]
      exact ha

/-! ### the outer loop: one induction principle for all invariants -/

/-- Loop-invariant rule for `outer`: `I` holds at the loop head, `Q` at every way out. -/
theorem outer_ind (S : Scalar V) (P : Problem V) (innerFuel : Nat) (I Q : St V → Prop)
    (hsame : ∀ st, I st → Q st)
    (hgas : ∀ st, I st → decGas st.gas = 0 → Q { st with gas := 0 })
    (hbrk : ∀ st, I st → decGas st.gas ≠ 0 →
      Q { st with gas := decGas st.gas, ds := load st.ds (P.grad st.ev) })
    (hstep : ∀ st a, I st → st.converged = false → decGas st.gas ≠ 0 →
      lineSearch S P st.r (slopeOf S (load st.ds (P.grad st.ev))) (load st.ds (P.grad st.ev)) st.vars st.ev
        innerFuel 0 (S.div st.r (slopeOf S (load st.ds (P.grad st.ev)))) = .accepted a →
      I { converged := a.converged, r := a.r, gas := decGas st.gas, ds := load st.ds (P.grad st.ev),
          vars := a.vars, ev := a.ev, iters := st.iters + 1,
          log := { step := a.step, ds := load st.ds (P.grad st.ev), halvings := a.halvings } :: st.log }) :
    ∀ (fuel : Nat) (st : St V), I st →
      (∀ st', outer S P innerFuel fuel st = .returned st' → Q st') ∧
      (∀ st' s n, outer S P innerFuel fuel st = .hung st' s n → Q st') := by
  intro fuel
  induction fuel with
  | zero => intro st _; simp [outer]
  | succ fuel ih =>
    intro st hI
    obtain ⟨conv, r, gas, ds, vars, ev, iters, log⟩ := st
    cases conv with
    | true =>
      simp only [outer, if_true]
      exact ⟨fun st' h => by injection h with h; subst h; exact hsame _ hI, fun _ _ _ h => by cases h⟩
    | false =>
      simp only [outer, Bool.false_eq_true, if_false]
      by_cases hr : (!S.ge (S.abs r) S.eps) = true
      · simp only [hr, if_true]
        exact ⟨fun st' h => by injection h with h; subst h; exact hsame _ hI, fun _ _ _ h => by cases h⟩
      · simp only [hr, Bool.false_eq_true, if_false]
        by_cases hg : decGas gas = 0
        · simp only [hg, if_true]
          exact ⟨fun st' h => by injection h with h; subst h; exact hgas _ hI hg, fun _ _ _ h => by cases h⟩
        · simp only [hg, if_false]
          by_cases hs : allSmall S (load ds (P.grad ev)) = true
          · simp only [hs, if_true]
            exact ⟨fun st' h => by injection h with h; subst h; exact hbrk _ hI hg, fun _ _ _ h => by cases h⟩
          · simp only [hs, Bool.false_eq_true, if_false]
            cases hls : lineSearch S P r (slopeOf S (load ds (P.grad ev)))
                (load ds (P.grad ev)) vars ev innerFuel 0
                (S.div r (slopeOf S (load ds (P.grad ev)))) with
            | outOfFuel s n =>
              dsimp only
              refine ⟨fun _ h => (by cases h), fun st' s' n' h => ?_⟩
              injection h with h _ _
              subst h
              exact hbrk _ hI hg
            | accepted a =>
              dsimp only
              exact ih _ (hstep _ a hI rfl hg hls)

end Libfive.Solver

namespace Libfive.Solver

variable {V : Type}

/-- projections of an outcome used by the concrete witnesses -/
def Outcome.st? : Outcome V → Option (St V)
  | .returned st => some st
  | _ => none

/-- `some k` iff the call is stuck in the line search of outer iteration `k` -/
def Outcome.hungAt : Outcome V → Option Nat
  | .hung st _ _ => some st.iters
  | _ => none

/-- one unfolding of `outer` along the path that reaches a line search that runs out of fuel -/
theorem outer_hung (S : Scalar V) (P : Problem V) (innerFuel fuel : Nat) (st : St V) (s : V) (m : Nat)
    (hc : st.converged = false) (hr : S.ge (S.abs st.r) S.eps = true) (hg : decGas st.gas ≠ 0)
    (hs : allSmall S (load st.ds (P.grad st.ev)) = false)
    (hls : lineSearch S P st.r (slopeOf S (load st.ds (P.grad st.ev))) (load st.ds (P.grad st.ev)) st.vars
      st.ev innerFuel 0 (S.div st.r (slopeOf S (load st.ds (P.grad st.ev)))) = .outOfFuel s m) :
    (outer S P innerFuel (fuel + 1) st).hungAt = some st.iters := by
  obtain ⟨conv, r, gas, ds, vars, ev, iters, log⟩ := st
  simp only at hc hr hg hs hls
  subst hc
  simp only [outer, hr, hg, hs, hls, Bool.false_eq_true, if_false, Bool.not_true]
  rfl

end Libfive.Solver

namespace Libfive.Solver

/-! ### `FVal` satisfies the laws -/

namespace FVal

/-- halvings after which `fin n` has reached zero: the bit length of `|n|` -/
def bound : FVal → Nat
  | fin n => n.natAbs.log2 + 1
  | _ => 0

theorem sub_fin_zero (v : FVal) : sub v (fin 0) = v := by
  cases v <;> simp [sub, neg, add, norm]

theorem iter_half_fin (k : Nat) : ∀ n : Int, ∃ m : Int, iter half k (fin n) = fin m ∧
    m.natAbs = n.natAbs / 2 ^ k := by
  induction k with
  | zero => intro n; exact ⟨n, rfl, by simp⟩
  | succ k ih =>
    intro n
    obtain ⟨m, hm, hn⟩ := ih (n.tdiv 2)
    refine ⟨m, ?_, ?_⟩
    · simpa [iter, half] using hm
    · rw [hn, Int.natAbs_tdiv]
      show n.natAbs / 2 / 2 ^ k = n.natAbs / 2 ^ (k + 1)
      rw [Nat.div_div_eq_div_mul, Nat.pow_succ, Nat.mul_comm]

theorem isFinite_ofSign (s : Int) : isFinite (ofSign s) = false := by
  unfold ofSign
  split
  · rfl
  · split <;> rfl

theorem laws : Laws scalar bound where
  subMul_zero := by
    intro v s hs
    cases s <;> simp [scalar, isFinite] at hs
    simp only [scalar, mul, norm, Int.mul_zero]
    show sub v (fin (Int.tdiv 0 one)) = v
    rw [Int.zero_tdiv]
    exact sub_fin_zero v
  subMul_zero_step := by
    intro v z d hz hd
    cases d <;> simp [scalar, isFinite] at hd
    cases z <;> simp [scalar, isZero] at hz
    subst hz
    simp only [scalar, mul, norm, Int.zero_mul]
    show sub v (fin (Int.tdiv 0 one)) = v
    rw [Int.zero_tdiv]
    exact sub_fin_zero v
  half_finite := by
    intro s hs
    cases s <;> simp [scalar, isFinite, half] at hs ⊢
  halves_to_zero := by
    intro s hs
    cases s <;> simp [scalar, isFinite] at hs
    rename_i n
    obtain ⟨m, hm, hn⟩ := iter_half_fin (n.natAbs.log2 + 1) n
    simp only [scalar, bound]
    rw [hm]
    have : m.natAbs = 0 := by
      rw [hn]
      exact Nat.div_eq_of_lt Nat.lt_log2_self
    have : m = 0 := by omega
    subst this
    rfl
  sub_self_small := by
    intro r hr
    cases r <;> simp [scalar, isFinite] at hr
    simp [scalar, sub, neg, add, norm, abs, lt, eps, Int.add_right_neg]
  div_finite := by
    intro a b h
    change isFinite (div a b) = true at h
    change isFinite a = true
    cases a with
    | fin n => rfl
    | nan => cases b <;> simp [div, isFinite] at h
    | pinf =>
      cases b <;> simp only [div] at h <;>
        first | (rw [isFinite_ofSign] at h; cases h) | (simp [isFinite] at h)
    | ninf =>
      cases b <;> simp only [div] at h <;>
        first | (rw [isFinite_ofSign] at h; cases h) | (simp [isFinite] at h)

end FVal

end Libfive.Solver
