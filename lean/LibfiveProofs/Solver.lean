/-
  Helper lemmas for C17 (model: LibfiveModel/Solver.lean).  Core Lean only.
-/
import LibfiveModel.Solver

namespace Libfive.Solver

variable {V : Type}

/-! ### association lists -/

theorem keys_load (e vs : Assign V) : keys (load e vs) = keys e := by
  simp [keys, load, List.map_map, Function.comp_def]

theorem keys_stepVars (S : Scalar V) (vars ds : Assign V) (step : V) :
    keys (stepVars S vars ds step) = keys vars := by
  simp [keys, stepVars, List.map_map, Function.comp_def]

theorem lookup_eq_none_of_not_mem_keys (a : Assign V) (x : Var) (h : x ∉ keys a) :
    a.lookup x = none := by
  induction a with
  | nil => rfl
  | cons p t ih =>
    obtain ⟨k, v⟩ := p
    simp only [keys, List.map_cons, List.mem_cons, not_or] at h
    have hne : (x == k) = false := by simpa using h.1
    simp only [List.lookup, hne]
    exact ih (by simpa [keys] using h.2)

theorem mem_keys_of_lookup_eq_some (a : Assign V) (x : Var) (v : V) (h : a.lookup x = some v) :
    x ∈ keys a := by
  by_cases hx : x ∈ keys a
  · exact hx
  · rw [lookup_eq_none_of_not_mem_keys a x hx] at h; cases h

/-- `lookup` through `load`: a slot keeps its key and takes the listed value if there is one. -/
theorem lookup_load (e vs : Assign V) (x : Var) :
    (load e vs).lookup x = (e.lookup x).map fun w => (vs.lookup x).getD w := by
  induction e with
  | nil => rfl
  | cons p t ih =>
    obtain ⟨k, v⟩ := p
    by_cases hk : (x == k) = true
    · have : x = k := by simpa using hk
      subst this
      simp [load, List.lookup]
    · have hk' : (x == k) = false := by simpa using hk
      simp only [load, List.map_cons, List.lookup, hk']
      simpa [load] using ih

/-- lookup in a list mapped value-wise -/
theorem lookup_mapVal (a : Assign V) (f : Var → V → V) (x : Var) :
    (a.map fun p => (p.1, f p.1 p.2)).lookup x = (a.lookup x).map (f x) := by
  induction a with
  | nil => rfl
  | cons p t ih =>
    obtain ⟨k, v⟩ := p
    by_cases hk : (x == k) = true
    · have : x = k := by simpa using hk
      subst this
      simp [List.lookup]
    · have hk' : (x == k) = false := by simpa using hk
      simp only [List.map_cons, List.lookup, hk']
      exact ih

theorem lookup_stepVars (S : Scalar V) (vars ds : Assign V) (step : V) (x : Var) :
    (stepVars S vars ds step).lookup x =
      (vars.lookup x).map fun v => S.subMul v step (dsAt S ds x) := by
  simpa [stepVars] using lookup_mapVal vars (fun k v => S.subMul v step (dsAt S ds k)) x

/-- lookup in a list filtered by a predicate on keys -/
theorem lookup_filterKey (a : Assign V) (q : Var → Bool) (x : Var) :
    (a.filter fun p => q p.1).lookup x = if q x then a.lookup x else none := by
  induction a with
  | nil => simp [List.lookup]
  | cons p t ih =>
    obtain ⟨k, v⟩ := p
    by_cases hq : q k = true
    · simp only [List.filter, hq]
      by_cases hk : (x == k) = true
      · have : x = k := by simpa using hk
        subst this
        simp [List.lookup, hq]
      · have hk' : (x == k) = false := by simpa using hk
        simp only [List.lookup, hk']
        exact ih
    · have hq' : q k = false := by simpa using hq
      simp only [List.filter, hq']
      by_cases hk : (x == k) = true
      · have : x = k := by simpa using hk
        subst this
        rw [ih]; simp [hq']
      · have hk' : (x == k) = false := by simpa using hk
        simp only [List.lookup, hk']
        exact ih

/-- Loading twice: if every variable listed first is also listed second, the first load is
    overwritten. -/
theorem load_load (e vs vs' : Assign V) (h : ∀ x, x ∈ keys vs → x ∈ keys vs') :
    load (load e vs) vs' = load e vs' := by
  simp only [load, List.map_map]
  apply List.map_congr_left
  intro p _
  simp only [Function.comp]
  congr 1
  cases h' : vs'.lookup p.1 with
  | some w => rfl
  | none =>
    have : p.1 ∉ keys vs := fun hm => by
      have := h _ hm
      by_cases hx : p.1 ∈ keys vs'
      · cases hl : vs'.lookup p.1 with
        | none =>
          -- a key that is present has a value
          exfalso
          clear h' this h
          induction vs' with
          | nil => simp [keys] at hx
          | cons q t ih =>
            obtain ⟨k, v⟩ := q
            by_cases hk : (p.1 == k) = true
            · simp [List.lookup, hk] at hl
            · have hk' : (p.1 == k) = false := by simpa using hk
              simp only [List.lookup, hk'] at hl
              simp only [keys, List.map_cons, List.mem_cons] at hx
              rcases hx with hx | hx
              · exact hk (by simpa using hx)
              · exact ih (by simpa [keys] using hx) hl
        | some w => rw [hl] at h'; cases h'
      · exact hx this
    rw [lookup_eq_none_of_not_mem_keys vs p.1 this]
    rfl

/-- Loading the unmasked part of what is already loaded changes nothing. -/
theorem load_filter_self (e init : Assign V) (q : Var → Bool) :
    load (load e init) (init.filter fun p => q p.1) = load e init := by
  simp only [load, List.map_map]
  apply List.map_congr_left
  intro p _
  simp only [Function.comp]
  congr 1
  rw [lookup_filterKey]
  by_cases hq : q p.1 = true
  · simp only [hq, if_true]
    cases init.lookup p.1 <;> rfl
  · simp [hq]

theorem dsAt_load (S : Scalar V) (ds g : Assign V) (x : Var)
    (h0 : dsAt S ds x = S.zero) (hg : g.lookup x = none ∨ g.lookup x = some S.zero) :
    dsAt S (load ds g) x = S.zero := by
  unfold dsAt at *
  rw [lookup_load]
  cases hd : ds.lookup x with
  | none => rfl
  | some w =>
    rw [hd] at h0
    rcases hg with hg | hg <;> simp [hg] <;> simpa using h0

theorem dsAt_init (S : Scalar V) (vars : Assign V) (x : Var) :
    dsAt S (vars.map fun p => (p.1, S.zero)) x = S.zero := by
  unfold dsAt
  have := lookup_mapVal vars (fun _ _ => S.zero) x
  rw [this]
  cases vars.lookup x <;> rfl

/-! ### the line search (fixed code) -/

def LS.isOutOfFuel : LS V → Bool
  | .outOfFuel _ _ => true
  | _ => false

/-- Everything an accepted step satisfies, on every exit path of `lineSearch`. -/
theorem lineSearch_accepted (S : Scalar V) (P : Problem V) (r slope : V) (ds vars ev : Assign V) :
    ∀ (fuel n : Nat) (step : V) (cur : Assign V) (a : Accepted V),
      lineSearch S P r slope ds vars ev fuel n step cur = .accepted a →
      a.vars = stepVars S vars ds a.step ∧ a.ev = load ev a.vars ∧ a.r = P.value a.ev ∧
      n ≤ a.halvings ∧ a.halvings < n + fuel ∧ a.step = iter S.half (a.halvings - n) step ∧
      exitTest S r slope a.step a.r = true ∧ S.isFinite a.step = true ∧ S.isZero a.step = false := by
  intro fuel
  induction fuel with
  | zero => intro n step cur a h; simp [lineSearch] at h
  | succ fuel ih =>
    intro n step cur a h
    simp only [lineSearch] at h
    split at h
    · cases h
    · rename_i hguard
      have hfin : S.isFinite step = true := by
        cases hf : S.isFinite step <;> simp [hf] at hguard ⊢
      have hnz : S.isZero step = false := by
        cases hz : S.isZero step <;> simp [hz] at hguard ⊢
      split at h
      · rename_i hexit
        injection h with h
        subst h
        refine ⟨rfl, rfl, rfl, Nat.le_refl _, ?_, ?_, hexit, hfin, hnz⟩
        · show n < n + (fuel + 1)
          omega
        · show step = iter S.half (n - n) step
          simp [iter]
      · obtain ⟨h1, h2, h3, h4, h5, h6, h7, h8, h9⟩ := ih (n + 1) (S.half step) _ a h
        refine ⟨h1, h2, h3, by omega, by omega, ?_, h7, h8, h9⟩
        rw [h6]
        have : a.halvings - n = (a.halvings - (n + 1)) + 1 := by omega
        rw [this, iter]

/-- A give-up leaves in the evaluator either what was there or some trial point. -/
theorem lineSearch_gaveUp (S : Scalar V) (P : Problem V) (r slope : V) (ds vars ev : Assign V) :
    ∀ (fuel n : Nat) (step : V) (cur : Assign V) (s : V) (m : Nat) (cur' : Assign V),
      lineSearch S P r slope ds vars ev fuel n step cur = .gaveUp s m cur' →
      cur' = cur ∨ ∃ s', cur' = load ev (stepVars S vars ds s') := by
  intro fuel
  induction fuel with
  | zero => intro n step cur s m cur' h; simp [lineSearch] at h
  | succ fuel ih =>
    intro n step cur s m cur' h
    simp only [lineSearch] at h
    split at h
    · injection h with _ _ h3
      exact Or.inl h3.symm
    · split at h
      · cases h
      · rcases ih _ _ _ s m cur' h with h' | h'
        · exact Or.inr ⟨step, h'⟩
        · exact Or.inr h'

/-- IEEE facts about the scalar that the termination / untouched-variable theorems need.
    `bound s` is the number of halvings after which a finite `s` has underflowed to zero. -/
structure Laws (S : Scalar V) (bound : V → Nat) : Prop where
  /-- `v - s*0 = v` for finite `s` -/
  subMul_zero : ∀ v s, S.isFinite s = true → S.subMul v s S.zero = v
  /-- `v - 0*d = v` for finite `d` -/
  subMul_zero_step : ∀ v z d, S.isZero z = true → S.isFinite d = true → S.subMul v z d = v
  half_finite : ∀ s, S.isFinite s = true → S.isFinite (S.half s) = true
  halves_to_zero : ∀ s, S.isFinite s = true → S.isZero (iter S.half (bound s) s) = true
  /-- `|r - r| < EPSILON` for finite `r` -/
  sub_self_small : ∀ r, S.isFinite r = true → S.lt (S.abs (S.sub r r)) S.eps = true
  /-- a finite quotient has a finite numerator (`±∞/y` and `NaN/y` are never finite) -/
  div_finite : ∀ a b, S.isFinite (S.div a b) = true → S.isFinite a = true


/-- **Termination of the fixed line search**: from a finite step that reaches zero in `k` halvings
    it is over within `k + 1` trials, whatever the evaluator answers. -/
theorem lineSearch_done_aux (S : Scalar V) (bound : V → Nat) (L : Laws S bound) (P : Problem V)
    (r slope : V) (ds vars ev : Assign V) :
    ∀ (k fuel n : Nat) (s : V) (cur : Assign V), S.isFinite s = true →
      S.isZero (iter S.half k s) = true → k + 1 ≤ fuel →
      (lineSearch S P r slope ds vars ev fuel n s cur).isOutOfFuel = false := by
  intro k
  induction k with
  | zero =>
    intro fuel n s cur _ hz hk
    obtain ⟨f, rfl⟩ : ∃ f, fuel = f + 1 := ⟨fuel - 1, by omega⟩
    simp only [iter] at hz
    simp [lineSearch, hz, LS.isOutOfFuel]
  | succ k ih =>
    intro fuel n s cur hf hz hk
    obtain ⟨f, rfl⟩ : ∃ f, fuel = f + 1 := ⟨fuel - 1, by omega⟩
    simp only [iter] at hz
    simp only [lineSearch]
    split
    · rfl
    · split
      · rfl
      · exact ih f (n + 1) (S.half s) _ (L.half_finite s hf) hz (by omega)

theorem lineSearch_done (S : Scalar V) (bound : V → Nat) (L : Laws S bound) (P : Problem V)
    (r slope : V) (ds vars ev : Assign V) (fuel n : Nat) (s : V) (cur : Assign V)
    (hfuel : (if S.isFinite s then bound s else 0) + 1 ≤ fuel) :
    (lineSearch S P r slope ds vars ev fuel n s cur).isOutOfFuel = false := by
  cases hf : S.isFinite s with
  | false =>
    obtain ⟨f, rfl⟩ : ∃ f, fuel = f + 1 := ⟨fuel - 1, by omega⟩
    simp [lineSearch, hf, LS.isOutOfFuel]
  | true =>
    simp only [hf, if_true] at hfuel
    exact lineSearch_done_aux S bound L P r slope ds vars ev (bound s) fuel n s cur hf
      (L.halves_to_zero s hf) hfuel

/-! ### the pre-fix line search -/

/-- A state of the PRE-FIX line search that halving does not change and that fails the exit test
    is never left. -/
theorem lineSearchOld_fixed_point (S : Scalar V) (P : Problem V) (r slope : V) (ds vars ev : Assign V)
    (step : V) (hfix : S.half step = step)
    (hno : exitTest S r slope step (P.value (load ev (stepVars S vars ds step))) = false) :
    ∀ fuel n, lineSearchOld S P r slope ds vars ev fuel n step = .outOfFuel step (n + fuel) := by
  intro fuel
  induction fuel with
  | zero => intro n; simp [lineSearchOld]
  | succ fuel ih =>
    intro n
    simp only [lineSearchOld, hno, hfix]
    rw [ih (n + 1)]
    have : n + 1 + fuel = n + (fuel + 1) := by omega
    simp [this]

/-! ### the outer loop: one induction principle for all invariants -/

/-- Loop-invariant rule for `outer`: `I` holds at the loop head, `Q` at every way out. A hung
    outcome additionally exposes the line search that ran out of fuel. -/
theorem outer_ind (S : Scalar V) (P : Problem V) (innerFuel : Nat) (I Q : St V → Prop)
    (hsame : ∀ st, I st → Q st)
    (hgas : ∀ st, I st → Q { st with gas := 0 })
    (hbrk : ∀ st, I st → Q { st with gas := st.gas - 1, ds := load st.ds (P.grad st.ev) })
    (hgive : ∀ st s n cur, I st → st.converged = false → st.gas - 1 ≠ 0 →
      lineSearch S P st.r (slopeOf S (load st.ds (P.grad st.ev))) (load st.ds (P.grad st.ev)) st.vars st.ev
        innerFuel 0 (S.div st.r (slopeOf S (load st.ds (P.grad st.ev)))) st.ev = .gaveUp s n cur →
      I { st with converged := true, gas := st.gas - 1, ds := load st.ds (P.grad st.ev), ev := cur,
                  iters := st.iters + 1, gaveUp := true })
    (hstep : ∀ st a, I st → st.converged = false → st.gas - 1 ≠ 0 →
      lineSearch S P st.r (slopeOf S (load st.ds (P.grad st.ev))) (load st.ds (P.grad st.ev)) st.vars st.ev
        innerFuel 0 (S.div st.r (slopeOf S (load st.ds (P.grad st.ev)))) st.ev = .accepted a →
      I { converged := a.converged, r := a.r, gas := st.gas - 1, ds := load st.ds (P.grad st.ev),
          vars := a.vars, ev := a.ev, iters := st.iters + 1,
          log := { step := a.step, ds := load st.ds (P.grad st.ev), halvings := a.halvings } :: st.log }) :
    ∀ (fuel : Nat) (st : St V), I st →
      (∀ st', outer S P innerFuel fuel st = .returned st' → Q st') ∧
      (∀ st' s n, outer S P innerFuel fuel st = .hung st' s n → Q st' ∧
        lineSearch S P st'.r (slopeOf S st'.ds) st'.ds st'.vars st'.ev innerFuel 0
          (S.div st'.r (slopeOf S st'.ds)) st'.ev = .outOfFuel s n) := by
  intro fuel
  induction fuel with
  | zero => intro st _; simp [outer]
  | succ fuel ih =>
    intro st hI
    obtain ⟨conv, r, gas, ds, vars, ev, iters, log, gu⟩ := st
    cases conv with
    | true =>
      simp only [outer, if_true]
      exact ⟨fun st' h => by injection h with h; subst h; exact hsame _ hI, fun _ _ _ h => by cases h⟩
    | false =>
      simp only [outer, Bool.false_eq_true, if_false]
      by_cases hr : (!S.ge (S.abs r) S.eps) = true
      · simp only [hr, if_true]
        exact ⟨fun st' h => by injection h with h; subst h; exact hsame _ hI, fun _ _ _ h => by cases h⟩
      · simp only [hr, Bool.false_eq_true, if_false]
        by_cases hg0 : gas = 0
        · simp only [hg0, if_true]
          refine ⟨fun st' h => ?_, fun _ _ _ h => by cases h⟩
          injection h with h; subst h; subst hg0; exact hsame _ hI
        · simp only [hg0, if_false]
          by_cases hg : gas - 1 = 0
          · simp only [hg, if_true]
            exact ⟨fun st' h => by injection h with h; subst h; exact hgas _ hI, fun _ _ _ h => by cases h⟩
          · simp only [hg, if_false]
            by_cases hs : allSmall S (load ds (P.grad ev)) = true
            · simp only [hs, if_true]
              exact ⟨fun st' h => by injection h with h; subst h; exact hbrk _ hI, fun _ _ _ h => by cases h⟩
            · simp only [hs, Bool.false_eq_true, if_false]
              cases hls : lineSearch S P r (slopeOf S (load ds (P.grad ev)))
                  (load ds (P.grad ev)) vars ev innerFuel 0
                  (S.div r (slopeOf S (load ds (P.grad ev)))) ev with
              | outOfFuel s n =>
                dsimp only
                refine ⟨fun _ h => (by cases h), fun st' s' n' h => ?_⟩
                injection h with h h2 h3
                subst h; subst h2; subst h3
                exact ⟨hbrk _ hI, hls⟩
              | gaveUp s n cur =>
                dsimp only
                exact ih _ (hgive _ s n cur hI rfl hg hls)
              | accepted a =>
                dsimp only
                exact ih _ (hstep _ a hI rfl hg hls)

/-- With `gas ≤ fuel` (and `1 ≤ fuel`) the outer loop never runs out of model fuel. -/
theorem outer_no_outerFuel (S : Scalar V) (P : Problem V) (innerFuel : Nat) :
    ∀ (fuel : Nat) (st : St V), st.gas ≤ fuel → 1 ≤ fuel →
      ∀ st', outer S P innerFuel fuel st ≠ .outerFuel st' := by
  intro fuel
  induction fuel with
  | zero => intro st _ h; omega
  | succ fuel ih =>
    intro st hg _ st'
    obtain ⟨conv, r, gas, ds, vars, ev, iters, log, gu⟩ := st
    simp only [outer]
    split
    · intro h; cases h
    · split
      · intro h; cases h
      · split
        · intro h; cases h
        · split
          · intro h; cases h
          · rename_i hg0 hg1
            simp only at hg hg0 hg1
            split
            · intro h; cases h
            · split
              · intro h; cases h
              · exact ih _ (by simp only; omega) (by omega) st'
              · exact ih _ (by simp only; omega) (by omega) st'

end Libfive.Solver

namespace Libfive.Solver

variable {V : Type}

/-- projection of an outcome used by the concrete examples -/
def Outcome.st? : Outcome V → Option (St V)
  | .returned st => some st
  | _ => none

end Libfive.Solver

namespace Libfive.Solver

/-! ### `FVal` satisfies the laws -/

namespace FVal

/-- halvings after which `fin n` has reached zero: the bit length of `|n|` -/
def bound : FVal → Nat
  | fin n => n.natAbs.log2 + 1
  | _ => 0

theorem sub_fin_zero (v : FVal) : sub v (fin 0) = v := by
  cases v <;> simp [sub, neg, add, norm]

theorem iter_half_fin (k : Nat) : ∀ n : Int, ∃ m : Int, iter half k (fin n) = fin m ∧
    m.natAbs = n.natAbs / 2 ^ k := by
  induction k with
  | zero => intro n; exact ⟨n, rfl, by simp⟩
  | succ k ih =>
    intro n
    obtain ⟨m, hm, hn⟩ := ih (n.tdiv 2)
    refine ⟨m, ?_, ?_⟩
    · simpa [iter, half] using hm
    · rw [hn, Int.natAbs_tdiv]
      show n.natAbs / 2 / 2 ^ k = n.natAbs / 2 ^ (k + 1)
      rw [Nat.div_div_eq_div_mul, Nat.pow_succ, Nat.mul_comm]

theorem isFinite_ofSign (s : Int) : isFinite (ofSign s) = false := by
  unfold ofSign
  split
  · rfl
  · split <;> rfl

theorem laws : Laws scalar bound where
  subMul_zero := by
    intro v s hs
    cases s <;> simp [scalar, isFinite] at hs
    simp only [scalar, mul, norm, Int.mul_zero]
    show sub v (fin (Int.tdiv 0 one)) = v
    rw [Int.zero_tdiv]
    exact sub_fin_zero v
  subMul_zero_step := by
    intro v z d hz hd
    cases d <;> simp [scalar, isFinite] at hd
    cases z <;> simp [scalar, isZero] at hz
    subst hz
    simp only [scalar, mul, norm, Int.zero_mul]
    show sub v (fin (Int.tdiv 0 one)) = v
    rw [Int.zero_tdiv]
    exact sub_fin_zero v
  half_finite := by
    intro s hs
    cases s <;> simp [scalar, isFinite, half] at hs ⊢
  halves_to_zero := by
    intro s hs
    cases s <;> simp [scalar, isFinite] at hs
    rename_i n
    obtain ⟨m, hm, hn⟩ := iter_half_fin (n.natAbs.log2 + 1) n
    simp only [scalar, bound]
    rw [hm]
    have : m.natAbs = 0 := by
      rw [hn]
      exact Nat.div_eq_of_lt Nat.lt_log2_self
    have : m = 0 := by omega
    subst this
    rfl
  sub_self_small := by
    intro r hr
    cases r <;> simp [scalar, isFinite] at hr
    simp [scalar, sub, neg, add, norm, abs, lt, eps, Int.add_right_neg]
  div_finite := by
    intro a b h
    change isFinite (div a b) = true at h
    change isFinite a = true
    cases a with
    | fin n => rfl
    | nan => cases b <;> simp [div, isFinite] at h
    | pinf =>
      cases b <;> simp only [div] at h <;>
        first | (rw [isFinite_ofSign] at h; cases h) | (simp [isFinite] at h)
    | ninf =>
      cases b <;> simp only [div] at h <;>
        first | (rw [isFinite_ofSign] at h; cases h) | (simp [isFinite] at h)

end FVal

end Libfive.Solver
