/-
  Helper lemmas for C14: single-step facts about the atomic-step acceptor `cstep`.
-/
import LibfiveModel.RefCountConc

namespace Libfive.RCC

/-- the value of a cell as a counter: dying / freed / not yet allocated count as 0 -/
def cl : Option Cell → Nat
  | some (.live r) => r
  | _ => 0

/-- 1 once some thread has observed the 1 → 0 transition -/
def zphase : Option Cell → Nat
  | some (.dying _) => 1
  | some .freed => 1
  | _ => 0

/-- 1 once the node has been deleted -/
def dphase : Option Cell → Nat
  | some .freed => 1
  | _ => 0

def isAdd (n : Nat) : Ev → Nat
  | .add _ m _ => if m = n then 1 else 0
  | _ => 0
def isSub (n : Nat) : Ev → Nat
  | .sub _ m _ => if m = n then 1 else 0
  | _ => 0
def isZero (n : Nat) : Ev → Nat
  | .sub _ m old => if m = n ∧ old = 1 then 1 else 0
  | _ => 0
def isDel (n : Nat) : Ev → Nat
  | .del _ m => if m = n then 1 else 0
  | _ => 0

def total (f : Ev → Nat) : List Ev → Nat
  | [] => 0
  | e :: es => f e + total f es

theorem get_set (s : CState) (m n : Nat) (c : Cell) (h : s[m]? ≠ none) :
    (s.setIfInBounds m c)[n]? = if n = m then some c else s[n]? := by
  rw [Array.getElem?_setIfInBounds]
  have hm : m < s.size := by
    by_cases hm : m < s.size
    · exact hm
    · exact absurd (Array.getElem?_eq_none (by omega)) h
  by_cases e : m = n
  · subst e; simp [hm]
  · have : ¬ n = m := fun x => e x.symm
    simp [e, this]

/-- events on other nodes leave a cell alone -/
theorem cstep_frame {s s' : CState} {e : Ev} (h : cstep s e = some s') (n : Nat) (hn : e.node ≠ n) :
    s'[n]? = s[n]? := by
  cases e with
  | alloc t m =>
    simp only [cstep] at h
    split at h
    · rename_i hm
      simp only [Option.some.injEq] at h; subst h
      rw [Array.getElem?_push]
      have : ¬ n = s.size := by intro x; apply hn; simp [Ev.node, hm, x]
      simp [this]
    · cases h
  | add t m old =>
    simp only [cstep] at h
    split at h
    · rename_i rc hc
      split at h
      · simp only [Option.some.injEq] at h; subst h
        rw [get_set _ _ _ _ (by rw [hc]; simp)]
        have : ¬ n = m := fun x => hn (by simp [Ev.node, x])
        simp [this]
      · cases h
    · cases h
  | sub t m old =>
    simp only [cstep] at h
    split at h
    · rename_i rc hc
      split at h
      · simp only [Option.some.injEq] at h; subst h
        rw [get_set _ _ _ _ (by rw [hc]; simp)]
        have : ¬ n = m := fun x => hn (by simp [Ev.node, x])
        simp [this]
      · cases h
    · cases h
  | del t m =>
    simp only [cstep] at h
    split at h
    · rename_i t' hc
      split at h
      · simp only [Option.some.injEq] at h; subst h
        rw [get_set _ _ _ _ (by rw [hc]; simp)]
        have : ¬ n = m := fun x => hn (by simp [Ev.node, x])
        simp [this]
      · cases h
    · cases h

/-- what one accepted event does to the cell it names -/
theorem cstep_self {s s' : CState} {e : Ev} (h : cstep s e = some s') :
    (∃ t n, e = .alloc t n ∧ s[n]? = none ∧ s'[n]? = some (.live 0)) ∨
    (∃ t n r, e = .add t n r ∧ s[n]? = some (.live r) ∧ s'[n]? = some (.live (r + 1))) ∨
    (∃ t n r, e = .sub t n (r + 2) ∧ s[n]? = some (.live (r + 2)) ∧ s'[n]? = some (.live (r + 1))) ∨
    (∃ t n, e = .sub t n 1 ∧ s[n]? = some (.live 1) ∧ s'[n]? = some (.dying t)) ∨
    (∃ t n, e = .del t n ∧ s[n]? = some (.dying t) ∧ s'[n]? = some .freed) := by
  cases e with
  | alloc t m =>
    simp only [cstep] at h
    split at h
    · rename_i hm
      simp only [Option.some.injEq] at h; subst h
      left
      refine ⟨t, m, rfl, ?_, ?_⟩
      · rw [hm]; exact Array.getElem?_eq_none (Nat.le_refl _)
      · rw [Array.getElem?_push]; simp [hm]
    · cases h
  | add t m old =>
    simp only [cstep] at h
    split at h
    · rename_i rc hc
      split at h
      · rename_i hr
        simp only [Option.some.injEq] at h; subst h; subst hr
        right; left
        refine ⟨t, m, rc, rfl, hc, ?_⟩
        rw [get_set _ _ _ _ (by rw [hc]; simp)]; simp
      · cases h
    · cases h
  | sub t m old =>
    simp only [cstep] at h
    split at h
    · rename_i rc hc
      split at h
      · rename_i hr
        obtain ⟨hr1, hr2⟩ := hr
        simp only [Option.some.injEq] at h; subst h; subst hr1
        by_cases h1 : rc = 1
        · subst h1
          right; right; right; left
          refine ⟨t, m, rfl, hc, ?_⟩
          rw [get_set _ _ _ _ (by rw [hc]; simp)]; simp
        · right; right; left
          obtain ⟨r, hr⟩ : ∃ r, rc = r + 2 := ⟨rc - 2, by omega⟩
          subst hr
          refine ⟨t, m, r, rfl, hc, ?_⟩
          rw [get_set _ _ _ _ (by rw [hc]; simp)]; simp
      · cases h
    · cases h
  | del t m =>
    simp only [cstep] at h
    split at h
    · rename_i t' hc
      split at h
      · rename_i ht
        simp only [Option.some.injEq] at h; subst h; subst ht
        right; right; right; right
        refine ⟨t, m, rfl, hc, ?_⟩
        rw [get_set _ _ _ _ (by rw [hc]; simp)]; simp
      · cases h
    · cases h

/-- one-step accounting for the three observables of node `n` -/
theorem cstep_account {s s' : CState} {e : Ev} (h : cstep s e = some s') (n : Nat) :
    cl s'[n]? + isSub n e = cl s[n]? + isAdd n e ∧
    zphase s'[n]? = zphase s[n]? + isZero n e ∧
    dphase s'[n]? = dphase s[n]? + isDel n e := by
  by_cases hn : e.node = n
  · rcases cstep_self h with ⟨t, m, rfl, h0, h1⟩ | ⟨t, m, r, rfl, h0, h1⟩ | ⟨t, m, r, rfl, h0, h1⟩ |
      ⟨t, m, rfl, h0, h1⟩ | ⟨t, m, rfl, h0, h1⟩ <;>
    · simp only [Ev.node] at hn; subst hn
      simp [h0, h1, cl, zphase, dphase, isSub, isAdd, isZero, isDel]
  · rw [cstep_frame h n hn]
    have : isSub n e = 0 ∧ isAdd n e = 0 ∧ isZero n e = 0 ∧ isDel n e = 0 := by
      cases e <;> simp only [Ev.node] at hn <;> simp [isSub, isAdd, isZero, isDel, hn]
    obtain ⟨a, b, c, d⟩ := this
    simp [a, b, c, d]

end Libfive.RCC
