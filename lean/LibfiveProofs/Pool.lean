/-
  Lemmas about the pool model (LibfiveModel/Pool.lean):
    * `last_arriver` — the `pending` protocol of one branch (used by C11, C03, C20)
    * queue conservation (`no_lost_task`)
    * progress measure of the worker loop
-/
import LibfiveModel.Pool
import Mathlib.Data.List.Perm.Subperm
import Mathlib.Tactic.Linarith

set_option linter.unusedSimpArgs false
set_option linter.unusedVariables false

namespace Libfive.Pool

/-! ## `last_arriver` -/

/-- pigeonhole: a duplicate-free list of `n` numbers below `n` contains every number below `n` -/
theorem full_of_nodup {l : List Nat} {n : Nat} (hnd : l.Nodup) (hlt : ∀ x ∈ l, x < n)
    (hlen : l.length = n) : ∀ i, i < n → i ∈ l := by
  have hsub : l ⊆ List.range n := fun x hx => List.mem_range.2 (hlt x hx)
  have hp : l.Perm (List.range n) :=
    (List.subperm_of_subset hnd hsub).perm_of_length_le (by simp [hlen])
  intro i hi
  exact hp.mem_iff.2 (List.mem_range.2 hi)

theorem length_le_of_nodup {l : List Nat} {n : Nat} (hnd : l.Nodup) (hlt : ∀ x ∈ l, x < n) :
    l.length ≤ n := by
  have hsub : l ⊆ List.range n := fun x hx => List.mem_range.2 (hlt x hx)
  simpa using (List.subperm_of_subset hnd hsub).length_le

/-- invariant of the branch protocol for `n` children -/
structure BInv (n : Nat) (s : BState) : Prop where
  inst_nodup : s.installed.Nodup
  arr_nodup : s.arrived.Nodup
  arr_sub : ∀ i ∈ s.arrived, i ∈ s.installed
  inst_lt : ∀ i ∈ s.installed, i < n
  early : s.arrived.length < n → s.pending = n - 1 - s.arrived.length ∧ s.collectors = []
  full : s.arrived.length = n → ∃ i rest, s.arrived = i :: rest ∧ s.collectors = [i]

theorem binv_init (n : Nat) (hn : 0 < n) : BInv n (BState.init n) := by
  refine ⟨by simp [BState.init], by simp [BState.init], by simp [BState.init], by simp [BState.init], ?_, ?_⟩
  · intro _; simp [BState.init]
  · intro h; simp [BState.init] at h; omega

theorem binv_step (n : Nat) (s s' : BState) (e : BEv) (he : e.child < n) (hi : BInv n s)
    (hs : bstep s e = some s') : BInv n s' := by
  cases e with
  | install i =>
    simp only [bstep] at hs
    split at hs
    · simp at hs
    · rename_i hni
      simp only [Option.some.injEq] at hs
      subst hs
      refine ⟨List.nodup_cons.2 ⟨hni, hi.inst_nodup⟩, hi.arr_nodup, ?_, ?_, hi.early, hi.full⟩
      · intro j hj; exact List.mem_cons_of_mem _ (hi.arr_sub j hj)
      · intro j hj
        rcases List.mem_cons.1 hj with rfl | h
        · exact he
        · exact hi.inst_lt j h
  | dec i =>
    simp only [bstep] at hs
    split at hs
    · rename_i hc
      obtain ⟨hin, hna⟩ := hc
      simp only [Option.some.injEq] at hs
      subst hs
      have hlen : s.arrived.length < n := by
        have hle := length_le_of_nodup hi.arr_nodup (fun x hx => hi.inst_lt x (hi.arr_sub x hx))
        rcases Nat.lt_or_ge s.arrived.length n with h | h
        · exact h
        · exact absurd (full_of_nodup hi.arr_nodup (fun x hx => hi.inst_lt x (hi.arr_sub x hx))
            (by omega) i (hi.inst_lt i hin)) hna
      obtain ⟨hp, hcoll⟩ := hi.early hlen
      refine ⟨hi.inst_nodup, List.nodup_cons.2 ⟨hna, hi.arr_nodup⟩, ?_, hi.inst_lt, ?_, ?_⟩
      · intro j hj
        rcases List.mem_cons.1 hj with rfl | h
        · exact hin
        · exact hi.arr_sub j h
      · intro h
        simp only [List.length_cons] at h
        have : s.pending ≠ 0 := by omega
        simp only [fetchSub, this, if_false, hcoll, List.length_cons]
        exact ⟨by omega, trivial⟩
      · intro h
        simp only [List.length_cons] at h
        have : s.pending = 0 := by omega
        exact ⟨i, s.arrived, rfl, by simp [fetchSub, this, hcoll]⟩
    · simp at hs

theorem binv_run (n : Nat) (tr : List BEv) (s s' : BState) (hev : ∀ e ∈ tr, e.child < n)
    (hi : BInv n s) (hr : brun s tr = some s') : BInv n s' := by
  induction tr generalizing s with
  | nil => simp [brun] at hr; subst hr; exact hi
  | cons e es ih =>
    simp only [brun] at hr
    split at hr
    · rename_i s1 h1
      exact ih s1 (fun e' he' => hev e' (List.mem_cons_of_mem _ he'))
        (binv_step n s s1 e (hev e (List.mem_cons_self ..)) hi h1) hr
    · simp at hr

/-- **last_arriver.**  A branch with `n = 2^N ≥ 1` children whose counter is initialised to `n − 1`.
    For ANY interleaving `tr` of the children's `install` / `pending--` steps that the protocol
    admits (each child installs itself, then decrements, once):
    * at most one `pending--` ever observes 0;
    * as long as fewer than `n` children have arrived nobody has observed 0
      (`collectChildren` does not run early);
    * once all `n` have arrived exactly one has observed 0, it is the **last** arriver, and at that
      moment every child is installed (the collector reads `n` valid child pointers). -/
theorem last_arriver (n : Nat) (hn : 0 < n) (tr : List BEv) (hev : ∀ e ∈ tr, e.child < n)
    (s : BState) (hr : brun (BState.init n) tr = some s) :
    s.collectors.length ≤ 1 ∧
    (s.arrived.length < n → s.collectors = []) ∧
    (s.arrived.length = n → ∃ i rest, s.arrived = i :: rest ∧ s.collectors = [i] ∧
        ∀ j, j < n → j ∈ s.installed) := by
  have hi := binv_run n tr _ s hev (binv_init n hn) hr
  have hle := length_le_of_nodup hi.arr_nodup (fun x hx => hi.inst_lt x (hi.arr_sub x hx))
  refine ⟨?_, fun h => (hi.early h).2, ?_⟩
  · rcases Nat.lt_or_ge s.arrived.length n with h | h
    · simp [(hi.early h).2]
    · obtain ⟨i, rest, _, hc⟩ := hi.full (by omega)
      simp [hc]
  · intro h
    obtain ⟨i, rest, ha, hc⟩ := hi.full h
    refine ⟨i, rest, ha, hc, fun j hj => ?_⟩
    exact hi.arr_sub j (full_of_nodup hi.arr_nodup (fun x hx => hi.inst_lt x (hi.arr_sub x hx)) h j hj)

/-- the counter values observed by successive `pending--` are `n−1, n−2, …, 0` -/
theorem observed_countdown (n : Nat) (hn : 0 < n) (tr : List BEv) (hev : ∀ e ∈ tr, e.child < n)
    (s : BState) (hr : brun (BState.init n) tr = some s) (h : s.arrived.length < n) :
    s.pending = n - 1 - s.arrived.length :=
  ((binv_run n tr _ s hev (binv_init n hn) hr).early h).1

end Libfive.Pool

namespace Libfive.Pool

/-! ## queue conservation -/

/-- tasks currently queued: the lock-free stack plus all local stacks -/
def S.queued (s : S) : List Nat := s.bag ++ s.loc.map (·.2)

/-- invariant: tasks are distinct, and every task ever pushed is either popped or still queued -/
structure Q (s : S) : Prop where
  nodup : s.pushed.Nodup
  sub : ∀ c ∈ s.pushed, c ∈ s.created
  perm : s.pushed.Perm (s.popped ++ s.queued)

theorem q_init (n cap L : Nat) : Q (S.init n cap L) :=
  ⟨by simp [S.init], by simp [S.init], by simp [S.init, S.queued]⟩

theorem perm_pop {pushed popped pre post : List Nat} {c : Nat}
    (h : pushed.Perm (popped ++ (pre ++ c :: post))) : pushed.Perm ((c :: popped) ++ (pre ++ post)) := by
  refine h.trans ?_
  have : popped ++ (pre ++ c :: post) = (popped ++ pre) ++ c :: post := by simp
  rw [this]
  refine (List.perm_middle).trans ?_
  simp

theorem step_q (s s' : S) (e : Ev) (hq : Q s) (h : step s e = some s') : Q s' := by
  obtain ⟨h1, h2, h3⟩ := hq
  cases e with
  | cancel => simp only [step, Option.some.injEq] at h; subst h; exact ⟨h1, h2, h3⟩
  | loop w =>
    simp only [step] at h; split at h
    · simp only [Option.some.injEq] at h; subst h; exact ⟨h1, h2, h3⟩
    · simp at h
  | exitLoop w =>
    simp only [step] at h; split at h
    · simp only [Option.some.injEq] at h; subst h; exact ⟨h1, h2, h3⟩
    · simp at h
  | noTask w =>
    simp only [step] at h; split at h
    · simp only [Option.some.injEq] at h; subst h; exact ⟨h1, h2, h3⟩
    · simp at h
  | exitRoot w =>
    simp only [step] at h; split at h
    · split at h
      · simp only [Option.some.injEq] at h; subst h; exact ⟨h1, h2, h3⟩
      · simp at h
    · simp at h
  | evalDone w k =>
    simp only [step] at h; split at h
    · cases k <;> simp only at h <;> split at h <;>
        first | (simp only [Option.some.injEq] at h; subst h; exact ⟨h1, h2, h3⟩) | simp at h
    · simp at h
  | collect w last =>
    simp only [step] at h; split at h
    · split at h
      · split at h
        · simp only [Option.some.injEq] at h; subst h; exact ⟨h1, h2, h3⟩
        · simp at h
      · simp at h
    · simp at h
  | pop w c =>
    simp only [step] at h; split at h
    · split at h
      · rename_i e he
        split at h
        · rename_i hc
          simp only [Option.some.injEq] at h; subst h
          have hmem : e ∈ s.loc := List.mem_of_find?_eq_some he
          have hl : (s.loc.map (·.2)).Perm (c :: (s.loc.erase e).map (·.2)) := by
            have := (List.perm_cons_erase hmem).map (·.2)
            simpa [hc] using this
          refine ⟨h1, h2, ?_⟩
          simp only [S.queued] at h3 ⊢
          have h4 : s.pushed.Perm (s.popped ++ (s.bag ++ c :: (s.loc.erase e).map (·.2))) :=
            h3.trans (List.Perm.append_left _ (List.Perm.append_left _ hl))
          exact perm_pop h4
        · simp at h
      · split at h
        · rename_i hc
          simp only [Option.some.injEq] at h; subst h
          refine ⟨h1, h2, ?_⟩
          simp only [S.queued] at h3 ⊢
          have hb : s.bag.Perm (c :: s.bag.erase c) := List.perm_cons_erase hc
          have h4 : s.pushed.Perm (s.popped ++ ([] ++ c :: (s.bag.erase c ++ s.loc.map (·.2)))) := by
            refine h3.trans (List.Perm.append_left _ ?_)
            simpa using hb.append_right _
          simpa using perm_pop h4
        · simp at h
    · simp at h
  | push w child toLocal =>
    simp only [step] at h; split at h
    · split at h
      · rename_i hc
        obtain ⟨hfresh, _, _, _⟩ := hc
        simp only [Option.some.injEq] at h; subst h
        refine ⟨List.nodup_cons.2 ⟨fun hm => hfresh (h2 _ hm), h1⟩, ?_, ?_⟩
        · intro c hc
          rcases List.mem_cons.1 hc with rfl | hc
          · exact List.mem_cons_self ..
          · exact List.mem_cons_of_mem _ (h2 c hc)
        · simp only [S.queued] at h3 ⊢
          cases toLocal
          · simp only [Bool.false_eq_true, if_false]
            exact (List.Perm.cons child h3).trans (List.perm_middle).symm
          · simp only [if_true, List.map_cons]
            refine (List.Perm.cons child h3).trans ?_
            have : s.popped ++ (s.bag ++ child :: s.loc.map (·.2)) = (s.popped ++ s.bag) ++ child :: s.loc.map (·.2) := by simp
            rw [this]
            have hm := (List.perm_middle (a := child) (l₁ := s.popped ++ s.bag)
              (l₂ := s.loc.map (·.2))).symm
            simpa using hm
      · simp at h
    · simp at h

end Libfive.Pool

namespace Libfive.Pool

theorem run_q (tr : List Ev) (s s' : S) (hq : Q s) (h : run s tr = some s') : Q s' := by
  induction tr generalizing s with
  | nil => simp [run] at h; subst h; exact hq
  | cons e es ih =>
    simp only [run] at h
    split at h
    · rename_i s1 h1; exact ih s1 (step_q s s1 e hq h1) h
    · simp at h

/-! ## the loop-head check and enabledness -/

theorem loop_rejected_of_cancel (s : S) (w : Nat) (hc : s.cancel = true) : step s (.loop w) = none := by
  simp [step, hc]

theorem loop_rejected_of_done (s : S) (w : Nat) (hd : s.done = true) : step s (.loop w) = none := by
  simp [step, hd]

theorem exit_enabled_of_cancel (s : S) (w : Nat) (hi : s.act w = .idle) (hc : s.cancel = true ∨ s.done = true) :
    (step s (.exitLoop w)).isSome = true := by
  rcases hc with hc | hc <;> simp [step, hi, hc]

theorem idle_enabled (s : S) (w : Nat) (hi : s.act w = .idle) :
    (step s (.loop w)).isSome = true ∨ (step s (.exitLoop w)).isSome = true := by
  by_cases hd : s.done = true
  · right; simp [step, hi, hd]
  · by_cases hc : s.cancel = true
    · right; simp [step, hi, hc]
    · left; simp [step, hi, hd, hc]

theorem inLoop_enabled (s : S) (w : Nat) (hi : s.act w = .inLoop) :
    (step s (.noTask w)).isSome = true ∨ ∃ c, (step s (.pop w c)).isSome = true := by
  cases hf : s.loc.find? (fun e => e.1 == w) with
  | some e => right; exact ⟨e.2, by simp [step, hi, hf]⟩
  | none =>
    cases hb : s.bag with
    | nil => left; simp [step, hi, hf, hb]
    | cons c rest => right; exact ⟨c, by simp [step, hi, hf, hb]⟩

theorem ascend_enabled (s : S) (w c : Nat) (hi : s.act w = .ascend c) :
    (step s (.exitRoot w)).isSome = true ∨ ∃ l, (step s (.collect w l)).isSome = true := by
  cases hp : s.parent c with
  | none => left; simp [step, hi, hp]
  | some p => right; exact ⟨decide ((fetchSub (s.pending p)).1 = 0), by simp [step, hi, hp]⟩

/-- a worker that has left its loop takes no further step -/
theorem exited_final (s : S) (w : Nat) (hx : s.act w = .exited) (e : Ev) (he : e.worker = some w) :
    step s e = none := by
  cases e <;> simp only [Ev.worker, Option.some.injEq, reduceCtorEq] at he <;> subst he <;> simp [step, hx]

end Libfive.Pool
